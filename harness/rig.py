"""rig — in-process test bench around the REAL agent code (imported from /repo/src).

Nothing of the agent is replaced except its outward edges: the push service (records snapshots instead of
submitting them to the task pool), the plugins (recording logger / metric / span processors) and the clock
(`time_ns` as seen by TriggerContext).  Import this only after core.use_repo().
"""
import sys
import threading
import types

import core
core.use_repo()

from deep.config import ConfigService                                   # noqa: E402
from deep.config.tracepoint_config import TracepointConfigService      # noqa: E402
from deep.processor.trigger_handler import TriggerHandler              # noqa: E402
from deep.push.push_service import PushService                         # noqa: E402
from deep.api.resource import Resource                                 # noqa: E402
from deep.api.plugin import TracepointLogger, SnapshotDecorator        # noqa: E402
from deep.api.plugin.metric import MetricProcessor                     # noqa: E402
from deep.api.plugin.span import SpanProcessor, Span                   # noqa: E402
import deep.processor.context.trigger_context as _tc                   # noqa: E402


class RecPush(PushService):
    def __init__(self):
        super().__init__(None, None)
        self.pushed = []
        self.threads = []

    def push_snapshot(self, s):
        self.pushed.append(s)
        self.threads.append(threading.get_ident())


class RecLogger(TracepointLogger):
    def __init__(self):
        super().__init__()
        self.logged = []

    def log_tracepoint(self, log_msg, tp_id, ctx_id):
        self.logged.append((log_msg, tp_id, ctx_id))


class RecMetric(MetricProcessor):
    def __init__(self, name='RecMetric', fail=None):
        super().__init__(name=name)
        self.calls = []
        self.attempts = []
        self.fail = fail or (lambda op, n: False)

    def _rec(self, op, *a):
        self.attempts.append((op,) + a)
        if self.fail(op, len(self.attempts) - 1):
            raise RuntimeError('metric processor failure')
        self.calls.append((op,) + a)

    def counter(self, *a): self._rec('counter', *a)
    def gauge(self, *a): self._rec('gauge', *a)
    def histogram(self, *a): self._rec('histogram', *a)
    def summary(self, *a): self._rec('summary', *a)


class RecSpan(Span):
    def __init__(self, owner, name, ctx, tp):
        self.owner, self._name, self.ctx, self.tp = owner, name, ctx, tp
        self.closed = 0

    name = property(lambda self: self._name)
    trace_id = property(lambda self: 't')
    span_id = property(lambda self: 's')

    def add_attribute(self, key, value): pass
    def add_event(self, name, attributes=None): pass

    def close(self):
        self.closed += 1
        self.owner.events.append(('close', self._name, threading.get_ident(), self.tp))


class RecSpanProcessor(SpanProcessor):
    def __init__(self, name='RecSpan'):
        super().__init__(name=name)
        self.events = []
        self.spans = []

    def create_span(self, name, context_id, tracepoint_id):
        s = RecSpan(self, name, context_id, tracepoint_id)
        self.spans.append(s)
        self.events.append(('open', name, threading.get_ident(), tracepoint_id))
        return s

    def current_span(self):
        return None


class SyncTasks:
    """stand-in for TaskHandler that runs a submitted task at once on the calling thread."""

    def __init__(self):
        self.errors = []

    def submit_task(self, task, *args):
        from concurrent.futures import Future
        f = Future()
        try:
            f.set_result(task(*args))
        except BaseException as e:  # noqa: B902
            self.errors.append(e)
            f.set_exception(e)
        return f

    def flush(self):
        pass


class MockCode:
    def __init__(self, filename, name):
        self.co_filename = filename
        self.co_name = name


class MockFrame:
    """frame-like object (the unit tests of the repo drive trace_call the same way)."""

    def __init__(self, filename, func, lineno, f_locals=None, f_back=None, f_globals=None):
        self.f_code = MockCode(filename, func)
        self.f_lineno = lineno
        self.f_locals = f_locals if f_locals is not None else {}
        self.f_back = f_back
        self.f_globals = f_globals if f_globals is not None else {'__builtins__': __builtins__}


class Rig:
    """real ConfigService + TriggerHandler with recording edges and a scripted clock."""

    _lock = threading.Lock()

    def __init__(self, custom=None, metric=False, span=False, plugins=None, logger=True):
        cfg = {'APP_ROOT': '/app'}
        cfg.update(custom or {})
        self.config = ConfigService(cfg, tracepoints=TracepointConfigService())
        self.config.resource = Resource.get_empty()
        self.logger = RecLogger()
        self.metric = RecMetric() if metric else None
        self.span = RecSpanProcessor() if span else None
        pl = ([self.logger] if logger else []) + ([self.metric] if metric else []) + ([self.span] if span else [])
        self.config.plugins = pl + list(plugins or [])
        self.push = RecPush()
        self.handler = TriggerHandler(self.config, self.push)
        self.clock = 1
        self._tls = threading.local()
        self._orig = _tc.time_ns
        _tc.time_ns = self._now

    def _now(self):
        v = getattr(self._tls, 'ts', None)
        return self.clock if v is None else v

    def set_thread_clock(self, ts):
        self._tls.ts = ts

    def install(self, triggers):
        self.handler.new_config(list(triggers))

    def install_via_service(self, triggers, new_hash='h1'):
        """install through the real TracepointConfigService -> listener -> handler path (tasks run inline)."""
        if getattr(self, 'tasks', None) is None:
            self.tasks = SyncTasks()
            self.config.tracepoints.set_task_handler(self.tasks)
        self.config.tracepoints.update_new_config(1, new_hash, list(triggers))

    def effect_count(self):
        n = len(self.push.pushed) + len(self.logger.logged)
        if self.metric:
            n += len(self.metric.calls)
        if self.span:
            n += len([e for e in self.span.events if e[0] == 'open'])
        return n

    def close(self):
        _tc.time_ns = self._orig


def run_traced(handler, fn, *args, **kw):
    """run fn on a fresh thread with handler.trace_call installed via sys.settrace (real frames)."""
    res = {}

    def body():
        sys.settrace(handler.trace_call)
        try:
            res['ret'] = fn(*args, **kw)
        except BaseException as e:  # noqa: B902
            res['exc'] = e
        finally:
            res['trace_after'] = sys.gettrace()
            sys.settrace(None)
    t = threading.Thread(target=body)
    t.start()
    t.join()
    return res


def dump_snapshot(s):
    """canonical JSON-able rendering of an EventSnapshot (no ids that vary between runs)."""
    return {
        'tracepoint': {'id': s.tracepoint.id, 'path': s.tracepoint.path, 'line': s.tracepoint.line_no,
                       'args': dict(s.tracepoint.args), 'watches': list(s.tracepoint.watches)},
        'frames': [{'file': f.file_name, 'short': f.short_path, 'func': f.method_name, 'line': f.line_number,
                    'class': f.class_name, 'app': f.app_frame,
                    'vars': [[v.vid, v.name, list(v.modifiers or []), v.original_name] for v in f.variables]}
                   for f in s.frames],
        'vars': {k: {'type': v.type, 'value': v.value, 'truncated': v.truncated,
                     'children': [[c.vid, c.name, list(c.modifiers or []), c.original_name] for c in v.children]}
                 for k, v in s.var_lookup.items()},
        'watches': [{'expr': w.expression, 'result': ([w.result.vid, w.result.name] if w.result else None),
                     'error': w.error, 'source': w.source} for w in s.watches],
        'log': s.log_msg,
        'attributes': {k: v for k, v in s.attributes.items()},
    }
