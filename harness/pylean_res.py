"""pylean_res — translator extensions used by the C18/C19 extractors (harness/extract/attributes.py, config.py).

`XTranslator` adds to pylean.Translator (same contract: anything outside the subset raises Untranslatable):

  * integer literals typed by the caller (`int_type`), `None` per context;
  * truthiness of named locals in conditions (`truthy`: name -> Lean Bool text);
  * statements: calls of a logger (`skip_calls` prefixes) are dropped (no effect on the result);
    `x.append(e)`; `a, b = e`; typed `x = e` (`types`: name -> Lean type, emitted as `let x : T := e`);
    `x += e` on str/int locals; `continue`; `raise E` / `raise E(..)` through `on_raise`;
    `with <transparent>:`; `if x is not None:` on an Option-typed local as a `match`;
    `try: x = x.decode() / except UnicodeDecodeError: …` as a match on `Scalar.decode`;
    general `for x in xs:` loops with accumulators, translated to a structurally recursive auxiliary definition
    (the accumulators are the locals assigned both before and inside the loop); the auxiliary definitions are
    collected in `self.aux` and must be emitted before the function;
  * statement-level hooks: `stmt_hooks` — list of fn(translator, stmt, rest, k) -> Lean text | None, tried first.
"""
import ast
import textwrap

from pylean import Translator, Untranslatable


def strip_doc(body):
    body = list(body)
    if body and isinstance(body[0], ast.Expr) and isinstance(body[0].value, ast.Constant) \
            and isinstance(body[0].value.value, str):
        return body[1:]
    return body


def assigned_names(stmts):
    """names bound by plain assignment / augmented assignment / `.append` anywhere in stmts."""
    out = []
    for s in stmts:
        for n in ast.walk(s):
            if isinstance(n, ast.Assign):
                for t in n.targets:
                    for m in ast.walk(t):
                        if isinstance(m, ast.Name):
                            out.append(m.id)
            elif isinstance(n, ast.AugAssign) and isinstance(n.target, ast.Name):
                out.append(n.target.id)
            elif isinstance(n, ast.Expr) and isinstance(n.value, ast.Call) \
                    and isinstance(n.value.func, ast.Attribute) and n.value.func.attr == 'append' \
                    and isinstance(n.value.func.value, ast.Name):
                out.append(n.value.func.value.id)
    seen = []
    for x in out:
        if x not in seen:
            seen.append(x)
    return seen


class XTranslator(Translator):
    def __init__(self, int_type='Int', truthy=None, types=None, skip_calls=('logging.',), iters=None,
                 stmt_hooks=None, on_raise=None, transparent_with=(), ret_none=None, params='', loop_name='loop',
                 result_type='', **kw):
        super().__init__(**kw)
        self.int_type = int_type
        self.truthy = truthy or {}
        self.types = types or {}
        self.skip_calls = tuple(skip_calls)
        self.iters = iters or {}
        self.stmt_hooks = list(stmt_hooks or [])
        self.on_raise = on_raise
        self.transparent_with = tuple(transparent_with)
        self.ret_none = ret_none
        self.params = params            # Lean binder text of the enclosing function, passed on to loop helpers
        self.param_names = []
        self.loop_name = loop_name
        self.result_type = result_type
        self.aux = []
        self.loop_k = None
        self.before = []                # statements already translated in the current function (for accumulators)

    # ---- expressions ---------------------------------------------------------------------------
    def e_Constant(self, n):
        v = n.value
        if isinstance(v, int) and not isinstance(v, bool):
            return f'({v} : {self.int_type})'
        return super().e_Constant(n)

    def cond(self, n):
        if isinstance(n, ast.Name) and n.id in self.truthy:
            return self.truthy[n.id]
        key = ast.unparse(n)
        if key in self.subst:
            return self.subst[key]
        if isinstance(n, ast.BoolOp):
            op = ' && ' if isinstance(n.op, ast.And) else ' || '
            return '(' + op.join(self.cond(v) for v in n.values) + ')'
        if isinstance(n, ast.UnaryOp) and isinstance(n.op, ast.Not):
            return f'(!{self.cond(n.operand)})'
        return self.expr(n)

    def e_BoolOp(self, n):
        return self.cond(n)

    def e_UnaryOp(self, n):
        if isinstance(n.op, ast.Not):
            return self.cond(n)
        return super().e_UnaryOp(n)

    def _opt(self, node):
        return isinstance(node, ast.Name) and self.types.get(node.id, '').startswith('Option ')

    def e_Compare(self, n):
        # comparing an Option-typed local with a plain value: wrap the plain side
        if len(n.ops) == 1 and isinstance(n.ops[0], (ast.Eq, ast.NotEq)):
            a, b = n.left, n.comparators[0]
            if self._opt(a) != self._opt(b) and not (isinstance(a, ast.Constant) and a.value is None) \
                    and not (isinstance(b, ast.Constant) and b.value is None):
                ta = self.expr(a) if self._opt(a) else f'(some {self.expr(a)})'
                tb = self.expr(b) if self._opt(b) else f'(some {self.expr(b)})'
                return f'({ta} {"==" if isinstance(n.ops[0], ast.Eq) else "!="} {tb})'
        return super().e_Compare(n)

    # ---- statements ----------------------------------------------------------------------------
    def _is_skipped_call(self, s):
        return (isinstance(s, ast.Expr) and isinstance(s.value, ast.Call)
                and ast.unparse(s.value.func).startswith(self.skip_calls))

    def block(self, stmts, k):
        if not stmts:
            if k is None:
                raise Untranslatable('function may fall off its end (implicit None)')
            return k
        s, rest = stmts[0], stmts[1:]
        for h in self.stmt_hooks:
            r = h(self, s, rest, k)
            if r is not None:
                return r
        if self._is_skipped_call(s):
            return self.block(rest, k)
        if isinstance(s, ast.Continue):
            if self.loop_k is None:
                raise Untranslatable('continue outside a translated loop')
            return self.loop_k()
        if isinstance(s, ast.Return) and s.value is None and self.ret_none is not None:
            return self.ret_none
        if isinstance(s, ast.Raise):
            if self.on_raise is None or s.exc is None:
                raise Untranslatable('raise: ' + ast.unparse(s))
            exc = s.exc.func if isinstance(s.exc, ast.Call) else s.exc
            return self.on_raise(ast.unparse(exc))
        if isinstance(s, ast.With):
            if len(s.items) == 1 and ast.unparse(s.items[0].context_expr) in self.transparent_with \
                    and s.items[0].optional_vars is None:
                return self.block(list(s.body) + list(rest), k)
            raise Untranslatable('with: ' + ast.unparse(s.items[0].context_expr))
        if isinstance(s, ast.Expr) and isinstance(s.value, ast.Call) and isinstance(s.value.func, ast.Attribute) \
                and s.value.func.attr == 'append' and isinstance(s.value.func.value, ast.Name) \
                and len(s.value.args) == 1:
            x = self.names.get(s.value.func.value.id, s.value.func.value.id)
            return f'let {x} := ({x} ++ [{self.expr(s.value.args[0])}])\n{self.block(rest, k)}'
        if isinstance(s, ast.Assign) and len(s.targets) == 1 and isinstance(s.targets[0], ast.Tuple) \
                and all(isinstance(e, ast.Name) for e in s.targets[0].elts):
            names = ', '.join(self.names.get(e.id, e.id) for e in s.targets[0].elts)
            return f'let ({names}) := {self.expr(s.value)}\n{self.block(rest, k)}'
        if isinstance(s, ast.Assign) and len(s.targets) == 1 and isinstance(s.targets[0], ast.Name) \
                and s.targets[0].id in self.types:
            name = self.names.get(s.targets[0].id, s.targets[0].id)
            ty = self.types[s.targets[0].id]
            val = 'none' if (ty.startswith('Option ') and isinstance(s.value, ast.Constant)
                             and s.value.value is None) else self.expr(s.value)
            return f'let {name} : {ty} := {val}\n{self.block(rest, k)}'
        if isinstance(s, ast.AugAssign) and isinstance(s.target, ast.Name) and isinstance(s.op, ast.Add):
            name = self.names.get(s.target.id, s.target.id)
            op = '++' if self.types.get(s.target.id) == 'String' else '+'
            return f'let {name} := ({name} {op} {self.expr(s.value)})\n{self.block(rest, k)}'
        if isinstance(s, ast.If):
            return self.if_stmt(s, rest, k)
        if isinstance(s, ast.Try):
            return self.try_stmt(s, rest, k)
        if isinstance(s, ast.For):
            try:
                return self.search_loop(s, rest, k)
            except Untranslatable:
                return self.acc_loop(s, rest, k)
        return super().block(stmts, k)

    def if_stmt(self, s, rest, k):
        after = self.block(rest, k) if (rest or k is not None) else None
        t = s.test
        # `if x is not None:` / `if x is None:` on an Option-typed local
        if isinstance(t, ast.Compare) and len(t.ops) == 1 and isinstance(t.ops[0], (ast.IsNot, ast.Is)) \
                and self._opt(t.left) and isinstance(t.comparators[0], ast.Constant) \
                and t.comparators[0].value is None:
            x = self.names.get(t.left.id, t.left.id)
            saved = dict(self.types)
            self.types.pop(t.left.id, None)         # inside the `some` arm the name is the plain value
            some_body, none_body = (s.body, s.orelse) if isinstance(t.ops[0], ast.IsNot) else (s.orelse, s.body)
            a = self.block(list(some_body), after)
            self.types = saved
            b = self.block(list(none_body), after)
            return (f'match {x} with\n| some {x} =>\n{textwrap.indent(a, "  ")}\n| none =>\n'
                    f'{textwrap.indent(b, "  ")}')
        a = self.block(list(s.body), after)
        b = self.block(list(s.orelse), after)
        return f'if {self.cond(t)} then\n{textwrap.indent(a, "  ")}\nelse\n{textwrap.indent(b, "  ")}'

    def try_stmt(self, s, rest, k):
        # try: x = x.decode()  except UnicodeDecodeError: <handler>
        if (len(s.body) == 1 and isinstance(s.body[0], ast.Assign) and len(s.body[0].targets) == 1
                and isinstance(s.body[0].targets[0], ast.Name) and len(s.handlers) == 1
                and not s.orelse and not s.finalbody
                and s.handlers[0].type is not None and ast.unparse(s.handlers[0].type) == 'UnicodeDecodeError'):
            x = s.body[0].targets[0].id
            if ast.unparse(s.body[0].value) == f'{x}.decode()':
                h = self.block(list(s.handlers[0].body), self.block(rest, k) if (rest or k is not None) else None)
                after = self.block(rest, k)
                return (f'match Scalar.decode {x} with\n| none =>\n{textwrap.indent(h, "  ")}\n'
                        f'| some {x} =>\n{textwrap.indent(after, "  ")}')
        raise Untranslatable('try statement shape: ' + ast.unparse(s)[:80])

    def acc_loop(self, s, rest, k):
        """for x in xs: <body with continue / return / accumulator updates>   followed by `rest`."""
        if not isinstance(s.target, ast.Name) or s.orelse:
            raise Untranslatable('for loop shape: ' + ast.unparse(s)[:80])
        it = ast.unparse(s.iter)
        if it not in self.iters:
            raise Untranslatable('for loop over ' + it)
        inside = assigned_names(s.body)
        earlier = assigned_names([b for b in self.before if b.lineno < s.lineno and b is not s])
        # (statements of the function that start before the loop; a statement containing the loop is walked too,
        #  so names assigned *in* the loop must also be assigned on an earlier line to count)
        earlier = [n for n in earlier if self._assigned_before_line(n, s.lineno)]
        accs = [n for n in earlier if n in inside and n != s.target.id]
        for a in accs:
            if a not in self.types:
                raise Untranslatable(f'loop accumulator {a} has no declared type')
        x = s.target.id
        fname = self.loop_name
        params = ' '.join(self.param_names)
        call = lambda tail: f'{fname} {params} {tail} ' + ' '.join(accs)     # noqa: E731
        saved_k, saved_loop = self.loop_k, self.loop_k
        self.loop_k = lambda: call('rest__')
        body = self.block(list(s.body), call('rest__'))
        self.loop_k = saved_loop
        after = self.block(rest, k)
        acc_types = ' → '.join(self.types[a] for a in accs)
        elem_t = self.iters[it][1]
        sig = (f'def {fname} {self.params} : List {elem_t} → {acc_types + " → " if accs else ""}'
               f'{self.result_type}')
        pats = ', '.join(accs)
        self.aux.append(f'{sig}\n  | [], {pats} =>\n{textwrap.indent(after, "    ")}\n'
                        f'  | {x} :: rest__, {pats} =>\n{textwrap.indent(body, "    ")}\n')
        return call(self.iters[it][0])

    def _assigned_before_line(self, name, lineno):
        for b in self.before:
            for n in ast.walk(b):
                if getattr(n, 'lineno', lineno) >= lineno:
                    continue
                if isinstance(n, (ast.Assign, ast.AugAssign, ast.Expr)) and name in assigned_names([n]):
                    return True
        return False

    def function(self, fdef, lean_sig, skip_docstring=True):
        stmts = strip_doc(fdef.body)
        self.before = stmts
        body = self.block(stmts, None if self.ret_none is None else self.ret_none)
        return f'{lean_sig} :=\n{textwrap.indent(body, "  ")}\n'
