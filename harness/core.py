"""core — shared machinery of the checks: build + audit, model driver, case loop, verdict, evidence.

A property module (harness/props/cxx.py) defines (module level):

  ID              'C04'
  EXTRACT         ['limiter']                       extractor areas it depends on
  LEAN_TARGETS    ['DeepModel.Props.C04', ...]      lake targets that must build (proof obligations)
  AUDIT           'DeepModel/Audit/C04.lean'        file of `#print axioms` lines for its theorems
  DRIVER          'DeepModel/Driver/C04.lean'       model driver (JSON lines), or None
  BUDGET          {'quick': 400, 'thorough': 5000}  number of generated cases
  RULE            text: how cases are generated, what makes one distinct / non-trivial
  TRUSTED         [..]                              property-specific trusted-base lines
  ASSUMPTIONS     [..]
  def corpus() -> list[case]                        optional: hand-written / minimised past failures
  def gen(rng, tier) -> iterator[case]              infinite or finite stream of JSON-able cases
  def run_impl(case) -> obs                         run the REAL code, return canonical JSON-able result
  def oracle(case, obs) -> list[str]                the property's statement checked on obs (no model)
  def model_request(case, obs) -> dict|None         request line for the driver (None = not modelled)
  def compare(case, obs, resp) -> list[str]         correspondence: model response vs observation
  def label(case, obs) -> str                       branch label for the distribution
  def nontrivial(case, obs) -> bool
  def known_finding(case, obs) -> str|None          id of the known finding this case is an instance of
  def known_replays() -> list[(finding_id, what, case)]   replayed on the real code every run
  def shrink(case) -> iterator[case]                optional: smaller candidates
  def search(rng, tier) -> iterator[case]           optional: cases aimed at finding a failing input when
                                                    a proof/correspondence broke (default: gen)
Exit codes: 0 held, 1 violation (a `VIOLATION property=.. replay=..` line is printed), 2 infrastructure.
"""
import fcntl
import hashlib
import importlib
import json
import os
import random
import re
import subprocess
import sys
import time
import traceback

HERE = os.path.dirname(os.path.abspath(__file__))
VERIF = os.path.dirname(HERE)
LEAN = os.path.join(VERIF, 'lean')
REPO = os.environ.get('VERIF_REPO', '/repo')
SRC = os.path.join(REPO, 'src')
ALLOWED_AXIOMS = {'propext', 'Classical.choice', 'Quot.sound'}
FORBIDDEN = re.compile(r'\b(sorry|admit|native_decide|bv_decide|implemented_by)\b|^\s*axiom\s|\bunsafe\s|maxHeartbeats\s+0')

sys.path.insert(0, HERE)


class _FormatSink:
    """a logging handler that does what every real handler does first — build the text of the record
    (`msg % args`, str() of the arguments) — and then drops it.  The package's default logging.conf puts the
    `deep` logger at DEBUG with a console handler, so in production every log call of the agent formats its
    message; a sink that never formats would leave that agent code (log calls inside `except` blocks on the
    containment paths, arguments that are host objects) unexercised.  Errors while formatting are swallowed here
    exactly as logging.Handler.handleError does (it prints to stderr and carries on)."""
    level = 10

    def __init__(self):
        self.records = 0
        self.format_errors = 0

    def handle(self, record):
        self.records += 1
        try:
            record.getMessage()
        except Exception:   # noqa: BLE001 - what Handler.handleError absorbs
            self.format_errors += 1
        return True


LOG_SINK = None


def use_repo():
    """make `import deep` resolve to /repo's working tree; the agent's logger is ENABLED at DEBUG (as with the
    package's own logging.conf) and writes into a formatting sink (VERIF_LOGSINK=0: disabled logger instead)."""
    global LOG_SINK
    if SRC not in sys.path:
        sys.path.insert(0, SRC)
    import logging
    lg = logging.getLogger('deep')
    lg.propagate = False
    logging.getLogger().handlers[:] = [logging.NullHandler()]
    logging.getLogger().setLevel(logging.CRITICAL + 1)
    if os.environ.get('VERIF_LOGSINK', '1') == '0':
        lg.handlers[:] = [logging.NullHandler()]
        return
    if LOG_SINK is None:
        LOG_SINK = _FormatSink()
    lg.handlers[:] = [LOG_SINK]
    lg.setLevel(logging.DEBUG)


class Infra(Exception):
    pass


# ------------------------------------------------------------------------------------------ build
def _run(cmd, cwd=None, timeout=1800, env=None):
    p = subprocess.run(cmd, cwd=cwd, capture_output=True, text=True, timeout=timeout, env=env)
    return p.returncode, p.stdout + p.stderr


def strip_comments(text):
    text = re.sub(r'/-.*?-/', '', text, flags=re.S)
    return '\n'.join(l.split('--')[0] for l in text.splitlines())


def lean_imports(relpath, seen=None):
    """transitive DeepModel.* imports of a lean file (paths relative to lean/)."""
    seen = seen if seen is not None else []
    if relpath in seen:
        return seen
    seen.append(relpath)
    p = os.path.join(LEAN, relpath)
    if not os.path.exists(p):
        return seen
    for m in re.finditer(r'^import\s+(DeepModel[\w.]*)', open(p, encoding='utf-8').read(), flags=re.M):
        lean_imports(m.group(1).replace('.', '/') + '.lean', seen)
    return seen


def build(prop, tier='quick', use_baseline=False):
    """extract, build the property's targets, audit axioms.  Returns a dict:
       {extract: {area: status}, build_ok, build_log, failed_modules, theorems: {name: [axioms]},
        audit_ok, forbidden: [..], obligations, discharged}"""
    os.makedirs(os.path.join(LEAN, '.lake'), exist_ok=True)
    lock = open(os.path.join(LEAN, '.lake', 'verif.lock'), 'w')
    fcntl.flock(lock, fcntl.LOCK_EX)
    try:
        res = {}
        from extract import run as extract_run
        if use_baseline:
            res['baseline_restored'] = extract_run.restore_baseline(list(getattr(prop, 'EXTRACT', [])))
            res['extract'] = {a: 'baseline' for a in res['baseline_restored']}
        else:
            res['extract'] = extract_run.main(list(getattr(prop, 'EXTRACT', [])))
        targets = list(prop.LEAN_TARGETS)
        if getattr(prop, 'DRIVER', None):
            targets.append(prop.DRIVER[:-5].replace('/', '.'))
        rc, out = _run(['lake', 'build'] + targets, cwd=LEAN)
        if rc != 0 and ('error: build failed' not in out and 'Some required targets logged failures' not in out):
            raise Infra('lake build did not run: ' + out[-2000:])
        res['build_ok'] = rc == 0
        res['build_log'] = '\n'.join(l for l in out.splitlines() if not l.startswith('trace:'))[-6000:]
        res['failed_modules'] = sorted(set(re.findall(r'^- (DeepModel[\w.]*)', out, flags=re.M)))
        # driver usable?
        drv = getattr(prop, 'DRIVER', None)
        res['driver_ok'] = False
        if drv:
            deps = [d[:-5].replace('/', '.') for d in lean_imports(drv)]
            res['driver_ok'] = not any(m in res['failed_modules'] for m in deps)
        # audit
        res['theorems'] = {}
        res['audit_ok'] = False
        res['audit_log'] = ''
        props_ok = not any(m in res['failed_modules']
                           for m in [d[:-5].replace('/', '.') for d in lean_imports(prop.AUDIT)])
        if props_ok:
            rc2, out2 = _run(['lake', 'env', 'lean', prop.AUDIT], cwd=LEAN)
            res['audit_log'] = out2[-4000:]
            for m in re.finditer(r"'([\w.]+)' depends on axioms: \[([^\]]*)\]", out2):
                res['theorems'][m.group(1)] = [a.strip() for a in m.group(2).split(',') if a.strip()]
            for m in re.finditer(r"'([\w.]+)' does not depend on any axioms", out2):
                res['theorems'][m.group(1)] = []
            res['audit_ok'] = rc2 == 0 and len(res['theorems']) > 0
        wanted = re.findall(r'^#print axioms\s+([\w.]+)', open(os.path.join(LEAN, prop.AUDIT)).read(), flags=re.M)
        res['obligations'] = len(wanted)
        bad_ax = {t: [a for a in ax if a not in ALLOWED_AXIOMS] for t, ax in res['theorems'].items()}
        bad_ax = {t: a for t, a in bad_ax.items() if a}
        res['foreign_axioms'] = bad_ax
        res['discharged'] = len([t for t in wanted if t in res['theorems'] and t not in bad_ax])
        # forbidden tokens in every file the property's theorems depend on
        hits = []
        for rel in lean_imports(prop.AUDIT):
            p = os.path.join(LEAN, rel)
            if os.path.exists(p):
                for i, l in enumerate(strip_comments(open(p, encoding='utf-8').read()).splitlines(), 1):
                    if FORBIDDEN.search(l):
                        hits.append(f'{rel}:{i}: {l.strip()[:100]}')
        res['forbidden'] = hits
        res['lean_files'] = lean_imports(prop.AUDIT)
        # thorough tier: independent re-check of the compiled property modules
        res['leanchecker'] = None
        if tier == 'thorough' and res['build_ok'] and props_ok:
            mods = [t for t in prop.LEAN_TARGETS]
            rc3, out3 = _run(['lake', 'env', 'leanchecker'] + mods, cwd=LEAN, timeout=1500)
            res['leanchecker'] = 'ok' if rc3 == 0 else out3[-1500:]
            if rc3 != 0:
                res['build_ok'] = False
                res['failed_modules'] = sorted(set(res['failed_modules'] + mods))
                res['build_log'] += '\nleanchecker: ' + out3[-1500:]
        return res
    finally:
        fcntl.flock(lock, fcntl.LOCK_UN)
        lock.close()


def run_driver(driver, requests, timeout=1200):
    """send request dicts to the model driver (one batch), return list of response dicts."""
    if not requests:
        return []
    data = '\n'.join(json.dumps(r, ensure_ascii=True) for r in requests) + '\n'
    p = subprocess.run(['lake', 'env', 'lean', '--run', driver], cwd=LEAN, input=data, capture_output=True,
                       text=True, timeout=timeout)
    lines = [l for l in p.stdout.split('\n') if l.strip()]    # not splitlines(): U+0085/U+2028 are not line ends here
    if p.returncode != 0 or len(lines) != len(requests):
        raise Infra(f'driver {driver}: rc={p.returncode} got {len(lines)}/{len(requests)} lines; '
                    f'stderr: {p.stderr[-1500:]} stdout tail: {p.stdout[-500:]}')
    return [json.loads(l) for l in lines]


# ------------------------------------------------------------------------------------------ runner
def canon(x):
    return json.dumps(x, sort_keys=True, ensure_ascii=True, default=str)


def write_replay(pid, seed, n, payload):
    os.makedirs(os.path.join(VERIF, 'replays'), exist_ok=True)
    rel = os.path.join('replays', f'{pid}-{seed}-{n}.json')
    with open(os.path.join(VERIF, rel), 'w') as f:
        json.dump(payload, f, indent=1, sort_keys=True, default=str)
    return rel


def do_shrink(prop, case, still_fails, budget_s=20):
    if not hasattr(prop, 'shrink'):
        return case
    t0 = time.time()
    cur = case
    progress = True
    while progress and time.time() - t0 < budget_s:
        progress = False
        for cand in prop.shrink(cur):
            if time.time() - t0 > budget_s:
                break
            try:
                if still_fails(cand):
                    cur = cand
                    progress = True
                    break
            except Exception:
                continue
    return cur


def main(prop, argv):
    t0 = time.time()
    tier = os.environ.get('VERIF_TIER', 'quick')
    replay = None
    i = 0
    while i < len(argv):
        if argv[i] == '--tier':
            tier = argv[i + 1]; i += 2
        elif argv[i] == '--replay':
            replay = argv[i + 1]; i += 2
        else:
            i += 1
    seed = int(os.environ.get('VERIF_SEED', '0') or 0)
    pid = prop.ID
    use_repo()

    if replay:
        payload = json.load(open(replay))
        case = payload.get('case')
        if case is None:
            print(f'replay {replay}: kind={payload.get("kind")} — no concrete case; {payload.get("what")}')
            return 1
        obs = prop.run_impl(case)
        v = prop.oracle(case, obs)
        print(json.dumps({'case': case, 'observed': obs, 'violations': v}, indent=1, default=str)[:6000])
        if v:
            print(f'VIOLATION property={pid} replay={replay}')
            return 1
        print('replay: property holds on this case now')
        return 0

    try:
        b = build(prop, tier)
    except subprocess.TimeoutExpired as e:
        print(f'INFRA property={pid} timeout in build: {e}')
        return 2
    except Infra as e:
        print(f'INFRA property={pid} {e}')
        return 2
    if b['forbidden'] or b['foreign_axioms']:
        print(f'INFRA property={pid} audit: forbidden tokens {b["forbidden"]} foreign axioms {b["foreign_axioms"]}')
        return 2
    extract_bad = {a: s for a, s in b['extract'].items() if s != 'ok'}
    broken = []
    if extract_bad:
        broken += [f'translation of {a}: {s}' for a, s in extract_bad.items()]
    if not b['build_ok']:
        broken.append('lake build failed for: ' + ', '.join(b['failed_modules']))
    elif not b['audit_ok'] or b['discharged'] != b['obligations']:
        broken.append(f'audit: {b["discharged"]}/{b["obligations"]} theorems present')
    # Tie 1 (translation regenerated from the source + proofs about it) did not go through.  Fall back to tie 2 of the
    # brief: the last good translation (harness/extract/baseline, made from the pinned HEAD) is kept as the model, its
    # proofs are re-checked, and the model is tied to the CURRENT code by an intensified correspondence run.  A harmless
    # rewrite then passes; a behavioural change shows up as a disagreement or an oracle failure.
    fallback = False
    primary_failure = list(broken)
    first_extract = dict(b['extract'])
    if broken:
        try:
            b2 = build(prop, tier, use_baseline=True)
        except (subprocess.TimeoutExpired, Infra) as e:
            print(f'INFRA property={pid} baseline build: {e}')
            return 2
        if b2['build_ok'] and b2['audit_ok'] and b2['discharged'] == b2['obligations'] and b2['driver_ok'] \
                and not (b2['forbidden'] or b2['foreign_axioms']) and getattr(prop, 'DRIVER', None):
            fallback = True
            b = b2
            b['extract'] = first_extract
            broken = []
        else:
            broken.append('the baseline model does not build either')

    rng = random.Random(f'{pid}:{seed}:{tier}')
    budget = prop.BUDGET[tier] * (3 if fallback else 1)
    deadline = time.time() + (getattr(prop, 'TIME', {}).get(tier) or (100 if tier == 'quick' else 900)) * (2 if fallback else 1)

    known_lines = []
    stats = {'evaluations': 0, 'labels': {}, 'nontrivial': set(), 'known_instances': {}, 'model_compared': 0}
    samples = []
    concrete = []      # (case, obs, violations)
    diffs = []         # (case, obs, resp, diffs)
    executed = []      # (case, obs)

    def evaluate(case, collect=True):
        obs = prop.run_impl(case)
        v = prop.oracle(case, obs)
        stats['evaluations'] += 1
        if collect:
            lab = prop.label(case, obs) if hasattr(prop, 'label') else 'case'
            stats['labels'][lab] = stats['labels'].get(lab, 0) + 1
            if not hasattr(prop, 'nontrivial') or prop.nontrivial(case, obs):
                stats['nontrivial'].add(hashlib.sha1(canon(case).encode()).hexdigest())
        if v:
            fid = prop.known_finding(case, obs) if hasattr(prop, 'known_finding') else None
            if fid:
                stats['known_instances'][fid] = stats['known_instances'].get(fid, 0) + 1
            else:
                concrete.append((case, obs, v))
        return obs, v

    try:
        # known findings replayed on the real code
        for fid, what, case in (prop.known_replays() if hasattr(prop, 'known_replays') else []):
            obs = prop.run_impl(case)
            v = prop.oracle(case, obs)
            stats['evaluations'] += 1
            if v:
                known_lines.append(f'KNOWN-FINDING: property={pid} {fid} {what}')
        # corpus then generated
        todo = list(prop.corpus()) if hasattr(prop, 'corpus') else []
        ncorpus = len(todo)
        g = prop.gen(rng, tier)
        for case in todo:
            obs, v = evaluate(case)
            executed.append((case, obs))
        n = 0
        for case in g:
            if n >= budget or (time.time() > deadline and n >= max(20, budget // 10)):
                break
            obs, v = evaluate(case)
            executed.append((case, obs))
            if len(samples) < 3 and (not hasattr(prop, 'nontrivial') or prop.nontrivial(case, obs)):
                samples.append({'case': case, 'observed': obs})
            n += 1
            if len(concrete) >= 3:
                break
        # correspondence
        drv = getattr(prop, 'DRIVER', None)
        if drv and b['driver_ok']:
            reqs, idx = [], []
            for k, (case, obs) in enumerate(executed):
                r = prop.model_request(case, obs)
                if r is not None:
                    reqs.append(r); idx.append(k)
            resps = run_driver(drv, reqs)
            for k, resp in zip(idx, resps):
                case, obs = executed[k]
                d = prop.compare(case, obs, resp)
                stats['model_compared'] += 1
                if d:
                    diffs.append((case, obs, resp, d))
            for s in samples:
                for k, resp in zip(idx, resps):
                    if executed[k][0] is s['case']:
                        s['model'] = resp
        elif drv:
            broken.append('model driver does not build')
    except subprocess.TimeoutExpired as e:
        print(f'INFRA property={pid} timeout: {e}')
        return 2
    except Infra as e:
        print(f'INFRA property={pid} {e}')
        return 2

    for l in known_lines:
        print(l)

    verdict = 0
    replay_path = None
    # a concrete violation must reproduce: real-thread harnesses can mis-observe under machine load, and a replay
    # that does not replay is of no use.  Re-run each candidate (up to 2 more times); keep it if it fails again.
    unreproducible = []
    if concrete:
        confirmed = []
        for case, obs, v in concrete:
            again = False
            for _ in range(2):
                try:
                    o2 = prop.run_impl(case)
                    v2 = prop.oracle(case, o2)
                except (Infra, subprocess.TimeoutExpired):
                    v2 = []
                if v2:
                    again = True
                    break
            if again:
                confirmed.append((case, obs, v))
            else:
                unreproducible.append({'case': case, 'violations': v})
        concrete = confirmed
        stats['unreproducible'] = len(unreproducible)
        if unreproducible and not concrete:
            print(f'NOTE property={pid} {len(unreproducible)} observation(s) failed the oracle once and passed on 2 immediate '
                  f're-runs of the same case (not reported; kept in the evidence file)')

    if not concrete and (broken or diffs):
        # the tie is broken: look for a concrete failing input on the real code
        if fallback:
            broken += primary_failure
        if diffs:
            broken.append(f'correspondence: model and implementation differ on {len(diffs)} of '
                          f'{stats["model_compared"]} cases; first: {diffs[0][3][:3]}')
        srng = random.Random(f'{pid}:{seed}:{tier}:search')
        sg = prop.search(srng, tier) if hasattr(prop, 'search') else prop.gen(srng, tier)
        cnt = 0
        sdeadline = time.time() + (60 if tier == 'quick' else 600)
        try:
            for case in sg:
                if cnt >= 5 * budget or time.time() > sdeadline or concrete:
                    break
                evaluate(case, collect=False)
                cnt += 1
        except Exception as e:  # a crashing implementation during search is itself worth reporting
            broken.append(f'search aborted: {type(e).__name__}: {e}')
        stats['search_cases'] = cnt

    if concrete:
        case, obs, v = concrete[0]

        def still(c):
            o = prop.run_impl(c)
            vv = prop.oracle(c, o)
            return bool(vv) and not (hasattr(prop, 'known_finding') and prop.known_finding(c, o))
        small = do_shrink(prop, case, still)
        if small is not case:
            obs = prop.run_impl(small)
            v = prop.oracle(small, obs)
            case = small
        replay_path = write_replay(pid, seed, 0, {
            'kind': 'concrete', 'property': pid, 'case': case, 'observed': obs, 'violations': v,
            'tie_broken': broken,
            'rerun': f'bin/check {pid} --replay <this file>'})
        print(f'VIOLATION property={pid} replay={replay_path}')
        verdict = 1
    elif broken:
        payload = {'kind': 'unproven', 'property': pid, 'what': broken,
                   'build_log': b['build_log'][-3000:] if not b['build_ok'] else '',
                   'first_disagreement': ({'case': diffs[0][0], 'implementation': diffs[0][1],
                                           'model': diffs[0][2], 'diff': diffs[0][3]} if diffs else None),
                   'search_cases': stats.get('search_cases', 0)}
        replay_path = write_replay(pid, seed, 0, payload)
        print(f'VIOLATION property={pid} replay={replay_path} no-failing-input-found')
        verdict = 1

    # evidence
    wall = time.time() - t0
    trusted = [
        'Lean 4.33.0 kernel; axioms of every property theorem ⊆ {propext, Classical.choice, Quot.sound} (see axioms)',
        'harness/pylean.py + harness/extract/*.py (Python ast → Lean translator; validated by the correspondence run)',
        'harness correspondence + oracle code for this property',
    ] + list(getattr(prop, 'TRUSTED', []))
    ev = {
        'property_id': pid, 'tier': tier, 'seed': seed, 'level': getattr(prop, 'LEVEL', 'proof'),
        'coverage': {
            'obligations': max(b['obligations'], 1), 'discharged': b['discharged'],
            'checker_cmd': f'cd lean && lake build {" ".join(prop.LEAN_TARGETS)} && lake env lean {prop.AUDIT}',
            'trusted_base': trusted,
            'axioms': b['theorems'],
            'lean_files': b['lean_files'],
            'extract_status': b['extract'],
            'leanchecker': b.get('leanchecker'),
            'evaluations': stats['evaluations'],
            'distinct_nontrivial': len(stats['nontrivial']),
            'rule': prop.RULE,
            'samples': samples[:3] if samples else [{'note': 'no sample collected'}],
            'distribution': stats['labels'],
            'corpus_cases': ncorpus if 'ncorpus' in dir() else 0,
            'model_vs_implementation_compared': stats['model_compared'],
            'model_vs_implementation_disagreements': len(diffs),
            'known_findings_replayed': known_lines,
            'known_finding_instances_in_stream': stats['known_instances'],
            'search_cases': stats.get('search_cases', 0),
            'exhaustive': bool(getattr(prop, 'EXHAUSTIVE', False)),
            'agent_log_records_formatted': LOG_SINK.records if LOG_SINK else 0,
            'agent_log_format_errors': LOG_SINK.format_errors if LOG_SINK else 0,
            'tie_broken': broken,
            'unreproducible_observations': unreproducible[:3],
            'tie': ('correspondence-only: ' + '; '.join(primary_failure))[:1500] if fallback else 'translation regenerated from the current source + correspondence',
        },
        'assumptions': list(getattr(prop, 'ASSUMPTIONS', [])),
        'wall_s': round(wall, 2),
        'violations': 1 if verdict else 0,
    }
    if hasattr(prop, 'evidence_extra'):
        ev['coverage'].update(prop.evidence_extra())
    os.makedirs(os.path.join(VERIF, 'evidence'), exist_ok=True)
    with open(os.path.join(VERIF, 'evidence', f'{pid}.json'), 'w') as f:
        json.dump(ev, f, indent=1, sort_keys=True, default=str)
    if fallback and not verdict:
        print(f'NOTE property={pid} the translator/proofs could not follow the current source ({"; ".join(primary_failure)[:300]}); '
              f'the baseline model was kept and agrees with the implementation on all {stats["model_compared"]} compared cases')
    print(f'{pid} tier={tier} seed={seed} evaluations={stats["evaluations"]} compared={stats["model_compared"]} '
          f'theorems={b["discharged"]}/{b["obligations"]} verdict={"VIOLATION" if verdict else "ok"} wall={wall:.1f}s')
    return verdict


def cli():
    pid = sys.argv[1]
    try:
        prop = importlib.import_module('props.' + pid.lower())
    except ModuleNotFoundError as e:
        print(f'INFRA no check for {pid}: {e}')
        return 2
    try:
        return main(prop, sys.argv[2:])
    except Exception:
        traceback.print_exc()
        print(f'INFRA property={pid} harness crashed')
        return 2


if __name__ == '__main__':
    sys.exit(cli())
