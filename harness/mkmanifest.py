#!/usr/bin/env python3
"""write /verif/MANIFEST.json from the table below (one entry per property that has a check module)."""
import json
import os

HERE = os.path.dirname(os.path.abspath(__file__))
VERIF = os.path.dirname(HERE)

NOTE_COMMON = ('Trusted: Lean 4.33 kernel and the axioms printed per theorem (⊆ propext, Classical.choice, Quot.sound); '
               'the Python→Lean translator harness/pylean.py + harness/extract (validated every run by executing the '
               'translated definitions against the real code); the correspondence harness and its generators. ')

CHECKS = {}
for _f in sorted(os.listdir(os.path.join(HERE, 'manifest.d'))):
    if _f.endswith('.json'):
        _e = json.load(open(os.path.join(HERE, 'manifest.d', _f)))
        _e['note'] = NOTE_COMMON + _e.get('note', '')
        CHECKS[_f[:-5]] = _e

NOT_APPLICABLE = {}


def main():
    checks = []
    ready = set(open(os.path.join(HERE, 'manifest.d', 'READY')).read().split())
    for pid in sorted(CHECKS):
        if not os.path.exists(os.path.join(HERE, 'props', pid.lower() + '.py')) or pid not in ready:
            continue
        c = CHECKS[pid]
        checks.append({
            'property_id': pid,
            'quick_cmd': f'bin/check {pid} --tier quick',
            'thorough_cmd': f'bin/check {pid} --tier thorough',
            'evidence_file': f'evidence/{pid}.json',
            'replay_cmd_template': f'bin/check {pid} --replay {{path}}',
            'engine': 'lean-proof+correspondence',
            'level_claimed': {'category': c.get('category', 'proof'), 'text': c['text'], 'design_ref': 'DESIGN.md §' + c['design']},
            'level_note': c['note'],
            'technique': c['technique'],
        })
    props = [json.loads(l)['id'] for l in open(os.path.join(VERIF, 'properties.jsonl'))]
    na = []
    for p in props:
        if p not in [c['property_id'] for c in checks]:
            na.append({'property_id': p, 'reason': NOT_APPLICABLE.get(
                p, 'check not built yet (work in progress) — the technique applies, see DESIGN.md §7')})
    m = {
        'version': 1,
        'setup_cmd': 'bin/setup',
        'hooks': {'guard': 'DEEP_PYTHON_CLIENT_VERIF', 'enable': 'no hooks are needed: the harness injects clocks, faults, '
                  'fake channels and executors from outside the package (DESIGN.md §3)',
                  'baseline_off_cmd': 'cd /repo && /venv/bin/python -m pytest -ra -q -p no:cacheprovider --timeout=900 '
                                      '--continue-on-collection-errors',
                  'source_commits': [], 'add_only': True},
        'engines': [{'name': 'lean-proof+correspondence', 'path': 'lean/ + harness/',
                     'serves_properties': [c['property_id'] for c in checks],
                     'kind_free_text': 'Lean 4 theorems over models regenerated/translated from the Python source, tied to '
                                       'the code by translation (every run) and by differential correspondence runs'}],
        'checks': checks,
        'not_applicable': na,
        'notes': 'bin/check <id> [--tier quick|thorough] [--replay path]; known findings in known_findings.json; '
                 'seeded breaking changes in seeded/.',
    }
    with open(os.path.join(VERIF, 'MANIFEST.json'), 'w') as f:
        json.dump(m, f, indent=1)
    print('MANIFEST: %d checks, %d not_applicable' % (len(checks), len(na)))


if __name__ == '__main__':
    main()
