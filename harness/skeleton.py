"""skeleton — Python `ast` → guard skeleton (`Guard.Stmt` of lean/DeepModel/Model/Guard.lean).

Reusable library of the fault-containment family (C01, C14, C20; usable for C09).  It reads /repo's *current*
sources (through `pylean.load`) and never guesses: a construct it cannot express raises `pylean.Untranslatable`.

## API

  ctx = Context.for_repo()                 scans src/deep once: exception class hierarchy, property getters
  fdef = ctx.find('src/deep/api/deep.py', 'Deep.shutdown')      (pylean.find_def on the cached module)
  sk = ctx.skeleton(relpath, qualname, inline={...})             -> Node  (tuple tree, see below)
  to_lean(sk)                              Lean term of type Guard.Stmt
  ctx.sites(relpath, qualname)             {(lineno, col, end_lineno, end_col): site string} of every call site
  ctx.handlers(relpath, qualname)          {hid: first logging template in the handler or None}
  ctx.functions_with_try()                 [(relpath, qualname)] of every function in src/deep that has a `try`
  may_raise(sk, allowed=(True, True))      the same analysis as Guard.mayRaiseA, for use in harness oracles

## Mapping (DESIGN.md §2 (T)2)

  call expression            ('call', site)   site = "<line>:<col>-<endline>:<endcol> <callee text>"; may raise both
                             classes.  Calls are emitted in evaluation order (callee expression, arguments, then
                             the call); calls inside conditions, comprehensions, `with` items, default arguments,
                             decorators, f-strings are included.  `a and b`, `a or b` are emitted as if both sides
                             were evaluated (more calls than really happen, never fewer).
  whitelist (PURE_CALLS)     `len`, `isinstance`, `super`, and the logging functions (`logging.*`,
                             `deep.logging.*`: "logging never raises", DESIGN §4) — their *arguments* are still
                             scanned.
  attribute load             pure, except `.NAME` of an upper-case config key (`cfg:` call — goes through
                             ConfigService.__getattribute__) and `.name` of a @property of a deep class whose getter
                             is not trivial (`prop:` call).  Trivial getter: a single `return` of an expression
                             without calls that refers to trivial properties only (fixpoint over all deep classes,
                             by attribute name).
  other expressions          pure (operators, subscripts, displays, truthiness, iteration protocol): trusted base.
  x = e / x += e / del / …   calls of e;  `self.<f> = <constant | [] | {}>` is ('assign', f, text)
  if / elif / else           calls of the test, then ('branch', test text, then, else);  `e1 if c else e2` likewise
  for x in it: body          calls of `it`, then ('loop', text of it, body);  while c: ('loop', text of c, calls of c;
                             body) followed by the calls of c (the failing test)
  comprehension / genexpr    calls of the first iterable, then ('loop', '<comp> ' + text, calls of the rest)
  try/except                 ('try', body, catch, hid, handler); hid = "L<line of the except clause>";
                             catch ∈ 'baseException' | 'exception' | ('named', mayExc, mayBase) — classified against
                             builtins and the classes defined in src/deep; unknown class ⇒ ('named', True, True)
                             (may or may not catch — the model leaves it to an oracle, the raise-set analysis
                             treats it as "may escape").  A tuple of classes is the union.  Several clauses are
                             merged into one clause with the union class whose handler is a free `branch` between
                             the handlers (a superset of the behaviours).  `else:` is not supported.
  try/finally                ('finally', body, fin)
  with a as x, b: body       calls of a, ('call', '… with-enter'), …, ('finally', body, ('call', '… with-exit')) —
                             or the inlined `__exit__` skeleton when `inline` names it.  `__exit__` is assumed not to
                             swallow exceptions (true of TriggerContext/ActionContext: checked by guards.py).
  return e                   calls of e, ('ret', text of e);  `return f(...)` with f in `inline`: the callee's
                             skeleton in tail position
  raise C(...) / raise C     calls of the arguments, ('raise', 'exc'|'base') for a classified class, otherwise a
                             ('call', '… raise') that may raise both
  assert c                   calls of c, ('branch', c, pure, raise exc)
  import inside a function   ('call', '… import')
  yield e                    calls of e (the consumer's code is not part of the generator's skeleton)
  nested def / lambda        pure (their bodies are separate functions), decorator/default calls included
  match, async, try-else     Untranslatable
"""
import ast
import builtins
import os

import pylean
from pylean import Untranslatable

PURE_CALLS = {'len', 'isinstance', 'super'}
LOG_FUNCS = {'debug', 'info', 'warning', 'error', 'exception', 'critical', 'log'}
LOG_RECEIVERS = {'logging', 'deep.logging'}

PURE = ('pure',)
BRK = ('brk',)
CONT = ('cont',)


def is_log_call(call):
    f = call.func
    return (isinstance(f, ast.Attribute) and f.attr in LOG_FUNCS and ast.unparse(f.value) in LOG_RECEIVERS)


def is_pure_call(call):
    if isinstance(call.func, ast.Name) and call.func.id in PURE_CALLS:
        return True
    return is_log_call(call)


def pos_of(node):
    return (node.lineno, node.col_offset, node.end_lineno, node.end_col_offset)


def site_of(node, text=None, tag=''):
    t = text if text is not None else ast.unparse(node.func if isinstance(node, ast.Call) else node)
    t = ' '.join(t.split())[:48]
    l, c, el, ec = pos_of(node)
    return f'{l}:{c}-{el}:{ec} {t}{tag}'


def block(nodes):
    nodes = [n for n in nodes if n != PURE]
    if not nodes:
        return PURE
    out = nodes[-1]
    for n in reversed(nodes[:-1]):
        out = ('seq', n, out)
    return out


def strip_doc(body):
    if body and isinstance(body[0], ast.Expr) and isinstance(body[0].value, ast.Constant) \
            and isinstance(body[0].value.value, str):
        return body[1:]
    return body


class Context:
    """what the translation needs to know about the code base as a whole."""

    def __init__(self, root_rel='src/deep'):
        self.root_rel = root_rel
        self.modules = {}          # relpath -> ast.Module
        self.class_bases = {}      # class name -> [base names]
        self.props = {}            # property name -> [getter FunctionDef]
        self.trivial = {}
        self._scan()

    _cache = {}

    @classmethod
    def for_repo(cls):
        key = pylean.REPO
        if key not in cls._cache:
            cls._cache[key] = cls()
        return cls._cache[key]

    def _scan(self):
        root = os.path.join(pylean.REPO, self.root_rel)
        for dp, dn, fn in sorted(os.walk(root)):
            dn.sort()
            for f in sorted(fn):
                if f.endswith('.py'):
                    rel = os.path.relpath(os.path.join(dp, f), pylean.REPO)
                    self.modules[rel] = pylean.load(rel)
        for rel, tree in self.modules.items():
            for n in ast.walk(tree):
                if isinstance(n, ast.ClassDef):
                    self.class_bases.setdefault(n.name, [])
                    self.class_bases[n.name] += [ast.unparse(b).split('.')[-1] for b in n.bases]
                    for m in n.body:
                        if isinstance(m, ast.FunctionDef) and any(
                                ast.unparse(d) in ('property', 'abc.abstractproperty') for d in m.decorator_list):
                            self.props.setdefault(m.name, []).append(m)
        self._fix_trivial()

    # ---- properties -------------------------------------------------------------------------------
    def _fix_trivial(self):
        """greatest fixpoint: start with 'every property is trivial', remove those whose getter is not."""
        triv = {name: True for name in self.props}
        changed = True
        while changed:
            changed = False
            for name, getters in self.props.items():
                if not triv[name]:
                    continue
                ok = all(self._getter_trivial(g, triv) for g in getters)
                if not ok:
                    triv[name] = False
                    changed = True
        self.trivial = triv

    @staticmethod
    def _is_abstract_stub(g):
        body = strip_doc(list(g.body))
        return all(isinstance(s, ast.Pass) for s in body)

    def _getter_trivial(self, g, triv):
        if self._is_abstract_stub(g):
            return True
        body = strip_doc(list(g.body))
        if len(body) != 1 or not isinstance(body[0], ast.Return) or body[0].value is None:
            return False
        for n in ast.walk(body[0].value):
            if isinstance(n, (ast.Call, ast.Lambda, ast.ListComp, ast.SetComp, ast.DictComp, ast.GeneratorExp,
                              ast.Await, ast.Yield, ast.YieldFrom)):
                return False
            if isinstance(n, ast.Attribute):
                if n.attr.isupper() and len(n.attr) > 1:
                    return False
                if n.attr in triv and not triv[n.attr]:
                    return False
        return True

    def attr_is_call(self, node):
        """Attribute load that hides a call: 'cfg', 'prop' or None."""
        if not isinstance(node.ctx, ast.Load):
            return None
        a = node.attr
        if a.isupper() and len(a) > 1 and not a.startswith('__'):
            # an upper-case name on a module is a constant (e.g. LocationAction.ActionType is CamelCase, not upper)
            recv = ast.unparse(node.value)
            if recv.split('.')[-1] in ('config', '_config', 'cfg') or recv.endswith('.config'):
                return 'cfg'
            return None
        if a in self.trivial and not self.trivial[a]:
            return 'prop'
        return None

    # ---- exception classes -------------------------------------------------------------------------
    def classify(self, name):
        """'exc' | 'base' | None for a class name (last component)."""
        seen = set()
        todo = [name.split('.')[-1]]
        while todo:
            n = todo.pop()
            if n in seen:
                continue
            seen.add(n)
            if n == 'Exception':
                return 'exc'
            b = getattr(builtins, n, None)
            if isinstance(b, type) and issubclass(b, BaseException) and n not in self.class_bases:
                return 'exc' if issubclass(b, Exception) else 'base'
            if n in self.class_bases:
                todo += self.class_bases[n]
        if 'BaseException' in seen:
            return 'base'
        return None

    def catch_of(self, type_node):
        if type_node is None:
            return 'baseException'
        elts = type_node.elts if isinstance(type_node, ast.Tuple) else [type_node]
        may_exc = may_base = False
        for e in elts:
            t = ast.unparse(e).split('.')[-1]
            if t == 'BaseException':
                return 'baseException'
        for e in elts:
            t = ast.unparse(e).split('.')[-1]
            if t == 'Exception':
                may_exc = 'all'
                continue
            k = self.classify(t)
            if k == 'exc':
                may_exc = may_exc or True
            elif k == 'base':
                may_base = True
            else:
                may_exc = may_exc or True
                may_base = True
        if may_exc == 'all' and not may_base:
            return 'exception'
        if may_exc == 'all':
            # Exception plus some BaseException-only classes: every exc is caught, base only maybe.  The
            # language has no such clause; 'named(True, True)' is the sound over-approximation.
            return ('named', True, True)
        return ('named', bool(may_exc), bool(may_base))

    # ---- lookup -------------------------------------------------------------------------------------
    def find(self, relpath, qualname):
        if relpath not in self.modules:
            self.modules[relpath] = pylean.load(relpath)
        return find_qual(self.modules[relpath], qualname)

    def functions(self):
        """every function of the scanned tree: (relpath, runtime qualname, FunctionDef)"""
        out = []
        for rel, tree in self.modules.items():
            out += [(rel, q, f) for q, f in iter_functions(tree)]
        return out

    def functions_with_try(self):
        out = []
        for rel, q, f in self.functions():
            if any(isinstance(n, ast.Try) for n in own_nodes(f)):
                out.append((rel, q))
        return out

    def skeleton(self, relpath, qualname, inline=None):
        return Builder(self, inline or {}).function(self.find(relpath, qualname))

    def sites(self, relpath, qualname):
        b = Builder(self, {})
        b.function(self.find(relpath, qualname))
        return dict(b.site_table)

    def handlers(self, relpath, qualname):
        b = Builder(self, {})
        b.function(self.find(relpath, qualname))
        return dict(b.handler_table)


def find_qual(tree, qualname):
    """like pylean.find_def but with runtime qualnames (`f.<locals>.g`)."""
    for q, f in iter_functions(tree):
        if q == qualname:
            return f
    raise Untranslatable(f'definition {qualname} not found')


def iter_functions(tree):
    """(runtime __qualname__, FunctionDef) of every def in a module, nested ones included."""
    def walk(body, prefix, in_func):
        for n in body:
            if isinstance(n, (ast.FunctionDef, ast.AsyncFunctionDef)):
                q = prefix + n.name
                yield q, n
                yield from walk(n.body, q + '.<locals>.', True)
            elif isinstance(n, ast.ClassDef):
                yield from walk(n.body, prefix + n.name + '.', in_func)
            elif isinstance(n, (ast.If, ast.Try, ast.With, ast.For, ast.While)):
                for fld in ('body', 'orelse', 'finalbody'):
                    yield from walk(getattr(n, fld, []) or [], prefix, in_func)
                for h in getattr(n, 'handlers', []) or []:
                    yield from walk(h.body, prefix, in_func)
    yield from walk(tree.body, '', False)


def own_nodes(fdef):
    """ast nodes of a function body, not descending into nested defs/lambdas/classes."""
    todo = list(fdef.body)
    while todo:
        n = todo.pop()
        yield n
        for c in ast.iter_child_nodes(n):
            if isinstance(c, (ast.FunctionDef, ast.AsyncFunctionDef, ast.Lambda, ast.ClassDef)):
                continue
            todo.append(c)


class Builder:
    def __init__(self, ctx, inline):
        self.ctx = ctx
        self.inline = inline            # text of callee / 'with:<expr>' -> (name, relpath, qualname)
        self.site_table = {}            # pos -> site
        self.handler_table = {}         # hid -> log template

    # ---- expressions ---------------------------------------------------------------------------------
    def calls(self, node):
        """list of nodes for the calls made while evaluating `node` (an expr or None), in evaluation order"""
        if node is None:
            return []
        m = getattr(self, 'x_' + type(node).__name__, None)
        if m is not None:
            return m(node)
        out = []
        for c in ast.iter_child_nodes(node):
            if isinstance(c, ast.expr):
                out += self.calls(c)
            elif isinstance(c, (ast.keyword,)):
                out += self.calls(c.value)
            elif isinstance(c, ast.comprehension):
                raise Untranslatable('comprehension outside a comprehension expression')
        return out

    def mk_call(self, node, text=None, tag=''):
        s = site_of(node, text, tag)
        self.register(node, s)
        return ('call', s)

    def register(self, node, s):
        """remember where CPython will say this call is made (`co_positions` of the CALL / LOAD_ATTR)"""
        self.site_table[pos_of(node)] = s
        f = getattr(node, 'func', None)
        if isinstance(node, ast.Call) and isinstance(f, ast.Attribute) and f.lineno != f.end_lineno:
            # a method call whose receiver spans several lines is located at the method name (compile.c)
            self.site_table[(f.end_lineno, f.end_col_offset - len(f.attr), node.end_lineno, node.end_col_offset)] = s

    def x_Call(self, n):
        out = self.calls(n.func)
        for a in n.args:
            out += self.calls(a.value if isinstance(a, ast.Starred) else a)
        for k in n.keywords:
            out += self.calls(k.value)
        if is_pure_call(n):
            return out
        key = ast.unparse(n.func)
        if key in self.inline:
            name, rel, q = self.inline[key]
            self.register(n, site_of(n))
            return out + [('scope', name, Builder.sub(self, rel, q))]
        return out + [self.mk_call(n)]

    @staticmethod
    def sub(parent, rel, q):
        b = Builder(parent.ctx, parent.inline)
        return b.function(parent.ctx.find(rel, q))

    def x_Attribute(self, n):
        out = self.calls(n.value)
        kind = self.ctx.attr_is_call(n)
        if kind:
            out.append(self.mk_call(n, f'{kind}:{ast.unparse(n)}'))
        return out

    def x_Lambda(self, n):
        out = []
        for d in n.args.defaults + [d for d in n.args.kw_defaults if d is not None]:
            out += self.calls(d)
        return out

    def x_IfExp(self, n):
        t = self.calls(n.test)
        a, b = self.calls(n.body), self.calls(n.orelse)
        if not a and not b:
            return t
        return t + [('branch', ast.unparse(n.test), block(a), block(b))]

    def _comp(self, n, elts):
        gens = n.generators
        out = self.calls(gens[0].iter)
        inner = []
        for i, g in enumerate(gens):
            if i > 0:
                inner += self.calls(g.iter)
            for c in g.ifs:
                inner += self.calls(c)
        for e in elts:
            inner += self.calls(e)
        if inner:
            out.append(('loop', '<comp> ' + ast.unparse(gens[0].iter), block(inner)))
        return out

    def x_ListComp(self, n): return self._comp(n, [n.elt])
    def x_SetComp(self, n): return self._comp(n, [n.elt])
    def x_GeneratorExp(self, n): return self._comp(n, [n.elt])
    def x_DictComp(self, n): return self._comp(n, [n.key, n.value])

    def x_Await(self, n): raise Untranslatable('await')

    def x_YieldFrom(self, n):
        return self.calls(n.value) + [self.mk_call(n, 'yield from ' + ast.unparse(n.value))]

    # ---- statements ------------------------------------------------------------------------------------
    def function(self, fdef):
        if isinstance(fdef, ast.AsyncFunctionDef):
            raise Untranslatable('async def')
        return self.stmts(strip_doc(list(fdef.body)))

    def stmts(self, body):
        return block([self.stmt(s) for s in body])

    def stmt(self, s):
        m = getattr(self, 's_' + type(s).__name__, None)
        if m is None:
            raise Untranslatable(f'statement {type(s).__name__} at line {s.lineno}')
        return m(s)

    def s_Expr(self, s): return block(self.calls(s.value))
    def s_Pass(self, s): return PURE
    def s_Break(self, s): return BRK
    def s_Continue(self, s): return CONT
    def s_Global(self, s): return PURE
    def s_Nonlocal(self, s): return PURE

    def s_Delete(self, s):
        out = []
        for t in s.targets:
            out += self.target_calls(t)
        return block(out)

    def target_calls(self, t):
        # evaluating a store target evaluates its sub-expressions (the receiver, the subscript)
        if isinstance(t, ast.Attribute):
            return self.calls(t.value)
        if isinstance(t, ast.Subscript):
            return self.calls(t.value) + self.calls(t.slice)
        if isinstance(t, (ast.Tuple, ast.List)):
            out = []
            for e in t.elts:
                out += self.target_calls(e)
            return out
        if isinstance(t, ast.Starred):
            return self.target_calls(t.value)
        return []

    @staticmethod
    def const_text(v):
        if isinstance(v, ast.Constant) and isinstance(v.value, (bool, int, str, type(None))):
            return repr(v.value)
        if isinstance(v, (ast.List, ast.Tuple)) and not v.elts:
            return '[]'
        if isinstance(v, ast.Dict) and not v.keys:
            return '{}'
        return None

    def s_Assign(self, s):
        out = self.calls(s.value)
        for t in s.targets:
            out += self.target_calls(t)
        if len(s.targets) == 1 and isinstance(s.targets[0], ast.Attribute) \
                and ast.unparse(s.targets[0].value) == 'self':
            c = self.const_text(s.value)
            if c is not None:
                out.append(('assign', s.targets[0].attr, c))
        return block(out)

    def s_AugAssign(self, s):
        return block(self.calls(s.value) + self.target_calls(s.target))

    def s_AnnAssign(self, s):
        if s.value is None:
            return PURE
        fake = ast.Assign(targets=[s.target], value=s.value)
        return self.s_Assign(fake)

    def s_Return(self, s):
        v = s.value
        if isinstance(v, ast.Call) and ast.unparse(v.func) in self.inline and not is_pure_call(v):
            name, rel, q = self.inline[ast.unparse(v.func)]
            out = self.calls(v.func)
            for a in v.args:
                out += self.calls(a)
            for k in v.keywords:
                out += self.calls(k.value)
            self.register(v, site_of(v))
            callee = self.ctx.find(rel, q)
            tail = [('ret', 'None')] if falls_through(callee.body) else []
            return block(out + [Builder.sub(self, rel, q)] + tail)
        return block(self.calls(v) + [('ret', 'None' if v is None else ast.unparse(v))])

    def s_If(self, s):
        return block(self.calls(s.test) + [('branch', ast.unparse(s.test), self.stmts(s.body), self.stmts(s.orelse))])

    def s_For(self, s):
        out = self.calls(s.iter) + self.target_calls(s.target)
        # the iteration protocol (a generator body resumed by the loop) is located at the whole `for` statement;
        # it has the same enclosing handlers as the last call of the iterable expression
        last = [n for n in out if n[0] == 'call']
        if last:
            self.site_table[pos_of(s)] = last[-1][1]
        out.append(('loop', ast.unparse(s.iter), self.stmts(s.body)))
        if s.orelse:
            out.append(self.stmts(s.orelse))
        return block(out)

    def s_While(self, s):
        c = self.calls(s.test)
        out = [('loop', ast.unparse(s.test), block(c + [self.stmts(s.body)]))] + c
        if s.orelse:
            out.append(self.stmts(s.orelse))
        return block(out)

    def s_Try(self, s):
        if s.orelse:
            raise Untranslatable(f'try/else at line {s.lineno}')
        node = self.stmts(s.body)
        if s.handlers:
            catches = [self.ctx.catch_of(h.type) for h in s.handlers]
            hs = []
            for h in s.handlers:
                hs.append(self.stmts(h.body))
            catch = catches[0]
            for c in catches[1:]:
                catch = union_catch(catch, c)
            handler = hs[-1]
            for i in range(len(hs) - 2, -1, -1):
                handler = ('branch', f'<handler L{s.handlers[i].lineno}>', hs[i], handler)
            hid = f'L{s.handlers[0].lineno}'
            tmpl = None
            for st in s.handlers[0].body:
                for n in ast.walk(st):
                    if isinstance(n, ast.Call) and is_log_call(n) and n.args and isinstance(n.args[0], ast.Constant):
                        tmpl = n.args[0].value
                        break
                if tmpl is not None:
                    break
            self.handler_table[hid] = tmpl
            node = ('try', node, catch, hid, handler)
        if s.finalbody:
            node = ('finally', node, self.stmts(s.finalbody))
        return node

    def s_With(self, s):
        pre = []
        exits = []
        for it in s.items:
            pre += self.calls(it.context_expr)
            key = 'with:' + ast.unparse(it.context_expr)
            enter = site_of(it.context_expr, ast.unparse(it.context_expr), ' with-enter')
            # __enter__/__exit__ are located at the whole `with` statement; both have the same enclosing handlers
            self.site_table[pos_of(s)] = enter
            pre.append(('call', enter))
            if key in self.inline:
                name, rel, q = self.inline[key]
                exits.append(('scope', name, Builder.sub(self, rel, q)))
            else:
                exits.append(('call', site_of(it.context_expr, ast.unparse(it.context_expr), ' with-exit')))
            if it.optional_vars is not None:
                pre += self.target_calls(it.optional_vars)
        body = self.stmts(s.body)
        for e in exits:          # innermost item exits first
            body = ('finally', body, e)
        return block(pre + [body])

    def s_Raise(self, s):
        if s.exc is None:
            return ('call', site_of(s, 'raise', ' raise'))
        out = []
        cls = s.exc
        if isinstance(cls, ast.Call):
            for a in cls.args:
                out += self.calls(a)
            for k in cls.keywords:
                out += self.calls(k.value)
            cls = cls.func
        out += self.calls(s.cause)
        k = self.ctx.classify(ast.unparse(cls)) if isinstance(cls, (ast.Name, ast.Attribute)) else None
        if k is None:
            return block(out + [('call', site_of(s, ast.unparse(s), ' raise'))])
        return block(out + [('raise', k)])

    def s_Assert(self, s):
        return block(self.calls(s.test) + self.calls(s.msg) + [('branch', ast.unparse(s.test), PURE, ('raise', 'exc'))])

    def s_Import(self, s): return ('call', site_of(s, ast.unparse(s), ' import'))
    def s_ImportFrom(self, s): return ('call', site_of(s, ast.unparse(s), ' import'))

    def s_FunctionDef(self, s):
        out = []
        for d in s.decorator_list:
            out += self.calls(d)
        for d in s.args.defaults + [d for d in s.args.kw_defaults if d is not None]:
            out += self.calls(d)
        return block(out)

    def s_ClassDef(self, s):
        out = []
        for d in s.decorator_list + s.bases:
            out += self.calls(d)
        # the class body is executed at definition time
        for st in s.body:
            if isinstance(st, (ast.FunctionDef, ast.ClassDef)):
                out.append(self.stmt(st))
            elif isinstance(st, ast.Expr) and isinstance(st.value, ast.Constant):
                continue
            else:
                out.append(self.stmt(st))
        return block(out)

    def s_Match(self, s): raise Untranslatable('match statement')
    def s_AsyncFor(self, s): raise Untranslatable('async for')
    def s_AsyncWith(self, s): raise Untranslatable('async with')


def falls_through(stmts):
    """can control reach the end of this statement list? (syntactic: the last statement is a return/raise, or
    an if/else whose branches both are)"""
    stmts = strip_doc(list(stmts))
    if not stmts:
        return True
    last = stmts[-1]
    if isinstance(last, (ast.Return, ast.Raise)):
        return False
    if isinstance(last, ast.If) and last.orelse:
        return falls_through(last.body) or falls_through(last.orelse)
    return True


def union_catch(a, b):
    if 'baseException' in (a, b):
        return 'baseException'

    def parts(c):
        if c == 'exception':
            return ('all', False)
        return (c[1], c[2])
    (ae, ab), (be, bb) = parts(a), parts(b)
    if (ae == 'all' or be == 'all') and not (ab or bb):
        return 'exception'
    return ('named', bool(ae or be), bool(ab or bb))


# ---- rendering -------------------------------------------------------------------------------------------
def lean_catch(c):
    if c == 'exception':
        return 'Catch.exception'
    if c == 'baseException':
        return 'Catch.baseException'
    return f'(Catch.named {"true" if c[1] else "false"} {"true" if c[2] else "false"})'


def to_lean(n, ind=2):
    """Lean term (type Guard.Stmt), pretty printed with `ind` spaces of indentation."""
    pad = ' ' * ind
    k = n[0]
    S = pylean.lean_str
    if k == 'call':
        return f'{pad}(.call {S(n[1])})'
    if k == 'pure':
        return f'{pad}.pure'
    if k == 'brk':
        return f'{pad}.brk'
    if k == 'cont':
        return f'{pad}.cont'
    if k == 'assign':
        return f'{pad}(.assign {S(n[1])} {S(n[2])})'
    if k == 'ret':
        return f'{pad}(.ret {S(n[1])})'
    if k == 'raise':
        return f'{pad}(.raise Py.Exn.{n[1]})'
    if k == 'seq':
        # flatten right-nested sequences for readability
        items = []
        cur = n
        while cur[0] == 'seq':
            items.append(cur[1])
            cur = cur[2]
        items.append(cur)
        inner = ',\n'.join(to_lean(i, ind + 2) for i in items)
        return f'{pad}(Stmt.block [\n{inner}])'
    if k == 'branch':
        return f'{pad}(.branch {S(n[1])}\n{to_lean(n[2], ind + 2)}\n{to_lean(n[3], ind + 2)})'
    if k == 'loop':
        return f'{pad}(.loop {S(n[1])}\n{to_lean(n[2], ind + 2)})'
    if k == 'try':
        return (f'{pad}(.tryExcept\n{to_lean(n[1], ind + 2)}\n{pad}  {lean_catch(n[2])} {S(n[3])}\n'
                f'{to_lean(n[4], ind + 2)})')
    if k == 'finally':
        return f'{pad}(.tryFinally\n{to_lean(n[1], ind + 2)}\n{to_lean(n[2], ind + 2)})'
    if k == 'scope':
        return f'{pad}(.scope {S(n[1])}\n{to_lean(n[2], ind + 2)})'
    raise Untranslatable(f'node {k}')


# ---- the raise-set analysis, mirrored for harness-side predictions ------------------------------------------
def catches(c, e):
    """True / False / None(maybe), e in 'exc' | 'base'"""
    if c == 'baseException':
        return True
    if c == 'exception':
        return e == 'exc'
    return None if (c[1] if e == 'exc' else c[2]) else False


def may_raise(n, allowed=(True, True)):
    k = n[0]
    if k == 'call':
        return set(x for x, a in zip(('exc', 'base'), allowed) if a)
    if k in ('pure', 'assign', 'ret', 'brk', 'cont'):
        return set()
    if k == 'raise':
        return {n[1]}
    if k in ('seq', 'finally'):
        return may_raise(n[1], allowed) | may_raise(n[2], allowed)
    if k == 'branch':
        return may_raise(n[2], allowed) | may_raise(n[3], allowed)
    if k in ('loop', 'scope'):
        return may_raise(n[2], allowed)
    if k == 'try':
        rb = may_raise(n[1], allowed)
        out = {e for e in rb if catches(n[2], e) is not True}
        return out | may_raise(n[4], allowed)
    raise Untranslatable(k)


def find_loop(n, lid):
    k = n[0]
    if k == 'loop':
        return n[2] if n[1] == lid else find_loop(n[2], lid)
    if k in ('seq', 'finally'):
        return find_loop(n[1], lid) or find_loop(n[2], lid)
    if k == 'branch':
        return find_loop(n[2], lid) or find_loop(n[3], lid)
    if k == 'try':
        return find_loop(n[1], lid) or find_loop(n[4], lid)
    if k == 'scope':
        return find_loop(n[2], lid)
    return None


def first_call(n):
    k = n[0]
    if k == 'call':
        return n[1]
    if k in ('seq', 'try', 'finally'):
        return first_call(n[1])
    if k == 'scope':
        return first_call(n[2])
    return None
