"""hostprogs — deterministic host programs for the differential (with / without agent) oracle of C01.

Every program is a module source with a `main(inp, emit)` function: `emit(text)` is the program's own output
channel (captured and compared), the return value / raised exception and whatever `main` leaves in the returned
data are compared too.  `#@X` marks a line that tracepoint configurations refer to.  The programs never depend
on whether they are traced.  `ghost` is compiled from a string with a file name that does not exist (source
unavailable to `inspect`).
"""
import importlib.util
import os
import sys
import tempfile

PROGRAMS = {}

PROGRAMS['calls'] = '''
def leaf(n, tag):
    text = tag * 3
    pair = (n, text)            #@A
    total = n + len(text)       #@B
    return total

def mid(n):
    acc = []
    for i in range(n):
        acc.append(leaf(i, 'ab'))   #@C
    return acc

def main(inp, emit):
    r = mid(inp)
    emit('mid=%s' % r)
    d = {'r': r, 'sum': sum(r)}     #@D
    return d
'''

PROGRAMS['recursion'] = '''
def fact(n):
    if n <= 1:
        return 1                #@A
    below = fact(n - 1)         #@B
    return n * below            #@C

def fib(n, memo):
    if n in memo:
        return memo[n]
    memo[n] = n if n < 2 else fib(n - 1, memo) + fib(n - 2, memo)   #@D
    return memo[n]

def main(inp, emit):
    f = fact(inp + 2)
    emit('fact %d' % f)
    m = {}
    g = fib(inp + 3, m)         #@E
    return [f, g, sorted(m.items())]
'''

PROGRAMS['exceptions'] = '''
class AppError(Exception):
    def __init__(self, code, why):
        super().__init__(code, why)
        self.code = code

def risky(n):
    if n % 2 == 0:
        raise AppError(n, 'even')       #@A
    return n * 3                        #@B

def guarded(n, emit):
    try:
        v = risky(n)                    #@C
        emit('ok %d' % v)
    except AppError as e:
        emit('caught %s' % (e.args,))   #@D
        v = -e.code
    finally:
        emit('finally %d' % n)          #@E
    return v

def main(inp, emit):
    out = [guarded(i, emit) for i in range(inp + 1)]
    if inp % 3 == 0:
        raise AppError(inp, 'propagates')   #@F
    return out
'''

PROGRAMS['generators'] = '''
def squares(n):
    i = 0
    while i < n:
        sq = i * i          #@A
        yield sq            #@B
        i += 1

class Countdown:
    def __init__(self, n):
        self.n = n
    def __iter__(self):
        return self
    def __next__(self):
        if self.n <= 0:
            raise StopIteration
        self.n -= 1         #@C
        return self.n

def main(inp, emit):
    g = squares(inp + 4)
    first = [next(g), next(g)]          #@D
    c = Countdown(inp + 3)
    part = [next(c), next(c)]
    emit('first %s part %s' % (first, part))
    rest_g = list(g)                    #@E
    rest_c = list(c)
    total = sum(x for x in squares(3))
    return {'first': first, 'part': part, 'rest_g': rest_g, 'rest_c': rest_c, 'pos': c.n, 'total': total}
'''

PROGRAMS['threads'] = '''
import threading

def work(k, box):
    v = k * 10              #@A
    box.append(v + 1)       #@B
    return v

def main(inp, emit):
    box = []
    for k in range(inp + 2):
        t = threading.Thread(target=work, args=(k, box))
        t.start()
        t.join()            #@C
    emit('box %s' % sorted(box))
    local = work(99, box)   #@D
    return {'box': sorted(box), 'local': local}
'''

PROGRAMS['dunders'] = '''
class BadStr:
    def __init__(self, n):
        self.n = n
    def __str__(self):
        raise ValueError('no str for %d' % self.n)
    def __repr__(self):
        raise RuntimeError('no repr')

class BadLen:
    def __len__(self):
        raise TypeError('no len')
    def __iter__(self):
        raise KeyError('no iter')

class BadAttr:
    def __init__(self):
        self.plain = 1
    def __getattr__(self, name):
        raise OSError('no attr ' + name)

class BadEq:
    __hash__ = None
    def __eq__(self, other):
        raise ArithmeticError('no eq')

class Slotted:
    __slots__ = ('a', 'b')
    def __init__(self):
        self.a = 1

def touch(n):
    bs = BadStr(n)
    bl = BadLen()
    ba = BadAttr()
    be = BadEq()
    sl = Slotted()
    data = {'k': bs, 1: bl, (2, 3): [ba, be, sl]}      #@A
    marker = n + 1                                      #@B
    return marker

def main(inp, emit):
    m = touch(inp)
    emit('marker %d' % m)
    try:
        str(BadStr(inp))
    except ValueError as e:
        emit('host sees %s' % e)        #@C
    return m
'''

PROGRAMS['seeded_random'] = '''
import random

def draw(n):
    v = random.random()         #@A
    w = random.randint(0, n + 10)   #@B
    return (round(v, 12), w)

def main(inp, emit):
    random.seed(inp + 1234)
    vals = [draw(i) for i in range(inp + 3)]
    emit('first %r' % (vals[0],))
    tail = [round(random.random(), 12) for _ in range(3)]   #@C
    return {'vals': vals, 'tail': tail}
'''

PROGRAMS['finalizers'] = '''
import gc
import weakref

class Pool:
    def __init__(self):
        self.released = []
        self.dead = []

class Lease:
    def __init__(self, pool, n):
        self.pool = pool
        self.n = n
    def __del__(self):
        self.pool.released.append(self.n)

class Res:
    pass

def use(pool, n):
    lease = Lease(pool, n)
    r = Res()
    weakref.finalize(r, pool.dead.append, n)
    x = n * 2               #@A
    y = x + lease.n         #@B
    return y

def main(inp, emit):
    pool = Pool()
    seen = []
    for i in range(inp + 2):
        use(pool, i)        #@C
        gc.collect()
        seen.append((sorted(pool.released), sorted(pool.dead)))
    emit('released %s' % sorted(pool.released))
    return {'seen': seen, 'released': sorted(pool.released), 'dead': sorted(pool.dead)}
'''

PROGRAMS['classes'] = '''
class Account:
    rate = 2
    def __init__(self, owner, balance):
        self.owner = owner
        self._balance = balance
        self.__secret = 'pin'
    @property
    def balance(self):
        return self._balance            #@A
    def deposit(self, amount):
        new = self._balance + amount    #@B
        self._balance = new
        return new
    @staticmethod
    def fee(x):
        return x // 10                  #@C
    @classmethod
    def make(cls, owner):
        return cls(owner, 0)            #@D

def counter():
    n = 0
    def inc(by):
        nonlocal n
        n += by                         #@E
        return n
    return inc

def main(inp, emit):
    a = Account.make('ann')
    a.deposit(inp + 5)
    a.deposit(Account.fee(100))
    inc = counter()
    steps = [inc(i) for i in range(inp + 2)]
    emit('%s has %d' % (a.owner, a.balance))
    return {'balance': a.balance, 'steps': steps, 'vars': sorted(vars(a))}
'''

PROGRAMS['data'] = '''
def build(n):
    nums = list(range(n + 20))
    table = {i: str(i) * 2 for i in range(n + 5)}
    mixed = {'b': b'bytes\\x00\\xff', 's': {1, 2, 3}, 'f': frozenset('ab'), 't': (1, (2, (3,))), 'n': None,
             'x': 1.5, 'big': 'y' * 3000, 'uni': 'caf\\u00e9 \\U0001f600'}
    ring = [1, 2]
    ring.append(ring)               #@A
    mixed['ring'] = ring
    return nums, table, mixed       #@B

def mutate(nums, table):
    nums.reverse()                  #@C
    table[0] = 'zero'
    del table[1]
    return len(nums) + len(table)   #@D

def main(inp, emit):
    nums, table, mixed = build(inp)
    k = mutate(nums, table)
    emit('k=%d first=%d' % (k, nums[0]))
    return {'k': k, 'nums': nums[:5], 'table': sorted(table.items())[:4], 'ringlen': len(mixed['ring']),
            'ring_is_self': mixed['ring'][2] is mixed['ring']}
'''

PROGRAMS['loops'] = '''
def scan(n):
    hits = 0
    i = 0
    while i < n:
        i += 1                  #@A
        if i % 3 == 0:
            hits += 1           #@B
            continue
        if i > 40:
            break
    return hits, i              #@C

def main(inp, emit):
    h, i = scan(inp + 12)
    emit('hits %d at %d' % (h, i))
    return [h, i]
'''

PROGRAMS['tracking_dicts'] = '''
class Options(dict):
    """options whose use is tracked (unused-options report)"""
    def __init__(self, *a, **k):
        super().__init__(*a, **k)
        self.used = []
    def __getitem__(self, key):
        self.used.append(key)
        return super().__getitem__(key)
    def __contains__(self, key):
        self.used.append(('in', key))
        return super().__contains__(key)

class Cache(dict):
    """cache with access statistics"""
    stats = None
    def __init__(self):
        super().__init__()
        self.stats = {'get': 0, 'len': 0, 'keys': 0, 'iter': 0}
    def __getitem__(self, key):
        self.stats['get'] += 1
        return super().__getitem__(key)
    def __len__(self):
        self.stats['len'] += 1
        return super().__len__()
    def keys(self):
        self.stats['keys'] += 1
        return super().keys()
    def __iter__(self):
        self.stats['iter'] += 1
        return super().__iter__()

def configure(n):
    opts = Options(verbose=True, depth=n, colour='red', unused_a=1, unused_b=2)
    cache = Cache()
    for i in range(n + 3):
        dict.__setitem__(cache, 'k%d' % i, i * i)       #@A
    level = opts['depth'] + 1                           #@B
    hit = cache['k1']                                   #@C
    report = sorted(k for k in dict.keys(opts) if k not in opts.used)   #@D
    return opts, cache, level + hit, report             #@E

def main(inp, emit):
    opts, cache, v, report = configure(inp)
    emit('unused options: %s' % report)                 #@F
    return {'v': v, 'used': [str(u) for u in opts.used], 'stats': sorted(cache.stats.items()), 'report': report}
'''

PROGRAMS['owned_exception'] = '''
import traceback

class Job:
    def __init__(self):
        self.last_error = None
    def parse(self, text):
        try:
            return int(text)
        except ValueError as err:
            self.last_error = err               #@A
            note = 'bad input %r' % text        #@B
            shown = traceback.format_exception(type(err), err, err.__traceback__)   #@C
            return {'note': note, 'shown': shown, 'context': repr(err.__context__), 'cause': repr(err.__cause__)}

def main(inp, emit):
    job = Job()
    first = job.parse('12')
    second = job.parse('x%d' % inp)             #@D
    err = job.last_error
    later = traceback.format_exception(type(err), err, err.__traceback__)   #@E
    emit('last error: %s' % later[-1].strip())
    return {'first': first, 'second': second, 'later': later, 'ctx': repr(err.__context__),
            'tb_depth': len(traceback.extract_tb(err.__traceback__))}
'''

PROGRAMS['one_shot'] = '''
import collections

class Seq:
    """a user sequence (old iteration protocol)"""
    def __init__(self, n):
        self.n = n
    def __len__(self):
        return self.n
    def __getitem__(self, i):
        if i >= self.n:
            raise IndexError(i)
        return i * 10

def gen(n):
    for i in range(n):
        yield i + 100

def prepare(n):
    table = {'a': 1, 'b': 2, 'c': n}
    r_tuple = reversed((1, 2, 3, n))
    r_str = reversed('abc')
    r_seq = reversed(Seq(3))
    it_seq = iter(Seq(4))
    g = gen(3)
    keys, values, items = table.keys(), table.values(), table.items()
    z = zip('xy', (7, 8))
    m = map(str, (n, n + 1))
    e = enumerate('pq')
    dq = collections.deque([n, 2, 3], maxlen=5)
    ready = n + 1                                           #@A
    out = {'r_tuple': list(r_tuple), 'r_str': ''.join(r_str), 'r_seq': list(r_seq), 'it_seq': list(it_seq),
           'g': list(g), 'keys': sorted(keys), 'values': sorted(values), 'items': sorted(items), 'z': list(z),
           'm': list(m), 'e': list(e), 'dq': list(dq), 'ready': ready}      #@B
    return out                                              #@C

def main(inp, emit):
    out = prepare(inp)
    emit('consumed %d' % sum(len(v) for v in out.values() if isinstance(v, (list, str))))   #@D
    return out
'''

PROGRAMS['del_order'] = '''
class Res:
    def __init__(self, order, tag):
        self.order, self.tag = order, tag
    def __del__(self):
        self.order.append('finalized ' + self.tag)

def release_then_continue(tag):
    order = []
    res = Res(order, tag)
    del res; order.append('continued ' + tag)
    return order

def rebind(tag):
    order = []
    res = Res(order, tag + '1')
    res = Res(order, tag + '2'); order.append('rebound')
    return order, res.tag

def main(inp, emit):
    a = release_then_continue('a')      #@A
    b, t = rebind('b')                  #@B
    emit('order %s %s' % (a, b))        #@C
    return {'a': a, 'b': b, 't': t}
'''

# two host threads share a closure variable; the second one rebinds it while the first is inside the agent's handler
# (the bench turns a metric processor callback into that gate: GATES is read by it)
PROGRAMS['closure_threads'] = '''
import threading

GATES = {}

class Account:
    def __init__(self):
        balance = 0
        def deposit(amount):
            nonlocal balance
            balance += amount
        def audit():
            checked = True                  #@A
            return checked and balance >= 0     #@B
        def total():
            return balance
        self.deposit, self.audit, self.total = deposit, audit, total

def main(inp, emit):
    go, done = threading.Event(), threading.Event()
    GATES['go'], GATES['done'] = go, done
    account = Account()
    def depositor():
        go.wait(30)
        account.deposit(100 + inp)
        done.set()
    t = threading.Thread(target=depositor)
    t.start()
    ok = account.audit()
    go.set()                # at the latest now the deposit can happen
    t.join(30)
    emit('balance %d' % account.total())    #@C
    return {'ok': ok, 'balance': account.total()}
'''

# a program whose main() runs a SCRIPT BODY (this very file, re-executed in a fresh namespace): tracepoints on lines of
# the module body (#@M, #@N), in a function called from the module body (#@H: with frame_type=all_frame the <module>
# frame is collected) and in a class body (#@C, #@D).  The f_locals of a module-body / class-body frame IS the live
# namespace of the module / of the class being built — anything the agent writes to or deletes from it is a change of
# the host's data.  The program reads its own dunder names after every marked line and returns both namespaces.
PROGRAMS['modbody'] = '''"""Inventory report."""
import os

__all__ = ['total', 'Shelf']
__version__ = '1.4'
_private = 'p'


def helper(n):
    k = n * 2               #@H
    return k + len(__all__)


if __name__ == 'verif_rerun':
    ITEMS = {'bolt': 3, 'nut': 4 + INP}
    total = sum(ITEMS.values())     #@M
    doubled = helper(total)         #@N

    class Shelf:
        """A shelf."""
        slots = 3 + INP
        width = slots * 2           #@C
        label = __qualname__ + '@' + __module__     #@D
        __slots__ = ()

        def size(self):
            return self.width

    REPORT = ['total=%d doubled=%d' % (total, doubled), 'version=' + __version__, 'module=' + __name__,
              'doc=' + str(__doc__), 'file=' + os.path.basename(__file__), 'all=' + ','.join(__all__),
              'shelf=%d %s %s' % (Shelf().size(), Shelf.label, Shelf.__doc__)]
    EMIT(REPORT[0])


def simple(v):
    if isinstance(v, (str, int, float, bool, type(None))):
        return v
    if isinstance(v, (list, tuple)):
        return [simple(x) for x in v]
    if isinstance(v, dict):
        return {str(k): simple(x) for k, x in sorted(v.items(), key=lambda kv: str(kv[0]))}
    return type(v).__name__


def main(inp, emit):
    with open(__file__) as f:
        code = compile(f.read(), __file__, 'exec')
    ns = {'__name__': 'verif_rerun', '__file__': __file__, '__package__': '', '__spec__': None, '__loader__': None,
          '__cached__': None, '__builtins__': __builtins__, 'INP': inp, 'EMIT': emit}
    exec(code, ns)
    shelf = ns['Shelf']
    data = {k: simple(v) for k, v in ns.items() if k not in ('__builtins__', 'EMIT', '__file__')}
    data['__builtins__ present'] = '__builtins__' in ns
    data['names in order'] = [k for k in ns if k != 'EMIT']
    data['class namespace'] = {k: simple(v) for k, v in vars(shelf).items()}
    data['class names in order'] = list(vars(shelf))
    emit('names %d' % len(ns))
    return data
'''

# a host whose local is a RECORDING object: every special method notes its own name in TOUCHED — only while the agent's
# trace function is on the stack, so the program itself behaves the same with and without the agent.  props/c01.py reads
# TOUCHED after the run: every dunder the agent touched must be a side-effect-free protocol (oracle) and must be explained
# by a row of the extracted host-touch table (correspondence with harness/extract/o8_hosttouch.py).
PROGRAMS['spy'] = '''
import sys

TOUCHED = []


def _note(name):
    f = sys._getframe(2)
    while f is not None:
        if f.f_code.co_name == 'trace_call' and f.f_code.co_filename.endswith('trigger_handler.py'):
            TOUCHED.append(name)
            return
        f = f.f_back


class Spy:
    _verif_no_wrap = True

    def __init__(self, n):
        object.__setattr__(self, 'n', n)

    def __getattribute__(self, name):
        _note('__getattribute__')
        return object.__getattribute__(self, name)

    def __setattr__(self, name, value):
        _note('__setattr__')
        object.__setattr__(self, name, value)

    def __delattr__(self, name):
        _note('__delattr__')

    def __str__(self):
        _note('__str__')
        return 'spy'

    def __repr__(self):
        _note('__repr__')
        return 'Spy()'

    def __format__(self, spec):
        _note('__format__')
        return 'spy'

    def __len__(self):
        _note('__len__')
        return 2

    def __iter__(self):
        _note('__iter__')
        return iter((1, 2))

    def __next__(self):
        _note('__next__')
        raise StopIteration

    def __getitem__(self, k):
        _note('__getitem__')
        return 1

    def __setitem__(self, k, v):
        _note('__setitem__')

    def __delitem__(self, k):
        _note('__delitem__')

    def __contains__(self, k):
        _note('__contains__')
        return False

    def __eq__(self, other):
        _note('__eq__')
        return self is other

    def __hash__(self):
        _note('__hash__')
        return 7

    def __bool__(self):
        _note('__bool__')
        return True

    def __float__(self):
        _note('__float__')
        return 1.5

    def __int__(self):
        _note('__int__')
        return 1

    def __index__(self):
        _note('__index__')
        return 1

    def __call__(self, *a):
        _note('__call__')
        return 0

    def __enter__(self):
        _note('__enter__')
        return self

    def __exit__(self, *a):
        _note('__exit__')
        return False

    def __add__(self, other):
        _note('__add__')
        return 0

    def __radd__(self, other):
        _note('__radd__')
        return 0

    def __neg__(self):
        _note('__neg__')
        return 0

    def __abs__(self):
        _note('__abs__')
        return 0


def look(s, k):
    box = [s, k]                #@A
    held = {'spy': s}           #@B
    return len(box) + len(held)


def main(inp, emit):
    s = Spy(inp)
    r = look(s, inp)
    emit('looked %d' % r)
    return r
'''

# a host that sets PROCESS-WIDE interpreter state of its own after start-up (int/str digit limit, recursion limit, switch
# interval, its decimal context) and holds an int just past ITS digit limit: the agent must leave all of it as the host set
# it (run_host of props/c01.py records `interp_state` after main() for every program and restores it afterwards).
PROGRAMS['interp_state'] = '''
import decimal
import sys


def report(n, big):
    digits = len(str(n))        #@A
    try:
        shown = len(str(big))
    except ValueError:
        shown = -1              #@B
    return digits, shown


def main(inp, emit):
    sys.set_int_max_str_digits(5000 + inp)
    sys.setrecursionlimit(1200 + inp)
    sys.setswitchinterval(0.004)
    decimal.getcontext().prec = 31
    big = 10 ** (5100 + inp)            # one past the limit this program chose
    mid = 10 ** 4600                    # fine under ITS limit, too long for the interpreter's default
    digits, shown = report(mid, big)
    emit('digits %d shown %d' % (digits, shown))
    later = len(str(mid * 3))           # still fine afterwards
    return {'digits': digits, 'shown': shown, 'later': later, 'limit': sys.get_int_max_str_digits()}
'''

# known finding C01/finalisation-delayed-until-gc: the same program WITHOUT gc.collect() — its result depends on
# objects being finalised by reference counting as soon as the function that held them returns
PROGRAMS['finalizers_nogc'] = PROGRAMS['finalizers'].replace('        gc.collect()\n', '')
KNOWN_FINDING_PROGRAMS = {'finalizers_nogc'}

GHOST = '''
class Svc:
    def handle(self, n):
        v = n + 7           #@A
        return v * 2        #@B

def helper(n):
    return Svc().handle(n) + 1      #@C

def main(inp, emit):
    r = helper(inp)
    emit('ghost %d' % r)
    return r
'''

# executed after main() of every scenario, in the same thread and then in a fresh one: is the agent still alive?
PROBE = '''
def probe(n):
    a = n + 1
    b = a * 2
    c = b + 3               #@P
    return c
'''


def markers(src):
    out = {}
    for i, line in enumerate(src.splitlines(), 1):
        if '#@' in line:
            out[line.split('#@')[1].strip()] = i
    return out


class Hosts:
    """materialises the programs under a private directory (= APP_ROOT) and imports them."""

    def __init__(self):
        self.dir = tempfile.mkdtemp(prefix='verif_hosts_')
        import atexit
        atexit.register(self.cleanup)
        self.modules = {}
        self.marks = {}
        self.files = {}
        for name, src in list(PROGRAMS.items()) + [('probe', PROBE)]:
            fn = os.path.join(self.dir, f'host_{name}.py')
            with open(fn, 'w') as f:
                f.write(src)
            spec = importlib.util.spec_from_file_location(f'verif_host_{name}', fn)
            mod = importlib.util.module_from_spec(spec)
            spec.loader.exec_module(mod)
            self.modules[name] = mod
            self.marks[name] = markers(src)
            self.files[name] = os.path.basename(fn)
        # source unavailable: the file is never written
        gfn = os.path.join(self.dir, 'host_ghost.py')
        ns = {'__name__': 'verif_host_ghost'}
        exec(compile(GHOST, gfn, 'exec'), ns)
        import types
        mod = types.ModuleType('verif_host_ghost')
        mod.__dict__.update(ns)
        self.modules['ghost'] = mod
        self.marks['ghost'] = markers(GHOST)
        self.files['ghost'] = 'host_ghost.py'

    def names(self):
        return sorted(n for n in self.modules if n != 'probe' and n not in KNOWN_FINDING_PROGRAMS)

    def classes(self, name):
        mod = self.modules[name]
        return [v for v in vars(mod).values() if isinstance(v, type) and v.__module__ == mod.__name__
                and not vars(v).get('_verif_no_wrap')]         # recording classes are not fault-wrapped

    def cleanup(self):
        import shutil
        shutil.rmtree(self.dir, ignore_errors=True)
