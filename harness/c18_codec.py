"""c18_codec — JSON-able descriptions of attribute keys/values <-> real Python objects (used by props/c18.py in
process and by the fresh-interpreter scripts it spawns).  No dependency on the agent or on core."""

KEY_MENU = {'0': 0, '5': 5, 'None': None, "b'k'": b'k', '()': (), "('a',)": ('a',), '1.5': 1.5, 'True': True,
            'False': False, "frozenset()": frozenset()}


class Opaque:
    """an object the attribute code knows nothing about"""

    def __repr__(self):
        return '<Opaque>'


def mk_other(ty):
    return {'dict': lambda: {'a': 1}, 'set': lambda: {1, 2}, 'list': lambda: [1, 2], 'tuple': lambda: (1, 'a'),
            'Opaque': Opaque, 'complex': lambda: 1 + 2j, 'frozenset': lambda: frozenset([1]),
            'function': lambda: (lambda: 1), 'emptylist': lambda: [], 'emptydict': lambda: {}}[ty]()


class IntSub(int):
    """an int subclass: valid as a scalar value (isinstance), not as a sequence element (exact type test)"""


class StrSub(str):
    pass


def mk_scalar(j):
    t = j['t']
    if t == 'isub':
        return IntSub(j['v'])
    if t == 'ssub':
        return StrSub(j['v'])
    if t == 'none':
        return None
    if t == 'bool':
        return bool(j['v'])
    if t == 'str':
        return j['v']
    if t == 'bytes':
        return bytes.fromhex(j['hex'])
    if t == 'int':
        return int(j['v'])
    if t == 'float':
        return float(j['r'])
    if t == 'other':
        return mk_other(j['ty'])
    raise ValueError(t)


def mk_val(j):
    if j['t'] == 'seq':
        xs = [mk_scalar(x) for x in j['xs']]
        return tuple(xs) if j.get('as') == 'tuple' else xs
    return mk_scalar(j)


def mk_key(j):
    if 's' in j:
        return j['s']
    return KEY_MENU[j['o']]


def mk_dict(kvs):
    """dict from [[key, value], ...] (insertion order kept; the generators make the keys distinct)"""
    d = {}
    for k, v in kvs:
        d[mk_key(k)] = mk_val(v)
    return d


def enc_scalar(x):
    if x is None:
        return {'t': 'none'}
    if isinstance(x, bool):
        return {'t': 'bool', 'v': x}
    if isinstance(x, str):
        return {'t': 'str', 'v': x}
    if isinstance(x, bytes):
        try:
            dec = x.decode()
        except UnicodeDecodeError:
            dec = None
        return {'t': 'bytes', 'hex': x.hex(), 'dec': dec}
    if isinstance(x, int):
        return {'t': 'int', 'v': x}
    if isinstance(x, float):
        return {'t': 'float', 'r': repr(x)}
    return {'t': 'other', 'ty': type(x).__name__}


def enc_val(x):
    if isinstance(x, (tuple, list)):
        return {'t': 'seq', 'xs': [enc_scalar(e) for e in x], 'as': type(x).__name__}
    return enc_scalar(x)


def enc_key(k):
    if isinstance(k, str):
        return {'s': k}
    return {'o': repr(k)}


def enc_items(mapping):
    return [[enc_key(k), enc_val(v)] for k, v in mapping.items()]


def for_model(j):
    """the description handed to the Lean driver: bytes carry only their decoding, sequences only their elements."""
    if isinstance(j, list):
        return [for_model(x) for x in j]
    if isinstance(j, dict):
        if j.get('t') == 'bytes':
            dec = j.get('dec')
            if 'hex' in j:
                try:
                    dec = bytes.fromhex(j['hex']).decode()
                except UnicodeDecodeError:
                    dec = None
            return {'t': 'bytes', 'dec': dec}
        if j.get('t') == 'seq':
            return {'t': 'seq', 'xs': [for_model(x) for x in j['xs']]}
        return {k: for_model(v) for k, v in j.items()}
    return j


def strip_repr(j):
    """canonical form for comparisons: drop the list/tuple marker and the hex of bytes."""
    if isinstance(j, list):
        return [strip_repr(x) for x in j]
    if isinstance(j, dict):
        return {k: strip_repr(v) for k, v in j.items() if k not in ('as', 'hex')}
    return j


def canon_items(items):
    """hashable rendering of a list of (key, value) pairs of real objects"""
    import json
    return json.dumps([[enc_key(k), enc_val(v)] for k, v in items], sort_keys=True)
