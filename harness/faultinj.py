"""faultinj — the fault enumeration of DESIGN.md §5 "Faults" on the REAL agent code.

`install()` wraps every function, method, static/class method and property getter defined in the `deep.*`
modules (except `deep.logging` and `ConfigService.__getattribute__`) with one counting wrapper; `wrap_class`
does the same for harness plugin classes and host-program classes.  While `TriggerHandler.trace_call` is on the
stack of the current thread ("active"), every wrapped call is an *internal call boundary*: it is counted, and the
k-th one raises `FaultExc` (an `Exception` subclass), `FaultBase` (a `BaseException` subclass), or a subclass of the
BUILT-IN `SystemExit` / `KeyboardInterrupt` (classes 'sysexit' / 'kbint') *instead of*
running the callee.  The entry point itself is not an injection site.

What is recorded for the one fault of a run (strings only — no frames, no exception objects are kept alive):
  * `stack`    the Python frames from the faulted call outwards to `trace_call`: (file under src or None,
               co_qualname, (lineno, col, end_lineno, end_col) of the instruction being executed);
  * `invs`     the wrapped invocations on the stack, innermost first, and `passed`: those the fault propagated
               out of — the first one not passed is the function that caught it;
  * `region`   'callbacks' / 'results' / 'action:<tracepoint id>' / 'other' (see `_region`);
  * `escaped`  exceptions that left `trace_call` (type names) — must stay empty (C01).
"""
import functools
import importlib
import inspect
import os
import pkgutil
import sys
import threading
import types

import core

core.use_repo()


class FaultExc(Exception):
    pass


class FaultBase(BaseException):
    pass


class FaultExit(SystemExit):
    """the BUILT-IN exit request (a plugin / host dunder calling sys.exit()) raised at an internal call boundary"""


class FaultInterrupt(KeyboardInterrupt):
    """the BUILT-IN interrupt (ctrl-c arriving inside a host dunder) raised at an internal call boundary"""


FAULT_CLASSES = {}


class State:
    def __init__(self):
        self.reset()

    def reset(self, k=None, cls='exc'):
        self.k = k                  # raise at the k-th internal call (1-based); None = count only
        self.cls = cls
        self.count = 0
        self.fired = False
        self.stack = []
        self.invs = []
        self.passed = []
        self.region = None
        self.escaped = []
        self.entries = 0
        self.fault_thread = None    # the thread the fault was raised in (handlers of other threads are not its handlers)
        self.templates = []         # templates logged with *.exception(...) after the fault fired (what the handlers say)
        self.none_returns = 0       # trace_call invocations that returned None (= "stop tracing this frame")
        self.record = False         # counting run: remember the region of every internal call
        self.regions = []
        self.lock = threading.Lock()


STATE = State()
TLS = threading.local()
ENTRY = ('deep/processor/trigger_handler.py', 'TriggerHandler.trace_call')
SRC = os.path.realpath(core.SRC)
_wrapped = {}           # id(original function) -> wrapper
_originals = {}         # id(wrapper) -> original
_WRAPPER_CODES = set()


FAULT_CLASSES.update({'exc': FaultExc, 'base': FaultBase, 'sysexit': FaultExit, 'kbint': FaultInterrupt})


def _tls():
    t = TLS
    if not hasattr(t, 'depth'):
        t.depth = 0
        t.invs = []
        t.seq = 0
    return t


def relfile(filename):
    try:
        f = os.path.realpath(filename)
    except Exception:
        return None
    if f.startswith(SRC + os.sep):
        return f[len(SRC) + 1:]
    return None


def _position(frame):
    try:
        pos = None
        idx = frame.f_lasti // 2
        for i, p in enumerate(frame.f_code.co_positions()):
            if i == idx:
                pos = p
                break
        if pos is None or pos[0] is None:
            return None
        return (pos[0], pos[2], pos[1], pos[3])       # (lineno, col, end_lineno, end_col)
    except Exception:
        return None


def _capture(frame):
    """frames from `frame` outwards up to (and including) trace_call; wrapper frames skipped."""
    out = []
    f = frame
    while f is not None:
        code = f.f_code
        if code not in _WRAPPER_CODES:
            rf = relfile(code.co_filename)
            out.append((rf, code.co_qualname, _position(f)))
            if (rf, code.co_qualname) == ENTRY:
                break
        f = f.f_back
    return out


def _region(frame):
    """which part of the handler the fault hit, by looking at the live frames (independent of the extractor)"""
    f = frame
    while f is not None:
        code = f.f_code
        if code not in _WRAPPER_CODES:
            rf = relfile(code.co_filename)
            q = code.co_qualname
            if rf is not None:
                if q == 'TriggerHandler.__process_call_backs':
                    return 'callbacks'
                if q == 'TriggerContext.__exit__':
                    return 'results'
                if q in ('TriggerHandler.__actions_for_location', 'Trigger.at_location'):
                    # matching one trigger: which tracepoints does it carry (read without calling agent code)
                    trig = f.f_locals.get('trigger' if q.startswith('TriggerHandler') else 'self')
                    acts = getattr(trig, '_Trigger__actions', None) or []
                    ids = sorted({str(getattr(a, '_LocationAction__id', '?')) for a in acts})
                    return 'match:' + ','.join(ids)
                if (rf, q) == ENTRY:
                    return 'other'
                slf = f.f_locals.get('self') if 'self' in f.f_code.co_varnames else None
                d = getattr(slf, '__dict__', None) if slf is not None else None
                if isinstance(d, dict) and 'location_action' in d and 'trigger_context' in d:
                    # an ActionContext: read the tracepoint id without calling (wrapped) agent code
                    la = d['location_action']
                    return 'action:' + str(getattr(la, '_LocationAction__id', '?'))
        f = f.f_back
    return 'other'


def _make_wrapper(fn, label, is_entry):
    st = STATE

    def wrapper(*a, **kw):
        t = _tls()
        if is_entry:
            t.depth += 1
            st.entries += 1
            try:
                r = fn(*a, **kw)
                if r is None:
                    st.none_returns += 1
                return r
            except BaseException as e:      # noqa: B902
                st.escaped.append(type(e).__name__)
                raise
            finally:
                t.depth -= 1
        if t.depth == 0:
            return fn(*a, **kw)
        with st.lock:
            st.count += 1
            n = st.count
            fire = (st.k == n and not st.fired)
            if fire:
                st.fired = True
                st.fault_thread = threading.get_ident()
        if st.record and st.k is None:
            fr = sys._getframe(1)
            st.regions.append((n, _region(fr).split(':')[0]))
            del fr
        if fire:
            fr = sys._getframe(1)
            st.stack = _capture(fr)
            st.region = _region(fr)
            st.invs = [(i, lab) for i, lab in reversed(t.invs)]
            del fr
            raise FAULT_CLASSES.get(st.cls, FaultExc)('injected fault #%d at %s' % (n, label))
        t.seq += 1
        inv = t.seq
        t.invs.append((inv, label))
        try:
            return fn(*a, **kw)
        except (FaultExc, FaultBase, FaultExit, FaultInterrupt):
            st.passed.append(inv)
            raise
        finally:
            t.invs.pop()
    try:
        functools.update_wrapper(wrapper, fn)
    except Exception:
        pass
    _WRAPPER_CODES.add(wrapper.__code__)
    return wrapper


def _wrap_function(fn, label, is_entry=False):
    key = id(fn)
    if key in _wrapped:
        return _wrapped[key]
    if id(fn) in _originals:
        return fn
    rf = relfile(fn.__code__.co_filename)
    if rf is not None:
        label = rf + ':' + fn.__code__.co_qualname         # = key of Extracted.Guards.prog
    w = _make_wrapper(fn, label, is_entry)
    _wrapped[key] = w
    _originals[id(w)] = fn
    _keep.append(fn)
    return w


_keep = []
SKIP_METHODS = {('ConfigService', '__getattribute__'), ('ConfigService', '__setattr__')}
SKIP_NAMES = {'__del__', '__init_subclass__', '__class_getitem__', '__new__', '__subclasshook__'}


def wrap_class(cls, modlabel, seen=None):
    """wrap the functions defined in the body of `cls` (and of its nested classes) in place."""
    import enum
    seen = seen if seen is not None else set()
    if id(cls) in seen:
        return
    seen.add(id(cls))
    if isinstance(cls, enum.EnumMeta):
        return
    for name, val in list(vars(cls).items()):
        if name in SKIP_NAMES or (cls.__name__, name) in SKIP_METHODS:
            continue
        label = f'{modlabel}:{cls.__qualname__}.{name}'
        is_entry = (cls.__qualname__ == 'TriggerHandler' and name == 'trace_call')
        try:
            if isinstance(val, types.FunctionType):
                setattr(cls, name, _wrap_function(val, label, is_entry))
            elif isinstance(val, staticmethod):
                setattr(cls, name, staticmethod(_wrap_function(val.__func__, label)))
            elif isinstance(val, classmethod):
                setattr(cls, name, classmethod(_wrap_function(val.__func__, label)))
            elif isinstance(val, property) and val.fget is not None:
                setattr(cls, name, property(_wrap_function(val.fget, label), val.fset, val.fdel, val.__doc__))
            elif isinstance(val, type) and val.__module__ == cls.__module__:
                wrap_class(val, modlabel, seen)
        except (AttributeError, TypeError):
            continue


_installed = {'done': False, 'functions': 0, 'modules': 0}


def install():
    """wrap everything defined in deep.* (idempotent). Returns the number of wrapped functions."""
    if _installed['done']:
        return _installed['functions']
    import deep
    mods = [deep]
    for m in pkgutil.walk_packages(deep.__path__, 'deep.'):
        if m.name.startswith('deep.logging'):
            continue
        try:
            mods.append(importlib.import_module(m.name))
        except BaseException:        # noqa: B902 — optional dependencies (otel, prometheus) may be missing
            continue
    seen = set()
    for mod in mods:
        if mod.__name__.startswith('deep.logging'):
            continue
        for name, val in list(vars(mod).items()):
            if isinstance(val, types.FunctionType) and (val.__module__ or '').startswith('deep') \
                    and not (val.__module__ or '').startswith('deep.logging') and id(val) not in _originals:
                setattr(mod, name, _wrap_function(val, f'{val.__module__}:{val.__qualname__}'))
            elif isinstance(val, type) and (val.__module__ or '').startswith('deep') \
                    and not (val.__module__ or '').startswith('deep.logging'):
                wrap_class(val, val.__module__, seen)
    _hook_logging()
    _installed['done'] = True
    _installed['functions'] = len(_wrapped)
    _installed['modules'] = len(mods)
    return len(_wrapped)


def _hook_logging():
    """remember what the except handlers log (deep.logging.exception / logging.exception) once the fault has fired"""
    import logging as std
    import deep.logging as dl

    def make(orig):
        def exception(msg, *a, **k):
            if STATE.fired and STATE.fault_thread == threading.get_ident() and len(STATE.templates) < 8:
                STATE.templates.append(str(msg))
            return orig(msg, *a, **k)
        return exception
    if not getattr(dl.exception, '_verif', False):
        dl.exception = make(dl.exception)
        dl.exception._verif = True
    if not getattr(std.exception, '_verif', False):
        std.exception = make(std.exception)
        std.exception._verif = True


def original(fn):
    return _originals.get(id(fn), fn)


def arm(k=None, cls='exc', record=False):
    STATE.reset(k, cls)
    STATE.record = record


def report():
    st = STATE
    passed = set(st.passed)
    catcher = None
    for inv, lab in st.invs:
        if inv not in passed:
            catcher = lab
            break
    return {'count': st.count, 'fired': st.fired, 'stack': list(st.stack), 'region': st.region,
            'invs': [lab for _, lab in st.invs], 'n_passed': len(passed), 'catcher': catcher,
            'escaped': list(st.escaped), 'entries': st.entries, 'none_returns': st.none_returns,
            'templates': list(st.templates)}
