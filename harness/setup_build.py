#!/usr/bin/env python3
"""build every Lean target the READY checks need (offline), so the first check run does not pay for it."""
import importlib
import os
import subprocess
import sys

HERE = os.path.dirname(os.path.abspath(__file__))
sys.path.insert(0, HERE)
import core  # noqa: E402

ready = open(os.path.join(HERE, 'manifest.d', 'READY')).read().split()
targets = []
for pid in ready:
    try:
        prop = importlib.import_module('props.' + pid.lower())
    except Exception as e:  # noqa: BLE001
        print('setup: cannot import', pid, e)
        continue
    for t in list(prop.LEAN_TARGETS) + ([prop.DRIVER[:-5].replace('/', '.')] if getattr(prop, 'DRIVER', None) else []) \
            + [prop.AUDIT[:-5].replace('/', '.')]:
        if t not in targets:
            targets.append(t)
print('setup: building %d lean targets' % len(targets))
os.makedirs(os.path.join(core.LEAN, '.lake'), exist_ok=True)
p = subprocess.run(['flock', os.path.join(core.LEAN, '.lake', 'verif.lock'), 'lake', 'build'] + targets, cwd=core.LEAN,
                   capture_output=True, text=True)
out = '\n'.join(l for l in (p.stdout + p.stderr).splitlines() if not l.startswith('trace:'))
print(out[-3000:])
print('setup: lake exit', p.returncode)
