"""pystate — translate *state-updating* Python methods (assignments to `self.<attr>`, list appends, calls of
sibling methods, `if`, early `return`) into Lean state-transformer definitions, on top of pylean.Translator.

Used by harness/extract/configsvc.py and harness/extract/tasks.py (C09, C12, C13).  Same rule as pylean:
whatever is outside the subset raises `Untranslatable` — never guessed.

    StateTranslator(fields={'_current_hash': Field('hash', opt=True), ...},
                    stmt_calls={'self.__trigger_update': lambda args: 'triggerUpdate st'},
                    ignore_calls=('logging.debug', ...), subst=..., calls=...)
      .method(fdef, 'def updateNewConfig (st : Svc) (ts : Int) ... : Svc', returns=None)

  statements : docstring / pass; `x = e` (local); `self.a = e`; `self.a += e`; `self.a.append(e)`;
               expression statement that is a call listed in `stmt_calls` (state -> state) or `ignore_calls`;
               `del self.a[i]`; `if c: ... else: ...` (both arms continue with what follows);
               `return` / `return e`.
  result     : the final state `st`, or `(st, e)` when the function returns a value.
"""
import ast
import textwrap

from pylean import Translator, Untranslatable


class Field:
    def __init__(self, lean, opt=False):
        self.lean = lean
        self.opt = opt          # Option-typed field: `None` -> none, anything else -> some e


class StateTranslator(Translator):
    def __init__(self, fields, stmt_calls=None, ignore_calls=(), state='st', list_add=False, **kw):
        super().__init__(**kw)
        self.fields = fields
        self.stmt_calls = stmt_calls or {}
        self.ignore_calls = tuple(ignore_calls)
        self.state = state
        self.list_add = list_add

    # `a + b` on lists
    def e_BinOp(self, n):
        if self.list_add and isinstance(n.op, ast.Add):
            return f'({self.expr(n.left)} ++ {self.expr(n.right)})'
        return super().e_BinOp(n)

    def _field(self, target):
        """`self.<attr>` -> Field or None"""
        if isinstance(target, ast.Attribute) and isinstance(target.value, ast.Name) and target.value.id == 'self':
            f = self.fields.get(target.attr)
            if f is None:
                raise Untranslatable(f'assignment to unknown field self.{target.attr}')
            return f
        return None

    def _wrap(self, f, value_node):
        if f.opt:
            if isinstance(value_node, ast.Constant) and value_node.value is None:
                return 'none'
            return f'(some {self.expr(value_node)})'
        return self.expr(value_node)

    def sblock(self, stmts, returns):
        st = self.state
        if not stmts:
            if returns:
                raise Untranslatable('function may fall off its end but a value is expected')
            return st
        s, rest = stmts[0], stmts[1:]
        if isinstance(s, ast.Expr) and isinstance(s.value, ast.Constant):
            return self.sblock(rest, returns)
        if isinstance(s, ast.Pass):
            return self.sblock(rest, returns)
        if isinstance(s, ast.Return):
            if s.value is None:
                if returns:
                    raise Untranslatable('bare return but a value is expected')
                return st
            if not returns:
                raise Untranslatable(f'unexpected return value: {ast.unparse(s)}')
            return f'({st}, {self.expr(s.value)})'
        if isinstance(s, ast.AnnAssign) and s.value is not None:
            s = ast.Assign(targets=[s.target], value=s.value)
        if isinstance(s, ast.Assign) and len(s.targets) == 1:
            t = s.targets[0]
            f = self._field(t)
            if f is not None:
                return (f'let {st} := {{ {st} with {f.lean} := {self._wrap(f, s.value)} }}\n'
                        + self.sblock(rest, returns))
            if isinstance(t, ast.Name):
                name = self.names.get(t.id, t.id)
                return f'let {name} := {self.expr(s.value)}\n' + self.sblock(rest, returns)
        if isinstance(s, ast.AugAssign) and isinstance(s.op, (ast.Add, ast.Sub)):
            f = self._field(s.target)
            if f is not None and not f.opt:
                op = '+' if isinstance(s.op, ast.Add) else '-'
                return (f'let {st} := {{ {st} with {f.lean} := {st}.{f.lean} {op} {self.expr(s.value)} }}\n'
                        + self.sblock(rest, returns))
        if isinstance(s, ast.Expr) and isinstance(s.value, ast.Call):
            c = s.value
            fn = ast.unparse(c.func)
            if fn in self.stmt_calls:
                args = [self.expr(a) for a in c.args]
                return f'let {st} := {self.stmt_calls[fn](args)}\n' + self.sblock(rest, returns)
            if fn in self.ignore_calls or fn.startswith('logging.'):
                return self.sblock(rest, returns)
            if isinstance(c.func, ast.Attribute) and c.func.attr == 'append' and len(c.args) == 1:
                f = self._field(c.func.value)
                if f is not None and not f.opt:
                    return (f'let {st} := {{ {st} with {f.lean} := {st}.{f.lean} ++ [{self.expr(c.args[0])}] }}\n'
                            + self.sblock(rest, returns))
        if isinstance(s, ast.Delete) and len(s.targets) == 1 and isinstance(s.targets[0], ast.Subscript):
            # `del self.a[idx]`  ->  eraseIdx
            t = s.targets[0]
            f = self._field(t.value)
            if f is not None and not f.opt and isinstance(t.slice, ast.Name):
                idx = self.names.get(t.slice.id, t.slice.id)
                return (f'let {st} := {{ {st} with {f.lean} := List.eraseIdx {st}.{f.lean} {idx} }}\n'
                        + self.sblock(rest, returns))
        if isinstance(s, ast.If):
            a = self.sblock(list(s.body) + rest, returns)
            b = self.sblock(list(s.orelse) + rest, returns)
            return (f'if {self.expr(s.test)} then\n{textwrap.indent(a, "  ")}\nelse\n{textwrap.indent(b, "  ")}')
        raise Untranslatable(f'statement outside the state subset: {ast.unparse(s)[:100]}')

    def method(self, fdef, lean_sig, returns=False, body=None):
        text = self.sblock(list(fdef.body if body is None else body), returns)
        return f'{lean_sig} :=\n{textwrap.indent(text, "  ")}\n'


def strip_doc(body):
    body = list(body)
    if body and isinstance(body[0], ast.Expr) and isinstance(body[0].value, ast.Constant) \
            and isinstance(body[0].value.value, str):
        return body[1:]
    return body


def calls_in(node):
    """all Call nodes under `node` as (unparse(func), call)"""
    return [(ast.unparse(n.func), n) for n in ast.walk(node) if isinstance(n, ast.Call)]


def catch_classes(handler, known_exception=('Exception',), known_base=('BaseException',)):
    """(catches Exception-class, catches other BaseException-class) for one `except` clause; an unknown
    class name catches nothing (DESIGN.md §2)."""
    if handler.type is None:
        return True, True
    names = []
    t = handler.type
    if isinstance(t, ast.Tuple):
        names = [ast.unparse(e) for e in t.elts]
    else:
        names = [ast.unparse(t)]
    exc = any(n in known_exception or n in known_base for n in names)
    base = any(n in known_base for n in names)
    return exc, base


def has_raise(nodes):
    for n in nodes:
        for m in ast.walk(n):
            if isinstance(m, ast.Raise):
                return True
    return False


def lean_bool(b):
    return 'true' if b else 'false'
