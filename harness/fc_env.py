"""fc_env — outward edges for running the REAL agent in-process in the C01 / C14 / C20 checks:
a fake gRPC channel (the unit tests of the repo stub `channel.unary_unary` the same way), recording plugins of
every kind whose callbacks can be told to fail, and an executor that defers submitted tasks.
Import only after core.use_repo()."""
import sys
import threading
import types
from concurrent.futures import Future

import core

core.use_repo()

from deep.api.plugin import Plugin, ResourceProvider, SnapshotDecorator, TracepointLogger   # noqa: E402
from deep.api.plugin.metric import MetricProcessor       # noqa: E402
from deep.api.plugin.span import SpanProcessor, Span      # noqa: E402
from deep.api.attributes import BoundedAttributes         # noqa: E402
from deep.api.resource import Resource                    # noqa: E402


class PluginError(Exception):
    pass


class PluginAbort(BaseException):
    pass


SUBMIT = {'fn': None}        # how a plugin reaches the agent's task handler (set by the bench that uses cls 'submit')


def _boom(cls, what):
    if cls == 'submit':
        # the realistic BaseException: a plugin hands the agent one last task from its callback; after the task handler
        # was flushed and closed submit_task raises deep.task.IllegalStateException (a BaseException)
        SUBMIT['fn'](lambda: None)
        return
    raise (PluginAbort if cls == 'base' else PluginError)(what)


# ------------------------------------------------------------------------------------------ fake channel
class FakeChannel:
    """what `PollConfigStub(channel)` / `SnapshotServiceStub(channel)` need: `unary_unary(path, …)` returning a
    callable.  Requests are serialised with the real serializer (so a message that cannot be sent fails here),
    recorded, and answered by `on_poll` / `on_send`."""

    def __init__(self):
        self.polls = []
        self.sent = []
        self.on_poll = None         # callable(n) -> None | raises
        self.update = None          # None: answer NO_CHANGE; else [{'id','path','line','args'}]: answer UPDATE with these
        self.hash = 'hfix'          # the service's config hash (a client that reports it gets NO_CHANGE)
        self.on_send = None         # callable(n) -> None | raises | blocks
        self.lock = threading.Lock()
        self.closed = False

    def unary_unary(self, path, request_serializer=None, response_deserializer=None, **kw):
        def call(request, metadata=None, timeout=None, **kw2):
            data = request_serializer(request) if request_serializer else b''
            if path.endswith('/poll'):
                with self.lock:
                    self.polls.append(len(data))
                    n = len(self.polls)
                if self.on_poll:
                    self.on_poll(n)
                from deepproto.proto.poll.v1.poll_pb2 import PollResponse, ResponseType
                if self.update is not None and request.current_hash != self.hash:
                    from deepproto.proto.tracepoint.v1.tracepoint_pb2 import TracePointConfig
                    tps = [TracePointConfig(ID=t['id'], path=t['path'], line_number=t['line'], args=t.get('args', {}))
                           for t in self.update]
                    return PollResponse(response_type=ResponseType.UPDATE, ts_nanos=n, current_hash=self.hash, response=tps)
                return PollResponse(response_type=ResponseType.NO_CHANGE, ts_nanos=n)
            with self.lock:
                self.sent.append(len(data))
                n = len(self.sent)
            if self.on_send:
                self.on_send(n)
            from deepproto.proto.tracepoint.v1.tracepoint_pb2 import SnapshotResponse
            return SnapshotResponse()
        return call

    def close(self):
        self.closed = True


class FakeGrpcModule:
    """stands in for the `grpc` module inside deep.grpc.grpc_service"""

    def __init__(self):
        self.channels = []
        self.update = None          # what new channels answer to a poll (see FakeChannel.update)

    def _new(self, *a, **k):
        c = FakeChannel()
        self.count = getattr(self, 'count', 0) + 1
        c.hash = 'hfix%d' % self.count      # every connection sees a service whose config is newer than the client's
        c.update = self.update
        self.channels.append(c)
        if len(self.channels) > 50:
            del self.channels[:25]
        return c

    secure_channel = _new
    insecure_channel = _new

    def ssl_channel_credentials(self, *a, **k):
        return object()


def install_fake_grpc():
    import deep.grpc.grpc_service as gs
    fake = FakeGrpcModule()
    gs.grpc = fake
    return fake


# ------------------------------------------------------------------------------------------ deferred executor
class DeferredExecutor:
    """in place of ThreadPoolExecutor inside the real TaskHandler: tasks run when the harness says so."""

    def __init__(self):
        self.queue = []

    def submit(self, fn, *args):
        f = Future()
        self.queue.append((f, fn, args))
        return f

    def run_all(self):
        done = 0
        while self.queue:
            f, fn, args = self.queue.pop(0)
            if not f.set_running_or_notify_cancel():
                continue
            try:
                f.set_result(fn(*args))
            except BaseException as e:      # noqa: B902
                f.set_exception(e)
            done += 1
        return done


# ------------------------------------------------------------------------------------------ plugins
class Recorder:
    """shared event log of one scenario: (plugin name, callback, detail)"""

    def __init__(self):
        self.events = []
        self.lock = threading.Lock()
        self.hooks = {}             # (plugin name, callback) -> callable run inside the callback (gates)

    def add(self, *ev):
        with self.lock:
            self.events.append(ev)


class FcPlugin(Plugin):
    """base of the generated plugins: `fail` maps callback name -> 'exc' | 'base' (raise at every call);
    `fail_at` maps callback name -> set of 1-based call numbers that raise."""

    def __init__(self, name, rec, fail=None, order=0, fail_at=None, cls='exc'):
        Plugin.__init__(self, name=name, config=None)
        self.rec = rec
        self.fail = dict(fail or {})
        self.fail_at = {k: set(v) for k, v in (fail_at or {}).items()}
        self.cls = cls
        self._order = order
        self.ncalls = {}

    def _cb(self, cb, detail=None):
        n = self.ncalls.get(cb, 0) + 1
        self.ncalls[cb] = n
        self.rec.add(self._name, cb, detail)
        hook = self.rec.hooks.get((self._name, cb))
        if hook is not None:
            hook()
        if cb in self.fail:
            _boom(self.fail[cb], f'{self._name}.{cb}')
        if n in self.fail_at.get(cb, ()):
            _boom(self.cls, f'{self._name}.{cb}#{n}')

    def is_active(self):
        return True

    def order(self):
        return self._order

    def shutdown(self):
        self._cb('shutdown')


class FcResource(FcPlugin, ResourceProvider):
    def resource(self):
        self._cb('resource')
        return Resource.create({'fc.' + self._name: 'yes'})


class FcDecorator(FcPlugin, SnapshotDecorator):
    def decorate(self, snapshot_id, context):
        self._cb('decorate', context.location_action.id)
        return BoundedAttributes(attributes={'deco.' + self._name: 'on'})


class FcLogger(FcPlugin, TracepointLogger):
    def log_tracepoint(self, log_msg, tp_id, ctx_id):
        self._cb('log', (tp_id, log_msg))


class FcMetric(FcPlugin, MetricProcessor):
    def counter(self, name, labels, namespace, help_string, unit, value):
        self._cb('metric', ('counter', name, value))

    def gauge(self, name, labels, namespace, help_string, unit, value):
        self._cb('metric', ('gauge', name, value))

    def histogram(self, name, labels, namespace, help_string, unit, value):
        self._cb('metric', ('histogram', name, value))

    def summary(self, name, labels, namespace, help_string, unit, value):
        self._cb('metric', ('summary', name, value))


class FcSpan(Span):
    def __init__(self, owner, name, tp):
        self.owner, self._name, self.tp = owner, name, tp

    name = property(lambda self: self._name)
    trace_id = property(lambda self: 't')
    span_id = property(lambda self: 's')

    def add_attribute(self, key, value):
        pass

    def add_event(self, name, attributes=None):
        pass

    def close(self):
        self.owner._cb('close', self.tp)


class FcSpanProcessor(FcPlugin, SpanProcessor):
    def create_span(self, name, context_id, tracepoint_id):
        self._cb('create_span', tracepoint_id)
        return FcSpan(self, name, tracepoint_id)

    def current_span(self):
        return None


KINDS = {'resource': FcResource, 'decorator': FcDecorator, 'logger': FcLogger, 'metric': FcMetric,
         'span': FcSpanProcessor}
CALLBACKS = {'resource': ['resource'], 'decorator': ['decorate'], 'logger': ['log'], 'metric': ['metric'],
             'span': ['create_span', 'close']}


def make_plugins(rec, specs):
    """specs: [{'kind', 'name', 'fail': {cb: cls}, 'order'}]"""
    return [KINDS[s['kind']](s['name'], rec, s.get('fail'), s.get('order', 0), s.get('fail_at'), s.get('cls', 'exc'))
            for s in specs]


def host_trace_function(tag):
    """a distinguishable pre-existing trace function of the host (it does nothing and asks for no local trace)"""
    def host_trace(frame, event, arg):
        return None
    host_trace.__name__ = 'host_trace_%s' % tag
    host_trace.tag = tag
    return host_trace
