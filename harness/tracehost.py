"""tracehost — shared machinery of the C03 and C15 checks (both drive the real TriggerHandler under real
sys.settrace / threading.settrace over generated host programs).

  * gen_program(rng, ...)     deterministic host programs as Python source (nested calls, recursion, try/except/
                              finally, generators, loops, methods, same-named functions in several files)
  * Host                      materialises a program in a temp dir, imports it, removes the dir afterwards
  * Recorder                  an independent recording trace function (the reference event stream)
  * Obs / plugins             recording span / metric / logger / decorator plugins and push service which note the
                              host frame they were called under (stack walk) — the observation of the agent run
  * run_program(...)          runs the entry points on real threads: 'sys' = rig.run_traced (sys.settrace on a
                              fresh thread), 'threads' = threading.settrace + threads started afterwards under a
                              forced schedule (baton passing through C-level queues: no extra trace events)
  * build_config(...)         tracepoints through the real convert_response / build_trigger (+ directly constructed
                              deferred-capture actions)
  * reference(...)            the properties' own rule evaluated on the reference stream, by frame identity
  * forest(...)               invocation trees of a recorded stream (for the model's hypotheses)
Import only after core.use_repo().
"""
import importlib.util
import itertools
import os
import queue
import random
import shutil
import sys
import tempfile
import threading

import core
import rig

UNLIMITED = {'fire_count': '-1', 'fire_period': '0'}


# ------------------------------------------------------------------------------------------- programs
class _Src:
    def __init__(self):
        self.lines = []

    def add(self, indent, text):
        self.lines.append('    ' * indent + text)
        return len(self.lines)          # 1-based line number of the line just added

    def text(self):
        return '\n'.join(self.lines) + '\n'


def gen_program(rng, nmods=2, nfuncs=4, recursion=False, sync=False, big=False, hook=None):
    """returns {'files': {relpath: source}, 'meta': {...}}.  Functions fK may call fJ (J > K) of any module (no
    unbounded recursion); `recursion=True` adds self-recursive functions; generators gK; a class with a method.
    Every function ends with `r = <value>` / `return r` so that its return value is visible in its frame, and takes a
    second argument `k`: a per-thread unique invocation number drawn by the caller from the C-level counter
    `_TL.ctr` (no trace events) — the identity of the frame, the same in the reference run and in the agent run,
    readable from `frame.f_locals` without keeping frames alive (keeping them alive would delay the finalisation
    of suspended generators and so change the event stream)."""
    mods = ['m%d' % i for i in range(nmods)]
    files = {}
    meta = {'funcs': {}, 'lines': {}, 'gens': {}, 'dirs': {}}
    # optionally a second directory holding a file with the same base name as mods[0]
    same_base = rng.random() < 0.35
    relpaths = {m: m + '.py' for m in mods}
    if same_base:
        mods.append('m0x')
        relpaths['m0x'] = os.path.join('other', 'm0.py')
    for mi, m in enumerate(mods):
        s = _Src()
        s.add(0, '# host module %s (generated)' % m)
        s.add(0, '')
        # a third of the modules are long files: the code starts beyond line 256 (CPython shares int objects only up
        # to 256), some far beyond
        pad = rng.choice([0, 0, 0, 0, 300, 300, 1000, 70000]) if rng.random() < 0.8 else 0
        for _ in range(pad):
            s.add(0, '')
        info = {'def': {}, 'body': {}, 'stmt': [], 'dead': [], 'kinds': {}, 'oneline': {}}
        names = ['f%d' % k for k in range(nfuncs)]
        hook_fn = None
        if hook and mi == 0:
            hook_fn = 'f0' if rng.random() < 0.6 else rng.choice(names)
        # generator
        gname = 'g0'
        ln = s.add(0, 'def %s(n, k):' % gname)
        info['def'][gname] = ln
        b = s.add(1, 'i = 0')
        info['body'][gname] = b
        info['stmt'].append(b)
        info['stmt'].append(s.add(1, 'while i < n:'))
        info['stmt'].append(s.add(2, 'yield i * 2'))
        info['stmt'].append(s.add(2, 'i = i + 1'))
        s.add(0, '')
        s.add(0, '')
        for k in reversed(range(nfuncs)):
            name = names[k]
            ln = s.add(0, 'def %s(n, k):' % name)
            info['def'][name] = ln
            first = s.add(1, 'x = n')
            info['body'][name] = first
            info['stmt'].append(first)
            nst = rng.randint(1, 5 if big else 3)
            kind = rng.choice(['plain', 'plain', 'raiser', 'rec'] if recursion else ['plain', 'plain', 'raiser'])
            info['kinds'][name] = kind
            hook_at = rng.randrange(nst + 1) if name == hook_fn else None
            if name == hook_fn:
                info['hook_fn'] = name
            for q in range(nst):
                if hook_at == q:
                    info['hook'] = s.add(1, "_HOOK('%s')" % hook)
                    info['stmt'].append(info['hook'])
                _stmt(rng, s, 1, info, k, nfuncs, mods, m, 0, sync)
            if hook_at == nst:
                info['hook'] = s.add(1, "_HOOK('%s')" % hook)
                info['stmt'].append(info['hook'])
            if kind == 'rec':
                info['stmt'].append(s.add(1, 'if n > 0:'))
                info['stmt'].append(s.add(2, 'x = x + %s(n - 1, next(_TL.ctr))' % name))
                if rng.random() < 0.5:
                    info['stmt'].append(s.add(2, 'x = x + 1'))
            if kind == 'raiser':
                info['stmt'].append(s.add(1, 'if x %% %d == 0:' % rng.choice([2, 3])))
                info['stmt'].append(s.add(2, 'raise ValueError(x)'))
            info['stmt'].append(s.add(1, 'r = x + %d' % rng.randint(0, 3)))
            info['stmt'].append(s.add(1, 'return r'))
            s.add(0, '')
            dead = s.add(0, '# never executed')
            info['dead'].append(dead)
        s.add(0, '')
        ln = s.add(0, 'class K:')
        ln = s.add(1, 'def meth(self, n, k):')
        info['def']['meth'] = ln
        b = s.add(2, 'y = n + 1')
        info['body']['meth'] = b
        info['stmt'].append(b)
        info['stmt'].append(s.add(2, 'r = y'))
        info['stmt'].append(s.add(2, 'return r'))
        # scopes that start and run on one line, last in the file: a one-line def and a lambda body on its own line
        s.add(0, '')
        s.add(0, '')
        ln = s.add(0, 'def one(n, k): return n + 1')
        info['oneline']['one'] = ln
        info['def']['one'] = ln
        info['body']['one'] = ln
        s.add(0, '')
        s.add(0, '')
        s.add(0, 'LAM = (')
        info['oneline']['<lambda>'] = s.add(1, 'lambda n, k: n + 100')
        s.add(0, ')')
        info['nlines'] = len(s.lines)
        files[relpaths[m]] = s.text()
        meta['funcs'][m] = names
        meta['lines'][m] = info
    meta['mods'] = mods
    meta['relpaths'] = relpaths
    return {'files': files, 'meta': meta}


def _stmt(rng, s, ind, info, k, nfuncs, mods, me, depth, sync):
    r = rng.random()
    callee_ok = k + 1 < nfuncs

    def callee():
        j = rng.randint(k + 1, nfuncs - 1)
        m = rng.choice(mods)
        pre = '' if m == me else m + '.'
        return '%sf%d(%d, next(_TL.ctr))' % (pre, j, rng.randint(0, 3))

    if r < 0.22 or depth > 2:
        info['stmt'].append(s.add(ind, 'x = x + %d' % rng.randint(1, 4)))
    elif r < 0.40 and callee_ok:
        info['stmt'].append(s.add(ind, 'x = x + %s' % callee()))
    elif r < 0.52:
        info['stmt'].append(s.add(ind, 'if x %% 2 == %d:' % rng.randint(0, 1)))
        _stmt(rng, s, ind + 1, info, k, nfuncs, mods, me, depth + 1, sync)
        info['stmt'].append(s.add(ind, 'else:'))
        _stmt(rng, s, ind + 1, info, k, nfuncs, mods, me, depth + 1, sync)
    elif r < 0.58:
        info['stmt'].append(s.add(ind, 'for i in range(%d):' % rng.randint(1, 3)))
        _stmt(rng, s, ind + 1, info, k, nfuncs, mods, me, depth + 1, sync)
    elif r < 0.64:
        # loops written on ONE line: consecutive `line` events of the frame carry the same line number
        q = rng.random()
        if q < 0.3:
            info['stmt'].append(s.add(ind, 'for i in range(%d): x = x + 1' % rng.randint(2, 4)))
        elif q < 0.55:
            info['stmt'].append(s.add(ind, 'while x %% %d != 0: x = x + 1' % rng.choice([3, 4, 5])))
        elif q < 0.8 and callee_ok:
            info['stmt'].append(s.add(ind, 'for i in range(%d): x = x + %s' % (rng.randint(2, 3), callee())))
        else:
            info['stmt'].append(s.add(ind, 'for i in range(%d): x = x + 1; x = x - 1' % rng.randint(2, 3)))
    elif r < 0.78 and callee_ok:
        info['stmt'].append(s.add(ind, 'try:'))
        info['stmt'].append(s.add(ind + 1, 'x = x + %s' % callee()))
        info['stmt'].append(s.add(ind, 'except ValueError:'))
        info['stmt'].append(s.add(ind + 1, 'x = x - 1'))
        if rng.random() < 0.5:
            info['stmt'].append(s.add(ind, 'finally:'))
            info['stmt'].append(s.add(ind + 1, 'x = x + 2'))
    elif r < 0.86:
        info['stmt'].append(s.add(ind, 'for v in g0(%d, next(_TL.ctr)):' % rng.randint(1, 2)))
        info['stmt'].append(s.add(ind + 1, 'x = x + v'))
    elif r < 0.91:
        info['stmt'].append(s.add(ind, 'it = g0(3, next(_TL.ctr))'))
        info['stmt'].append(s.add(ind, 'x = x + next(it)'))
        # closed explicitly: left to the garbage collector its GeneratorExit events would come whenever the last
        # reference dies, and a snapshot of this frame keeps `it` alive until the next cyclic collection
        info['stmt'].append(s.add(ind, 'it.close()'))
    elif r < 0.935:
        info['stmt'].append(s.add(ind, 'x = x + K().meth(%d, next(_TL.ctr))' % rng.randint(0, 2)))
    elif r < 0.96:
        m = rng.choice(mods)
        pre = '' if m == me else m + '.'
        info['stmt'].append(s.add(ind, 'x = x + %s%s(%d, next(_TL.ctr))' % (pre, rng.choice(['one', 'LAM']),
                                                                        rng.randint(0, 2))))
    elif sync:
        info['stmt'].append(s.add(ind, '_ARR.put(1)'))
        info['stmt'].append(s.add(ind, '_TL.go.get(True, 30)'))
    else:
        info['stmt'].append(s.add(ind, 'x = x * 2'))


class Host:
    """a program on disk, imported under unique module names; `close()` removes it."""
    _n = 0

    def __init__(self, files, nosource=(), aux=()):
        """`aux`: relative paths of `files` that are not imported but compiled (from the file on disk, source
        available) and handed to every module as `_AUX[<name>]`: host code runs them with `exec(_AUX['a'], {})`, so a
        MODULE-level frame of that file is traced.
        `nosource`: relative paths of `files` that are NOT written to disk but compiled from the string, with
        that path as their file name: `inspect.getsourcelines` of their frames raises OSError."""
        self.dir = tempfile.mkdtemp(prefix='vhost_')
        self.mods = {}
        self.paths = {}
        Host._n += 1
        self.arr = queue.SimpleQueue()
        self.tl = threading.local()
        for rel, src in files.items():
            if rel in nosource:
                continue
            p = os.path.join(self.dir, rel)
            os.makedirs(os.path.dirname(p), exist_ok=True)
            with open(p, 'w') as f:
                f.write(src)
        self.aux = {}
        for rel in aux:
            self.aux[os.path.basename(rel)[:-3]] = compile(files[rel], os.path.join(self.dir, rel), 'exec')
        for rel in files:
            p = os.path.join(self.dir, rel)
            name = 'm0x' if rel != os.path.basename(rel) else os.path.basename(rel)[:-3]
            if rel in aux:
                continue
            if rel in nosource:
                import types
                mod = types.ModuleType('vhost%d_%s' % (Host._n, name))
                mod.__dict__.update(_ARR=self.arr, _TL=self.tl, _dec=self.dec, _HOOK=self.hook, _AUX=self.aux)
                exec(compile(files[rel], p, 'exec'), mod.__dict__)
                self.mods[name] = mod
                self.paths[name] = p
                continue
            spec = importlib.util.spec_from_file_location('vhost%d_%s' % (Host._n, name), p)
            mod = importlib.util.module_from_spec(spec)
            mod.__dict__['_ARR'] = self.arr
            mod.__dict__['_TL'] = self.tl
            mod.__dict__['_dec'] = self.dec
            mod.__dict__['_HOOK'] = self.hook
            mod.__dict__['_AUX'] = self.aux
            spec.loader.exec_module(mod)        # not traced: runs on the harness thread before installation
            self.mods[name] = mod
            self.paths[name] = p
        for mod in self.mods.values():
            for n, other in self.mods.items():
                mod.__dict__[n] = other
        self.scripts = {}       # thread name -> {tp id -> list of bool}
        self.hits = {}

    def is_host(self, filename):
        return filename.startswith(self.dir)

    def dec(self, tp_id):
        """the gate function tracepoint conditions call: the scripted decision for this thread's next attempt."""
        t = getattr(self.tl, 'name', None)
        k = (t, tp_id)
        n = self.hits.get(k, 0)
        self.hits[k] = n + 1
        sc = self.scripts.get(t, {}).get(tp_id, [])
        return sc[n] if n < len(sc) else True

    hook_fn = None

    def hook(self, what):
        """called by host code (`_HOOK('empty')` / `_HOOK('shutdown')`): under the agent the installed tracepoint list
        is emptied at this point of the program (once); in the reference run nothing happens."""
        f = self.hook_fn
        if f is not None:
            self.hook_fn = None
            f(what)

    def entry(self, spec):
        mod, fn, arg = spec
        f = getattr(self.mods[mod], fn)
        tl = self.tl

        def call(a):
            return f(a, next(tl.ctr))
        return call, arg

    def close(self):
        shutil.rmtree(self.dir, ignore_errors=True)


# ------------------------------------------------------------------------------------------- recording
def arg_code(event, arg):
    """the trace function's arg as a number (return value / exception argument) and as text."""
    if event == 'return':
        return (arg if isinstance(arg, int) and not isinstance(arg, bool) else 0), repr(arg)
    if event == 'exception':
        v = arg[1]
        a = v.args[0] if getattr(v, 'args', None) and isinstance(v.args[0], int) else 0
        return a, type(v).__name__
    return 0, ''


class Recorder:
    """the reference: every event Python delivers to a thread while it runs its entry point, with frame identity
    (host frames: their invocation number `k`; other frames: numbered from 1000000 by call order)."""

    def __init__(self, host, blocks=False):
        self.host = host
        self.events = {}        # thread name -> list of event dicts
        self.other = {}         # thread name -> (stack of ids of non-host frames, counter)
        self.blocks = {} if blocks else None     # code object -> (first line, number of lines) | None

    def trace(self, frame, event, arg):
        t = getattr(self.host.tl, 'name', None)
        if t is None:                  # thread bootstrap / teardown outside the harness's thread body
            return self.trace
        path = frame.f_code.co_filename
        is_host = self.host.is_host(path)
        if is_host:
            seq = frame.f_locals.get('k')
            if not isinstance(seq, int):
                seq = 999999
        else:
            st = self.other.setdefault(t, [[], 1000000])
            if event == 'call':
                st[1] += 1
                st[0].append(st[1])
            seq = st[0][-1] if st[0] else 1000000
            if event == 'return' and st[0]:
                st[0].pop()
        code, text = arg_code(event, arg)
        e = {'kind': event, 'path': path, 'line': frame.f_lineno, 'func': frame.f_code.co_name, 'frame': seq,
             'arg': code, 'argtext': text, 'lasti': frame.f_lasti}
        if is_host and event in ('line', 'call'):
            e['locals'] = sorted(frame.f_locals.keys())
        if is_host and self.blocks is not None:
            # what inspect.getsourcelines gives for the frame (a nameless method location asks for it)
            c = frame.f_code
            if c not in self.blocks:
                try:
                    import inspect
                    lines, start = inspect.getsourcelines(frame)
                    self.blocks[c] = [start, len(lines)]
                except Exception:
                    self.blocks[c] = None
            e['block'] = self.blocks[c]
        self.events.setdefault(t, []).append(e)
        return self.trace

    def release(self):
        self.other = {}


def host_frame(host):
    """the innermost frame of host code on the calling thread's stack (the frame the current event belongs to)."""
    f = sys._getframe(2)
    while f is not None:
        if host.is_host(f.f_code.co_filename):
            return f
        f = f.f_back
    return None


class Obs:
    """what the agent did, as seen at its outward edges, in order, per thread."""

    def __init__(self, host):
        self.host = host
        self.effects = {}      # thread name -> list of dicts

    @staticmethod
    def token(f):
        """identity of a host frame: its invocation number"""
        if f is None:
            return None
        k = f.f_locals.get('k')
        return k if isinstance(k, int) else 999999

    def note(self, kind, tp, **kw):
        f = host_frame(self.host)
        e = {'kind': kind, 'tp': tp, 'token': self.token(f)}
        if f is not None:
            e.update(path=f.f_code.co_filename, line=f.f_lineno, func=f.f_code.co_name, lasti=f.f_lasti)
            if 'r' in f.f_locals and isinstance(f.f_locals['r'], int):
                e['r'] = f.f_locals['r']
        e.update(kw)
        t = getattr(self.host.tl, 'name', None) or '?'
        lst = self.effects.setdefault(t, [])
        e['thread'] = t
        e['seq'] = len(lst)
        lst.append(e)
        return e

    def release(self):
        pass


def make_plugins(obs):
    from deep.api.plugin import TracepointLogger, SnapshotDecorator
    from deep.api.plugin.metric import MetricProcessor

    class Logger(TracepointLogger):
        def log_tracepoint(self, log_msg, tp_id, ctx_id):
            obs.note('log', tp_id, msg=log_msg)

    class Metric(MetricProcessor):
        def counter(self, name, labels, namespace, help_string, unit, value):
            obs.note('metric', name.split('#')[0], name=name)

        gauge = histogram = summary = counter

    class SpanProc(rig.RecSpanProcessor):
        def create_span(self, name, context_id, tracepoint_id):
            s = super().create_span(name, context_id, tracepoint_id)
            s.open_rec = obs.note('span-open', tracepoint_id, name=name, ident=threading.get_ident())
            s.closes = 0
            orig = s.close

            def close():
                s.closes += 1
                obs.note('span-close', tracepoint_id, name=name, open=s.open_rec, nclose=s.closes,
                         ident=threading.get_ident())
                orig()
            s.close = close
            return s

    class Deco(SnapshotDecorator):
        """called when a snapshot is created (at the triggering event), for immediate and deferred ones alike."""

        def decorate(self, snapshot_id, context):
            deferred = False
            try:
                deferred = context._is_deferred()
            except Exception:
                pass
            if deferred:
                obs.opened[snapshot_id] = obs.note('cap-open', context.location_action.id, sid=snapshot_id)
            return None

    obs.opened = {}
    return Logger(), Metric(name='RecMetric'), SpanProc(), Deco()


class PushFailure(RuntimeError):
    pass


class PushAbort(BaseException):
    """a failure that is not an `Exception` (the per-callback `except Exception` does not contain it)"""


class Push(rig.RecPush):
    """recording push service; `fail` = the attempts (0-based count of pushes of DEFERRED snapshots) that raise after
    having been recorded — a fault exactly at the completion of a deferred capture (closed / full task handler)."""

    def __init__(self, obs, fail=(), base=False):
        super().__init__()
        self.obs = obs
        self.fail = set(fail)
        self.base = base
        self.attempts = 0

    def push_snapshot(self, s):
        super().push_snapshot(s)
        sid = s.id_str
        names = sorted(v.name for v in s.frames[0].variables) if s.frames else None
        cap = None
        for w in s.watches:
            if w.source == 'CAPTURE' or w.expression in ('return', 'exception'):
                val = None
                if w.result is not None and w.result.vid in s.var_lookup:
                    v = s.var_lookup[w.result.vid]
                    val = {'type': v.type, 'value': v.value,
                           'children': [s.var_lookup[c.vid].value for c in v.children if c.vid in s.var_lookup]}
                cap = {'expr': w.expression, 'val': val}
        if sid in self.obs.opened:
            n = self.attempts
            self.attempts += 1
            self.obs.note('cap-close', s.tracepoint.id, sid=sid, open=self.obs.opened[sid], cap=cap, vars=names,
                          snapline=(s.frames[0].line_number if s.frames else None), failed=(n in self.fail))
            if n in self.fail and self.base:
                raise PushAbort('push of the deferred snapshot aborted (attempt %d)' % n)
            if n in self.fail:
                raise PushFailure('push of the deferred snapshot failed (attempt %d)' % n)
        else:
            self.obs.note('snap', s.tracepoint.id, vars=names, cap=cap,
                          snapline=(s.frames[0].line_number if s.frames else None),
                          snapfile=(s.frames[0].file_name if s.frames else None))


# ------------------------------------------------------------------------------------------- configuration
def tp_location(tp):
    """the location the statement gives a tracepoint: ('func', path, name) for a method tracepoint with a method
    name, else ('line', path, line)."""
    a = tp.get('args', {})
    if tp.get('capture') == 'method' or 'method_name' in a:
        return ('func', tp['path'], a.get('method_name') or tp.get('method_name'))
    if tp.get('nameless'):
        # a method tracepoint WITHOUT a method name on a file WITH source: the property speaks of method tracepoints
        # with a method name only; by "no other trace event causes any tracepoint action" it never acts
        return ('nameless', tp['path'])
    if tp.get('unmatchable'):
        # a method tracepoint WITHOUT a method name aimed at a file whose source is not available: its location
        # cannot be worked out (at_location raises); it never acts and must not disturb the others
        return ('nosource', tp['path'])
    return ('line', tp['path'], tp['line'])


def tp_effects(tp):
    """observable effects of one hit of a tracepoint, by the documented meaning of its args."""
    a = tp.get('args', {})
    if tp.get('capture'):
        return ['cap-open']
    out = []
    if a.get('snapshot') != 'no_collect':
        out.append('snap')
    if 'log_msg' in a:
        out.append('log')
    out += ['metric'] * len(tp.get('metrics', []))
    if 'span' in a:
        out.append('span-open')
    return out


def tp_model_actions(idx, tp):
    a = tp.get('args', {})
    if tp.get('capture'):
        return [{'tp': idx, 'kind': 'capture'}]
    out = []
    if a.get('snapshot') != 'no_collect':
        out.append({'tp': idx, 'kind': 'snapshot'})
    elif 'log_msg' in a:
        out.append({'tp': idx, 'kind': 'log'})
    if tp.get('metrics'):
        out.append({'tp': idx, 'kind': 'metric'})
    if 'span' in a:
        out.append({'tp': idx, 'kind': 'span'})
    return out


def model_effects(tp, kind):
    """observable effects of one model action of a tracepoint."""
    a = tp.get('args', {})
    if kind == 'snapshot':
        return ['snap'] + (['log'] if 'log_msg' in a else [])
    if kind == 'log':
        return ['log']
    if kind == 'metric':
        return ['metric'] * len(tp.get('metrics', []))
    if kind == 'span':
        return ['span-open']
    if kind == 'capture':
        return ['cap-open']
    return []


def model_tp(idx, tp, blocks=None):
    loc = tp_location(tp)
    l = ({'t': 'func', 'path': loc[1], 'name': loc[2]} if loc[0] == 'func'
         else {'t': 'nameless', 'path': loc[1], 'blocks': (blocks or {}).get(loc[1], [])} if loc[0] == 'nameless'
         else {'t': 'nosource', 'path': loc[1]} if loc[0] == 'nosource'
         else {'t': 'line', 'path': loc[1], 'line': loc[2]})
    return {'loc': l, 'actions': tp_model_actions(idx, tp)}


def build_config(case_tps):
    """the trigger list the real code builds: convert_response over protobuf TracePointConfig messages for the
    'resp' tracepoints, then build_trigger for each 'custom' one (TracepointConfigService: new_config + custom),
    then directly constructed deferred-capture triggers."""
    from deepproto.proto.tracepoint.v1.tracepoint_pb2 import TracePointConfig, Metric, MetricType
    from deep.grpc import convert_response
    from deep.api.tracepoint.trigger import build_trigger, LocationAction, Trigger, LineLocation, FunctionLocation, \
        Location
    from deep.api.tracepoint.tracepoint_config import MetricDefinition
    resp, custom, direct = [], [], []
    for tp in case_tps:
        if tp.get('capture'):
            direct.append(tp)
        elif tp.get('via') == 'custom':
            custom.append(tp)
        else:
            resp.append(tp)
    msgs = []
    for tp in resp:
        msgs.append(TracePointConfig(ID=tp['id'], path=tp['path'], line_number=tp['line'], args=tp.get('args', {}),
                                     watches=[], metrics=[Metric(name=tp['id'] + '#' + m, type=MetricType.COUNTER,
                                                                 expression='1')
                                                          for m in tp.get('metrics', [])]))
    triggers = list(convert_response(msgs))
    for tp in custom:
        t = build_trigger(tp['id'], tp['path'], tp['line'], dict(tp.get('args', {})), [],
                          [MetricDefinition(tp['id'] + '#' + m, 'COUNTER', expression='1')
                           for m in tp.get('metrics', [])])
        if t is not None:
            triggers.append(t)
    for tp in direct:
        cfg = dict(UNLIMITED)
        cfg.update({'stage': tp['capture'] + '_capture', 'watches': [], 'frame_type': 'single_frame'})
        act = LocationAction(tp['id'], tp.get('args', {}).get('condition'), cfg, LocationAction.ActionType.Snapshot)
        if tp['capture'] == 'method':
            loc = FunctionLocation(tp['path'], tp['method_name'], Location.Position.CAPTURE)
        else:
            loc = LineLocation(tp['path'], tp['line'], Location.Position.CAPTURE)
        triggers.append(Trigger(loc, [act]))
    return triggers


# ------------------------------------------------------------------------------------------- running
def _thread_body(host, name, fn, arg, out, sync, after=None, before=None):
    def body():
        host.tl.go = out['go'][name]
        host.tl.ctr = itertools.count()
        if sync:
            host.tl.go.get(True, 60)           # wait for the first turn
        host.tl.name = name                    # from here on the thread's events are recorded
        if before:
            before(name)
        try:
            out['ret'][name] = fn(arg)
        except BaseException as e:  # noqa: B902 — host exceptions are part of the programs
            out['exc'][name] = type(e).__name__
        finally:
            if after:
                after(name)
            del host.tl.name
    return body


def run_program(host, entries, mode, trace, sched=None, before=None, after=None, sequential=False):
    """run entry points (one per thread) with `trace` installed.  mode 'sys': each thread via rig.run_traced
    (sys.settrace inside a fresh thread), one after the other; mode 'threads': threading.settrace(trace), threads
    started afterwards, scheduled by `sched` (list of thread indices: run that thread to its next sync point)."""
    out = {'ret': {}, 'exc': {}, 'go': {}, 'trace_after': {}, 'idents': {}}
    names = ['T%d' % i for i in range(len(entries))]
    for n in names:
        out['go'][n] = queue.SimpleQueue()
    if mode == 'sys':
        for n, spec in zip(names, entries):
            fn, arg = host.entry(spec)
            for _ in range(20000):
                out['go'][n].put(1)             # sync points never block in this mode

            class _Handler:                    # rig.run_traced wants an object with .trace_call
                trace_call = staticmethod(trace)

            def wrapped(fn=fn, arg=arg, n=n):
                host.tl.go = out['go'][n]
                host.tl.ctr = itertools.count()
                out['idents'][n] = threading.get_ident()
                host.tl.name = n               # from here on the thread's events are recorded
                if before:
                    before(n)
                try:
                    return fn(arg)
                finally:
                    if after:
                        after(n)
                    del host.tl.name
            # the wrapper's own frame is traced too (call/line/return events of `wrapped`): it is part of the stream
            res = rig.run_traced(_Handler, wrapped)
            if 'exc' in res:
                out['exc'][n] = type(res['exc']).__name__
            else:
                out['ret'][n] = res.get('ret')
            out['trace_after'][n] = res.get('trace_after') is not None
        return out
    # threads mode
    threading.settrace(trace)
    threads = []
    done = {}
    try:
        for n, spec in zip(names, entries):
            fn, arg = host.entry(spec)

            def fin(name, n=n):
                if after:
                    after(name)
            body = _thread_body(host, n, fn, arg, out, True, after=fin, before=before)

            def runner(body=body, n=n):
                out['idents'][n] = threading.get_ident()
                try:
                    body()
                finally:
                    done[n] = True
                    host.arr.put(1)
            t = threading.Thread(target=runner, name=n)
            threads.append(t)
            if not sequential:
                t.start()
        order = list(sched or [])
        # after the schedule, let every thread run to completion, one after the other
        steps = order + [i for i in range(len(names)) for _ in range(200)]
        for i in steps:
            n = names[i]
            if done.get(n):
                continue
            if sequential and not threads[i].is_alive() and not threads[i].ident:
                threads[i].start()
            out['go'][n].put(1)
            try:
                host.arr.get(True, 60)
            except queue.Empty:
                raise core.Infra('schedule driver: thread %s did not reach its next sync point in 60 s' % n)
            if all(done.get(x) for x in names):
                break
        for t in threads:
            if t.ident:
                t.join(60)
                if t.is_alive():
                    raise core.Infra('host thread did not finish')
    finally:
        threading.settrace(None)
    return out


def history_active(case):
    """the tracepoints registered and not unregistered, by the registration history of the case"""
    active = []
    for op in case['history']:
        if op[0] == 'add' and op[1] not in active:
            active.append(op[1])
        elif op[0] == 'remove' and op[1] in active:
            active.remove(op[1])
    return [tp for tp in case['tps'] if tp['id'] in active]


def lifecycle_plan(case):
    """steps of a lifecycle case: the agent is installed (handler.start(): sys + threading settrace), T0 is started and
    runs under the `first` tracepoints, the tracepoint list becomes EMPTY, the middle threads are started in that
    window (they park before they call any host code), the `second` tracepoints are configured, the parked threads
    run, a last thread is started and runs, the agent is shut down."""
    n = len(case['entries'])
    lc = case['lifecycle']
    plan = [['install']]
    k0 = 0
    if lc.get('first') is not None:
        plan += [['cfg', 'first'], ['start', 0], ['run', 0]]
        k0 = 1
    plan += [['cfg', 'empty']]
    mid = list(range(k0, n - 1))
    plan += [['start', i] for i in mid]
    plan += [['cfg', 'second']]
    plan += [['run', i] for i in mid]
    plan += [['start', n - 1], ['run', n - 1], ['uninstall']]
    return plan


def lifecycle_tps(case, t):
    """the tracepoints installed while thread t runs host code"""
    lc = case['lifecycle']
    ids = lc['first'] if (t == 'T0' and lc.get('first') is not None) else lc['second']
    return [tp for tp in case['tps'] if tp['id'] in ids]


def run_lifecycle(host, entries, plan, install, set_config, uninstall, before=None, after=None):
    out = {'ret': {}, 'exc': {}, 'go': {}, 'trace_after': {}, 'idents': {}}
    names = ['T%d' % i for i in range(len(entries))]
    threads = {}
    done = {}
    for n in names:
        out['go'][n] = queue.SimpleQueue()
    try:
        for step in plan:
            if step[0] == 'install':
                install()
            elif step[0] == 'uninstall':
                uninstall()
            elif step[0] == 'cfg':
                set_config(step[1])
            elif step[0] == 'start':
                n = names[step[1]]
                fn, arg = host.entry(entries[step[1]])
                body = _thread_body(host, n, fn, arg, out, True, after=after, before=before)
                parked = threading.Event()

                def runner(body=body, n=n, parked=parked):
                    out['idents'][n] = threading.get_ident()
                    parked.set()
                    try:
                        body()
                    finally:
                        done[n] = True
                        host.arr.put(1)
                t = threading.Thread(target=runner, name=n)
                threads[n] = t
                t.start()
                if not parked.wait(60):
                    raise core.Infra('lifecycle: thread %s did not start' % n)
            elif step[0] == 'run':
                n = names[step[1]]
                for _ in range(200):
                    if done.get(n):
                        break
                    out['go'][n].put(1)
                    try:
                        host.arr.get(True, 60)
                    except queue.Empty:
                        raise core.Infra('lifecycle: thread %s did not finish' % n)
                threads[n].join(60)
    finally:
        threading.settrace(None)
        for n, t in threads.items():
            if t.is_alive():
                for _ in range(64):
                    out['go'][n].put(1)
                t.join(10)
    return out


class Gate:
    """parks one worker thread, once, inside the handler's matching of an event of a given source file: the location
    of one installed trigger is a LineLocation subclass whose `path` property calls `maybe_park`."""

    def __init__(self, host, worker, file):
        self.host, self.worker, self.file = host, worker, file
        self.armed = False
        self.parked = threading.Event()
        self.release = threading.Event()
        self.at = None
        self.timed_out = False

    def maybe_park(self):
        if not self.armed or getattr(self.host.tl, 'name', None) != self.worker:
            return
        f = host_frame(self.host)
        if f is None or os.path.basename(f.f_code.co_filename) != self.file:
            return
        self.armed = False
        self.at = {'path': f.f_code.co_filename, 'line': f.f_lineno, 'func': f.f_code.co_name, 'lasti': f.f_lasti,
                   'token': Obs.token(f)}
        self.parked.set()
        if not self.release.wait(60):
            self.timed_out = True


def gated_trigger(trigger, gate):
    """the same trigger (same actions), its line location replaced by one whose `path` reports to the gate"""
    from deep.api.tracepoint.trigger import LineLocation, Trigger

    class GatedLine(LineLocation):
        @property
        def path(self):
            gate.maybe_park()
            return LineLocation.path.fget(self)

    loc = trigger._Trigger__location
    if not isinstance(loc, LineLocation):
        return None
    return Trigger(GatedLine(loc.path, loc.line, loc.position), trigger._Trigger__actions)


def on_helper_thread(fn):
    """run fn on a short-lived thread (TriggerHandler.start/shutdown call sys.settrace for the CALLING thread: the
    harness's own thread must not be traced by the agent)."""
    err = []

    def body():
        try:
            fn()
        except BaseException as e:  # noqa: B902
            err.append(e)
    t = threading.Thread(target=body, name='installer')
    t.start()
    t.join(60)
    if err:
        raise err[0]


# ------------------------------------------------------------------------------------------- reference rule
def invocations(events):
    """annotate a thread's reference events with the invocation they belong to: inv id = index of the `call` event
    that started it (a generator resumption is a new invocation of the same frame)."""
    cur = {}       # frame seq -> inv id
    out = []
    for i, e in enumerate(events):
        if e['kind'] == 'call':
            cur[e['frame']] = i
        out.append(cur.get(e['frame'], -1))
    return out


def matches(loc, e):
    base = os.path.basename(e['path'])
    if loc[0] in ('nosource', 'nameless'):
        return False
    if loc[0] == 'line':
        return e['kind'] == 'line' and base == loc[1] and e['line'] == loc[2]
    return e['kind'] == 'call' and base == loc[1] and e['func'] == loc[2]


def emptied_at(case, events):
    """index of the first event that is handled with the emptied tracepoint list: the event after the first `line`
    event of the program's `_HOOK(..)` statement (None = the list is never emptied)."""
    h = case.get('hook')
    if not h:
        return None
    for i, e in enumerate(events):
        if e['kind'] == 'line' and e['line'] == h['line'] and e['path'] == '/host/' + h['file']:
            return i + 1
    return None


def reference(case_tps, events, script, upto=None):
    """the property's own rule on one thread's reference stream.  Returns a list of groups, one per event that
    has effects: {'i': event index, 'effects': [(kind, tp id, extra)]}; opens carry the window in which the
    statement allows their completion (by frame identity)."""
    inv = invocations(events)
    hits = {}
    groups = []
    pending = []       # (open index, tp, kind 'line'|'method', frame, inv id, effect name)
    for i, e in enumerate(events):
        effs = []
        if upto is not None and i >= upto:
            break               # the tracepoints are no longer installed
        for tp in case_tps:
            loc = tp_location(tp)
            if not matches(loc, e):
                continue
            n = hits.get(tp['id'], 0)
            allowed = True
            if tp.get('scripted'):
                hits[tp['id']] = n + 1
                sc = script.get(tp['id'], [])
                allowed = sc[n] if n < len(sc) else True
            if not allowed:
                continue
            for k in tp_effects(tp):
                effs.append((k, tp['id']))
        if effs:
            groups.append({'i': i, 'effects': effs})
    return groups, inv


def close_window(events, inv, i_open, method):
    """indices at which work opened at event i_open may complete, by the statement: after the triggering event, at
    an event of the same frame and the same invocation, not after that invocation's return event.  `first` is the
    first such index at which a completion can be delivered (line/return/exception for a line opening,
    return/exception for a method opening)."""
    f, v = events[i_open]['frame'], inv[i_open]
    window, first = [], None
    for j in range(i_open + 1, len(events)):
        e = events[j]
        if e['frame'] == f and inv[j] == v:
            if e['kind'] in ('line', 'return', 'exception'):
                window.append(j)
                ok = e['kind'] in ('return', 'exception') if method else True
                if first is None and ok:
                    first = j
            if e['kind'] == 'return':
                break
    return window, first


# ------------------------------------------------------------------------------------------- invocation trees
def forest(events):
    """invocation trees of one thread's stream (None if the stream is not well nested)."""
    roots = []
    stack = []      # nodes: dict(path, func, frame, line, body, exit)
    for e in events:
        k = e['kind']
        if k == 'call':
            node = {'path': e['path'], 'func': e['func'], 'frame': e['frame'], 'line': e['line'], 'body': [],
                    'exit': None}
            if stack:
                stack[-1]['body'].append(['call', node])
            else:
                roots.append(node)
            stack.append(node)
            continue
        if not stack or stack[-1]['frame'] != e['frame']:
            return None
        top = stack[-1]
        if k == 'line':
            top['body'].append(['line', e['line']])
        elif k == 'exception':
            top['body'].append(['caught', e['line'], e['arg']])
        elif k == 'return':
            b = top['body']
            if b and b[-1][0] == 'caught' and b[-1][1] == e['line'] and e['arg'] == 0 and e.get('argtext') == 'None':
                c = b.pop()
                top['exit'] = ['raise', c[1], c[2]]
            else:
                top['exit'] = ['ret', e['line'], e['arg']]
            stack.pop()
        else:
            return None
    if stack:
        return None
    return roots


def clash(events):
    """NoClash violated: some invocation has a transitively nested invocation with the same (file name, function)."""
    stack = []
    for e in events:
        if e['kind'] == 'call':
            key = (os.path.basename(e['path']), e['func'])
            if key in stack:
                return True
            stack.append(key)
        elif e['kind'] == 'return' and stack:
            stack.pop()
    return False


def name_confusion(events, opens):
    """instance of C15/recursion-name-match: at some line/return/exception event of an invocation, the context that is
    (by frame identity) the most recently opened one still pending belongs to ANOTHER invocation of the same (file
    name, function name) and is of a type that such an event completes — matching by name hands it to the wrong
    invocation.  (Recursion in which every level opens its own context of the same type is not an instance: the
    innermost context is on top at every such event.)"""
    inv = invocations(events)
    pending = []     # [invocation, key, is line context]
    for i, e in enumerate(events):
        k = e['kind']
        key = (os.path.basename(e['path']), e['func'])
        if k in ('line', 'return', 'exception'):
            if pending:
                top = pending[-1]
                if top[1] == key and top[0] != inv[i] and (top[2] or k != 'line'):
                    return True
            # what frame identity completes at this event: the contexts of this invocation (top first)
            while pending and pending[-1][0] == inv[i] and (pending[-1][2] or k != 'line'):
                pending.pop()
        if i in opens:
            pending.append([inv[i], key, k == 'line'])
    return False


def exit_event(events, inv, i_call):
    """index of the event at which the invocation that starts at i_call ends: its `return` event, or — when it ends by
    raising — the `exception` event right before that return (arg None)."""
    f, v = events[i_call]['frame'], inv[i_call]
    own = []
    for j in range(i_call + 1, len(events)):
        e = events[j]
        if e['frame'] == f and inv[j] == v:
            own.append(j)
            if e['kind'] == 'return':
                if len(own) >= 2 and own[-2] == j - 1 and events[j - 1]['kind'] == 'exception' \
                        and e.get('argtext') == 'None':
                    return j - 1
                return j
    return None


def caught_completes(events, method_opens):
    """instance of C15/caught-exception-completes: an invocation whose call event opens a deferred METHOD capture sees
    an own `exception` event that is not its end (it catches the exception and goes on): the capture is completed
    there, with the caught exception instead of the invocation's result."""
    inv = invocations(events)
    for i in sorted(method_opens):
        if events[i]['kind'] != 'call':
            continue
        x = exit_event(events, inv, i)
        f, v = events[i]['frame'], inv[i]
        for j in range(i + 1, len(events)):
            e = events[j]
            if e['frame'] == f and inv[j] == v:
                if e['kind'] == 'exception' and j != x:
                    return True
                if e['kind'] == 'return':
                    break
    return False


def stacked_strict(events, opens):
    """NoStackStrict violated: both kinds of own context pending at an own exception event or at the end of the body"""
    st = []
    for i, e in enumerate(events):
        k = e['kind']
        if k == 'call':
            st.append([i in opens, False])
        elif not st:
            continue
        elif k == 'line':
            st[-1][1] = i in opens
        elif k == 'exception':
            if st[-1][0] and st[-1][1]:
                return True
            st[-1] = [False, False]
        elif k == 'return':
            if st[-1][0] and st[-1][1]:
                return True
            st.pop()
    return False


def stacked(events, opens):
    """NoStack violated: some invocation reaches its own plain `return` event with both its call-opened and a
    line-opened context pending.  `opens` = set of event indices at which a context is pushed (by the statement's
    rule: an allowed tracepoint with a span / deferred capture is at its location).  An own `exception` event
    processes the top context: the line context if there is one (the call context stays), else the call context."""
    st = []     # per invocation [m, l]
    for i, e in enumerate(events):
        k = e['kind']
        if k == 'call':
            st.append([i in opens, False])
        elif not st:
            continue
        elif k == 'line':
            st[-1][1] = i in opens
        elif k == 'exception':
            st[-1] = [st[-1][0] and st[-1][1], False]
        elif k == 'return':
            if st[-1][0] and st[-1][1]:
                return True
            st.pop()
    return False


def fp(e):
    return (e.get('path'), e.get('line'), e.get('func'), e.get('lasti'), e.get('frame', e.get('token')))


def align(groups, observed, events, what='reference'):
    """compare an expected sequence of per-event effect groups [{'i': event index, 'effects': [(kind, tp)..]}] with
    the observed effect sequence of a thread: in order, each group's effects (as a multiset) at the group's event
    (same file, line, function, bytecode offset).  Returns (violations, [(group, [observed effects])])."""
    v = []
    pos = 0
    paired = []
    for g in groups:
        want = sorted(g['effects'])
        got = observed[pos:pos + len(want)]
        e = events[g['i']]
        gk = sorted((o['kind'], o['tp']) for o in got)
        if gk != want:
            v.append('%s expects %s at event %d (%s:%s %s in %s) but the agent produced %s%s' % (
                what, want, g['i'], os.path.basename(e['path']), e['line'], e['kind'], e['func'], gk,
                '' if got else ' (nothing more)'))
            return v, paired
        for o in got:
            if fp(o) != fp(e):
                v.append('%s expects %s at event %d (%s:%s %s, offset %s) but the agent produced it at %s:%s in %s '
                         '(offset %s)' % (what, (o['kind'], o['tp']), g['i'], os.path.basename(e['path']), e['line'],
                                          e['kind'], e['lasti'], os.path.basename(o.get('path') or '?'), o.get('line'),
                                          o.get('func'), o.get('lasti')))
                return v, paired
        paired.append((g, got))
        pos += len(want)
    if pos < len(observed):
        o = observed[pos]
        v.append('the agent produced %s at %s:%s in %s where %s expects nothing (%d unexpected effects)' % (
            (o['kind'], o['tp']), os.path.basename(o.get('path') or '?'), o.get('line'), o.get('func'), what,
            len(observed) - pos))
    return v, paired


def canon_events(host, events):
    """reference events with host paths made relative to a fixed root (temp dirs differ between runs)."""
    out = []
    for e in events:
        e = dict(e)
        if host.is_host(e['path']):
            e['path'] = '/host/' + os.path.relpath(e['path'], host.dir)
        out.append(e)
    return out


def canon_effects(host, effects):
    out = []
    for o in effects:
        o = dict(o)
        if o.get('path') and host.is_host(o['path']):
            o['path'] = '/host/' + os.path.relpath(o['path'], host.dir)
        if isinstance(o.get('open'), dict):
            o['open'] = [o['open'].get('thread'), o['open'].get('seq')]
        o.pop('ident', None)
        out.append(o)
    return out


def model_events(events):
    return [[e['kind'], e['path'], e['line'], e['func'], e['frame'], e['arg']] for e in events]


def executed(files, entries, nosource=()):
    """which (module file, line) a program executes and which functions it calls — used by the generators to aim
    tracepoints (the program is deterministic; this run uses the recorder only)."""
    host = Host(files, nosource)
    try:
        rec = Recorder(host)
        run_program(host, [tuple(e) for e in entries], 'sys', rec.trace)
        lines, calls = set(), set()
        for evs in rec.events.values():
            for e in evs:
                if host.is_host(e['path']):
                    rel = os.path.relpath(e['path'], host.dir)
                    if e['kind'] == 'line':
                        lines.add((rel, e['line']))
                    elif e['kind'] == 'call':
                        calls.add((rel, e['func']))
        rec.release()
        return sorted(lines), sorted(calls)
    finally:
        host.close()


FIRED = ('snap', 'log', 'metric', 'span-open', 'cap-open')


def run_case(case, hooks=False):
    """run one case: the reference run (recorder only), then the run under the real agent.  Returns the canonical
    observation."""
    host = Host(case['files'], case.get('nosource', ()), case.get('aux', ()))
    r = None
    try:
        entries = [tuple(e) for e in case['entries']]
        rec = Recorder(host, blocks=any(tp.get('nameless') for tp in case['tps']))
        before = after = None
        state = {'start_set': {}, 'end_set': {}}
        holder = {}
        if hooks:
            # is the thread's pending-callback slot set when its work starts / after its work ended?  (called in
            # both runs so that the streams have the same shape; only the agent run has a handler to look at)
            def before(name):
                if 'r' in holder:
                    state['start_set'][name] = bool(holder['r'].handler._callbacks.is_set)

            def after(name):
                if 'r' in holder:
                    state['end_set'][name] = bool(holder['r'].handler._callbacks.is_set)
        if case.get('lifecycle'):
            ref_out = run_lifecycle(host, entries, lifecycle_plan(case), lambda: threading.settrace(rec.trace),
                                    lambda which: None, lambda: threading.settrace(None), before=before, after=after)
        else:
            ref_out = run_program(host, entries, case['mode'], rec.trace, case.get('sched'),
                                  before=before, after=after, sequential=case.get('sequential', False))
        ref = {t: canon_events(host, ev) for t, ev in rec.events.items()}
        rec.release()
        obs = Obs(host)
        logger, metric, span, deco = make_plugins(obs)
        r = rig.Rig(plugins=[logger, metric, span, deco], logger=False)
        # one scripted clock for the trigger time stamp AND for the frame collector's time budget (it skips the
        # variables of a frame when more than MAX_TP_PROCESS_TIME = 100 ms of wall clock have passed since the
        # trigger): no verdict may depend on the wall clock
        import deep.processor.frame_collector as _fc
        fc_orig = _fc.time_ns
        _fc.time_ns = r._now
        r.handler._push_service = Push(obs, case.get('push_fail', ()), base=case.get('push_fail_kind') == 'base')
        holder['r'] = r
        # hermetic cases: should the thread-local store ever be process-wide again (a class-level dict keyed by
        # thread ident, D3), what earlier cases left in it must not decide this case's verdict — inheritance is
        # exercised inside one case (threads started one after the other)
        from deep.thread_local import ThreadLocal
        shared = getattr(ThreadLocal, '_ThreadLocal__store', None)
        if isinstance(shared, dict):
            shared.clear()
        try:
            triggers = build_config(case['tps'])
            if case.get('lifecycle'):
                lc = case['lifecycle']
                configs = {'empty': [], 'second': build_config([tp for tp in case['tps'] if tp['id'] in lc['second']])}
                if lc.get('first') is not None:
                    configs['first'] = build_config([tp for tp in case['tps'] if tp['id'] in lc['first']])
                triggers = []
        except BaseException as e:  # noqa: B902
            return {'raised': 'building the configuration: %s: %s' % (type(e).__name__, e)}
        r.install(triggers)
        idmap = {}
        if case.get('history'):
            # in-code registration: the real TracepointConfigService (add_custom / remove_custom), its updates run
            # inline and reach the handler through the real listener
            from concurrent.futures import Future
            from deep.api.tracepoint.tracepoint_config import MetricDefinition

            class Inline:
                def submit_task(self, task, *args):
                    f = Future()
                    try:
                        f.set_result(task(*args))
                    except BaseException as e:  # noqa: B902
                        f.set_exception(e)
                    return f
            r.handler.new_config([])
            r.config.set_task_handler(Inline())
            svc = r.config.tracepoints
            by_id = {tp['id']: tp for tp in case['tps']}
            uid_of = {}
            for op in case['history']:
                try:
                    if op[0] == 'add':
                        if op[1] not in by_id:
                            continue
                        tp = by_id[op[1]]
                        uid = svc.add_custom(tp['path'], tp['line'], dict(tp.get('args', {})), [],
                                             [MetricDefinition(tp['id'] + '#' + m, 'COUNTER', expression='1')
                                              for m in tp.get('metrics', [])])
                        uid_of[op[1]] = uid
                        idmap[uid] = op[1]
                    elif op[0] == 'add_invalid':
                        uid = svc.add_custom(op[1], op[2], {'stage': 'no_such_stage'}, [], [])
                        idmap[uid] = 'invalid'
                        uid_of.setdefault('invalid', []).append(uid)
                    elif op[0] == 'remove':
                        if op[1] in uid_of:
                            svc.remove_custom(uid_of[op[1]])
                    elif op[0] == 'remove_invalid':
                        for u in uid_of.get('invalid', []):
                            svc.remove_custom(u)
                except Exception as e:          # a rejected registration may raise: that is its whole effect
                    if op[0] not in ('add_invalid', 'remove_invalid'):
                        return {'raised': 'registration %s: %s: %s' % (op, type(e).__name__, e)}
        host.scripts = case.get('scripts', {})
        host.hits = {}

        def change_config(what, h=r.handler):
            if what == 'shutdown':
                h.shutdown()         # the handler never called start(): only the trigger list is cleared
            elif what == 'empty':
                h.new_config([])     # a poll that delivers no tracepoints
        host.hook_fn = change_config
        if case.get('gated'):
            # a config update that lands while thread T0 is inside the matching of its first event of a file
            g = case['gated']
            gate = Gate(host, 'T0', g['file'])
            old = build_config([tp for tp in case['tps'] if tp['id'] in g['old']])
            new = build_config([tp for tp in case['tps'] if tp['id'] in g['new']])
            for i, t in enumerate(old):
                gt = gated_trigger(t, gate) if t.path == g['file'] else None
                if gt is not None:
                    old[i] = gt
                    break
            r.handler.new_config(old)
            gate.armed = True
            t0_done = threading.Event()
            swapped = threading.Event()

            def before_g(name):
                if before:
                    before(name)
                if name != 'T0':
                    swapped.wait(60)

            def after_g(name):
                if after:
                    after(name)
                if name == 'T0':
                    t0_done.set()
            box = {}

            def drive():
                try:
                    box['out'] = run_program(host, entries, 'sys', r.handler.trace_call, before=before_g, after=after_g)
                except BaseException as e:  # noqa: B902
                    box['err'] = e
            helper = threading.Thread(target=drive, name='driver')
            helper.start()
            for _ in range(600):
                if gate.parked.is_set() or t0_done.is_set() or not helper.is_alive():
                    break
                gate.parked.wait(0.1)
            r.handler.new_config(new)          # the update is complete when this returns
            swapped.set()
            gate.release.set()
            helper.join(120)
            if helper.is_alive() or 'err' in box or gate.timed_out:
                raise core.Infra('gated run did not finish: %s' % box.get('err'))
            out = box['out']
            out['gate'] = gate.at
        elif case.get('lifecycle'):
            # the real installation: TriggerHandler.start() (sys.settrace + threading.settrace), config updates through
            # TriggerHandler.new_config, TriggerHandler.shutdown() restores the hooks
            out = run_lifecycle(host, entries, lifecycle_plan(case),
                                lambda: on_helper_thread(r.handler.start),
                                lambda which: r.handler.new_config(list(configs[which])),
                                lambda: on_helper_thread(r.handler.shutdown), before=before, after=after)
            out['hook_after'] = threading.gettrace() is None
        else:
            out = run_program(host, entries, case['mode'], r.handler.trace_call, case.get('sched'),
                              before=before, after=after, sequential=case.get('sequential', False))
        effects = {t: canon_effects(host, ev) for t, ev in obs.effects.items()}
        for ev in effects.values():
            for o in ev:
                if o.get('tp') in idmap:
                    o['tp'] = idmap[o['tp']]
        obs.release()
        res = {'ref': ref, 'effects': effects, 'triggers': len(triggers),
               'host_same': (ref_out['ret'] == out['ret'] and ref_out['exc'] == out['exc']),
               'host': {'ret': out['ret'], 'exc': out['exc']},
               'trace_kept': all(out['trace_after'].values()) if out['trace_after'] else True,
               'idents': [out['idents'].get('T%d' % i) for i in range(len(entries))]}
        if 'hook_after' in out:
            res['hook_restored'] = out['hook_after']
        if case.get('gated'):
            ga = out.get('gate')
            if ga:
                ga = dict(ga)
                ga['path'] = '/host/' + os.path.relpath(ga['path'], host.dir)
            res['gate'] = ga
        if hooks:
            res.update(state)
        return res
    finally:
        if r is not None:
            r.close()
            try:
                _fc.time_ns = fc_orig
            except NameError:
                pass
        host.close()




def lifecycle_requests(case, obs):
    """one model run per thread of a lifecycle case, each with the tracepoints installed while it ran host code"""
    reqs = []
    for k in range(len(case['entries'])):
        t = 'T%d' % k
        sub = dict(case)
        ids = {tp['id'] for tp in lifecycle_tps(case, t)}
        # keep the indices of the tracepoints (the model's action ids): the others are given no actions
        r = run_request(dict(sub, lifecycle=None), obs, only=ids, thread=k)
        reqs.append(r)
    return {'op': 'batch', 'reqs': reqs}


def run_request(case, obs, only=None, thread=None, lo=0, hi=None):
    """the model driver request for a case: tracepoints as (location, actions), the reference streams, the gate
    scripts, and an arbitrary interleaving of the threads for the global machine."""
    if 'raised' in obs:
        return None
    resp, custom = [], []
    for i, tp in enumerate(case['tps']):
        if only is not None and tp['id'] not in only:
            continue
        (resp if (tp.get('via') != 'custom' and not tp.get('capture')) else custom).append((i, tp))
    # same order as build_config: response, registered, directly constructed
    custom = [x for x in custom if not x[1].get('capture')] + [x for x in custom if x[1].get('capture')]
    threads = []
    for t in ['T%d' % i for i in range(len(case['entries']))]:
        if thread is not None and t != 'T%d' % thread:
            continue
        sc = case.get('scripts', {}).get(t, {})
        script = []
        for i, tp in enumerate(case['tps']):
            if tp.get('scripted'):
                for a in tp_model_actions(i, tp):
                    script.append({'tp': i, 'kind': a['kind'], 'dec': sc.get(tp['id'], [])})
        th_req = {'events': model_events(obs['ref'].get(t, [])[lo:hi]), 'script': script}
        n = emptied_at(case, obs['ref'].get(t, []))
        if n is not None:
            th_req['empty_at'] = n
        threads.append(th_req)
    rr = random.Random(case.get('model_seed', 0))
    total = sum(len(x['events']) for x in threads)
    sched = [rr.randrange(len(threads)) for _ in range(total)] if threads else []
    blocks = source_blocks(obs)
    return {'op': 'run', 'resp': [model_tp(i, tp, blocks) for i, tp in resp],
            'custom': [model_tp(i, tp, blocks) for i, tp in custom], 'threads': threads, 'sched': sched}


def source_blocks(obs):
    """per file name: [co_name, first line, number of lines] of the code scopes that ran (inspect.getsourcelines)"""
    out = {}
    for evs in obs.get('ref', {}).values():
        for e in evs:
            b = e.get('block')
            if b:
                row = [e['func'], b[0], b[1]]
                lst = out.setdefault(os.path.basename(e['path']), [])
                if row not in lst:
                    lst.append(row)
    return out


def nameless_instance(case, obs):
    """instance of C03/nameless-method-location: a method tracepoint without a method name is configured for a file
    with source and some event of that file has a line number that is not before the end of the source block of its
    frame (a module-level frame at its last line) — the location says "here" there, whatever the event."""
    paths = {tp['path'] for tp in case['tps'] if tp.get('nameless')}
    if not paths:
        return False
    for evs in obs.get('ref', {}).values():
        for e in evs:
            b = e.get('block')
            if b and os.path.basename(e['path']) in paths and b[0] <= e['line'] >= b[0] + b[1]:
                return True
    return False


