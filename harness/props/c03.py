"""C03 — trigger placement: actions fire at exactly the configured locations (real TriggerHandler under real
sys.settrace / threading.settrace over generated host programs; reference = an independent recording trace
function run over the same program without the agent)."""
import os

import core
import tracehost as th
from props import c03_loc as locx

ID = 'C03'
EXTRACT = ['locations']
LEAN_TARGETS = ['DeepModel.Props.C03']
AUDIT = 'DeepModel/Audit/C03.lean'
DRIVER = 'DeepModel/Driver/C03.lean'
BUDGET = {'quick': 360, 'thorough': 4800}
TIME = {'quick': 75, 'thorough': 840}
RULE = ('a case = a generated host program (1-3 modules + optionally a second directory with a same-named file; '
        'functions with nested calls across modules, if/else, for loops, try/except/finally, raising functions, '
        'generators consumed fully and partially, a method, optional bounded recursion) x entry points on 1-3 real '
        'threads (sys.settrace via rig.run_traced, or threading.settrace + threads started afterwards under a forced '
        'schedule) x 3-9 tracepoints built through convert_response (protobuf) and build_trigger (registered): on '
        'executed lines, several on one line, def line vs first body line, never-executed / comment / beyond-EOF '
        'lines, another file, unmatchable ones (method tracepoint without method_name on a module compiled from a '
        'string: source not available, a fifth of the programs) next to ordinary ones, method tracepoints (method_name) on functions that exist in several files, on the '
        'generator and on the method; kinds snapshot / snapshot+log / log / metric / span line / span method; '
        'a third carry an explicit stage of their family (method_start / method_end, line_start / line_end); '
        'fire_count=-1 fire_period=0; a quarter of the single-effect tracepoints have a scripted condition '
        '(arbitrary allow/deny per hit); every 8th case is a lifecycle case: real TriggerHandler.start() / new_config / '
        'shutdown(), threads started while the installed list is empty and run after tracepoints are configured; '
        'every 8th case is a gated case: handler.new_config(new list) lands while thread T0 is parked inside the '
        'matching of its first event of a file (a LineLocation subclass whose path property is a gate); a quarter are '
        'registration histories on the real TracepointConfigService (add_custom of valid and of rejected tracepoints, '
        'remove_custom), judged per tracepoint id; ~40% of the modules are long files (code from line 301 / 1001 / '
        '70001 on) and functions contain loops written on one line. Stream loc (every 6th case): 3-8 log tracepoints '
        '(file names that are suffixes / prefixes / case variants of one another, paths with a directory part, method '
        'tracepoints with a name) x 6-20 hand-made events on frame-like objects given to the real location_from_event '
        'and to trace_call of a real handler: co_filename over plain names, absolute / relative / doubled-slash / dot '
        'directories, one name in several directories, trailing slash, no slash, <string>, non-ASCII, backslashes; lines '
        '0, negative, > 256, > 2**31; kinds line / call / return / exception / opcode / c_call / wrong case / empty; more '
        'than half of the events are a tracepoint\'s own location with at most one thing changed. '
        'A quarter of the loc cases are ERROR-PATH cases (loc-err): a method tracepoint without a name, whose location '
        'check raises on every event of its file, sits DIRECTLY BEFORE an ordinary tracepoint of that file in '
        'configuration order and the very first event of the file is the ordinary tracepoint\'s own location; 15% are SCALE '
        'cases (loc-scale): 20-80 installed tracepoints over 2-6 files, with same-location groups from different '
        'sources (polled + registered, registered + registered, polled + polled) and events aimed at those. '
        'Non-trivial = at least one effect produced and at least one tracepoint '
        'never reached. Distinct = distinct canonical JSON.')
TRUSTED = ['CPython 3.12 trace-event discipline (checked against the recorded reference stream on every run: the '
           'model and the oracle consume the recorded stream, not an assumed one)',
           'effects are attributed to events by (thread, file, line, function, bytecode offset) read from the host '
           'frame under the plugin call, and by order',
           'PyX.basename models os.path.basename for POSIX paths (compared with the real location_from_event on boundary '
           'paths by the loc stream; c03_basename_spec); location ids path#line / path#name are injective '
           'for identifiers (modelled as the location itself)']
ASSUMPTIONS = ['host programs are deterministic: the run under the recorder and the run under the agent deliver the '
               'same events (the harness compares host results of both runs)',
               'tracepoint paths are file names (the code compares the basename of the code object path with the '
               'tracepoint path; the statement says "a source file with that name")',
               'build_trigger (args -> location, actions) is C11\'s subject: the model is given location and actions']

KINDS = ['snapshot', 'snaplog', 'log', 'metric', 'span', 'snapmetric']


def mk_tp(rng, n, path, line, kind, via, method=None, scripted=False):
    args = dict(th.UNLIMITED)
    metrics = []
    if kind == 'snaplog':
        args['log_msg'] = 'hit'
    elif kind == 'log':
        args.update(snapshot='no_collect', log_msg='hit')
    elif kind == 'metric':
        args.update(snapshot='no_collect')
        metrics = ['a', 'b'] if rng.random() < 0.3 else ['a']
    elif kind == 'snapmetric':
        metrics = ['a']
    elif kind == 'span':
        args.update(snapshot='no_collect', span='method' if method else 'line')
    if method:
        args['method_name'] = method
    # an explicit stage of the same family (the START / END position of a location is not part of where it is: a method
    # tracepoint acts when the function is entered, a line tracepoint when the line is reached)
    r = rng.random()
    if method and r < 0.45:
        args['stage'] = 'method_end' if r < 0.3 else 'method_start'
    elif not method and r < 0.3:
        args['stage'] = 'line_end' if r < 0.2 else 'line_start'
    tp = {'id': 'tp%d' % n, 'path': path, 'line': line, 'args': args, 'metrics': metrics, 'via': via}
    if scripted and kind in ('snapshot', 'log', 'span'):
        tp['scripted'] = True
        args['condition'] = "_dec('%s')" % tp['id']
    return tp


def gen_tps(rng, prog, entries, nosource=()):
    meta = prog['meta']
    mods = [m for m in meta['mods'] if m != 'm0x']
    tps = []
    ex_lines, ex_calls = th.executed(prog['files'], entries, nosource)
    ex_lines = [(os.path.basename(f), l) for f, l in ex_lines]
    ex_calls = [(os.path.basename(f), fn) for f, fn in ex_calls]

    def add(path, line, method=None, kind=None, via=None):
        tps.append(mk_tp(rng, len(tps), path, line, kind or rng.choice(KINDS), via or rng.choice(['resp', 'resp', 'custom']),
                         method=method, scripted=rng.random() < 0.25))

    n = rng.randint(3, 9)
    # a line tracepoint on a line that STARTS a scope and runs inside it (one-line def, lambda body on its own
    # line), as the ONLY tracepoint of that file in a third of the programs (nothing else keeps the scope in view)
    only = {}
    if rng.random() < 0.33:
        ol = [(f, fn) for f, fn in ex_calls if fn in ('one', '<lambda>')]
        cand = ol if ol and rng.random() < 0.8 else [(m + '.py', rng.choice(['one', '<lambda>'])) for m in mods]
        f, fn = rng.choice(cand)
        m = f[:-3]
        if m in meta['lines']:
            ln = meta['lines'][m]['oneline'][fn]
            for _ in range(rng.choice([1, 1, 2])):
                tps.append(mk_tp(rng, len(tps), f, ln, rng.choice(KINDS), rng.choice(['resp', 'custom'])))
            only[f] = ln
    for rel in nosource:
        # unmatchable tracepoints (span=method, no method_name) on the source-less file, through both routes and at
        # both ends of the configuration, next to the ordinary ones
        for via in (['resp'], ['custom'], ['resp', 'custom'])[rng.randrange(3)]:
            tp = mk_tp(rng, len(tps), os.path.basename(rel), 0, 'span', via)
            tp['args']['span'] = 'method'
            tp['unmatchable'] = True
            tps.append(tp)
    guard = 0
    while len(tps) < n and guard < 60:
        guard += 1
        m = rng.choice(mods)
        info = meta['lines'][m]
        path = m + '.py'
        if path in only:
            continue
        r = rng.random()
        if r < 0.20 and ex_lines:
            f, l = rng.choice([x for x in ex_lines if x[0] not in only] or [(path, 2)])
            add(f, l)
        elif r < 0.30:
            add(path, rng.choice(info['stmt']))
        elif r < 0.45:                       # several on one line, through both routes
            f, ln = rng.choice(ex_lines) if ex_lines and rng.random() < 0.7 else (path, rng.choice(info['stmt']))
            if f in only:
                continue
            for _ in range(rng.randint(2, 3)):
                add(f, ln)
        elif r < 0.55:                       # def line vs first body line
            f = rng.choice(sorted(info['def']))
            add(path, info['def'][f])
            add(path, info['body'][f])
        elif r < 0.63:
            add(path, rng.choice(info['dead'] + [info['nlines'] + 5, 2]))
        elif r < 0.70:
            # another file — among them names of which an executing file's name is a proper suffix ('subm0.py' vs
            # 'm0.py') or which are a proper suffix of it ('0.py'), on executed lines / called functions
            other = rng.choice(['zz.py', 'M0.py', m + '.pyc', 'sub' + m + '.py', 'sub' + m + '.py', m[1:] + '.py',
                                'test_' + m + '.py'])
            pick = rng.random()
            here_l = [l for f, l in ex_lines if f == path]
            here_c = [fn for f, fn in ex_calls if f == path]
            if pick < 0.5 and here_l:
                add(other, rng.choice(here_l))
            elif pick < 0.8 and here_c:
                add(other, 0, method=rng.choice(here_c))
            else:
                add(other, rng.choice(info['stmt']))
        elif r < 0.90:
            f = rng.choice(sorted(info['def']))
            if ex_calls and rng.random() < 0.6:
                path, f = rng.choice(ex_calls)
            if path in only:
                continue
            add(path, 0, method=f)
            if rng.random() < 0.3:
                add(path, 0, method=f)
        else:
            add(path, rng.choice(info['stmt']), kind='span')
    return tps[:10]


def gen_case(rng, tier, threads=None):
    mode = 'threads' if (threads or rng.random() < 0.3) else 'sys'
    nthreads = threads or (rng.randint(2, 3) if mode == 'threads' else rng.choice([1, 1, 2]))
    prog = th.gen_program(rng, nmods=rng.randint(1, 3), nfuncs=rng.randint(3, 5), recursion=rng.random() < 0.3,
                          sync=(mode == 'threads'), big=(tier == 'thorough' and rng.random() < 0.3))
    mods = [m for m in prog['meta']['mods'] if m != 'm0x']
    entries = [[rng.choice(prog['meta']['mods']), 'f0', rng.randint(0, 3)] for _ in range(nthreads)]
    # a fifth of the programs have one module whose source is not available (compiled from a string)
    nosource = [prog['meta']['relpaths'][rng.choice(mods)]] if rng.random() < 0.2 else []
    tps = gen_tps(rng, prog, entries, nosource)
    if nosource and rng.random() < 0.5:
        rng.shuffle(tps)
        for i, tp in enumerate(tps):
            old = tp['id']
            tp['id'] = 'tp%d' % i
            if tp.get('scripted'):
                tp['args']['condition'] = "_dec('%s')" % tp['id']
    scripts = {}
    for t in range(nthreads):
        scripts['T%d' % t] = {tp['id']: [rng.random() < 0.6 for _ in range(rng.randint(0, 6))]
                              for tp in tps if tp.get('scripted')}
    case = {'kind': 'prog', 'mode': mode, 'files': prog['files'], 'entries': entries, 'tps': tps,
            'scripts': scripts, 'sched': [rng.randrange(nthreads) for _ in range(rng.randint(0, 12))],
            'model_seed': rng.randrange(10 ** 6)}
    if nosource:
        case['nosource'] = nosource
    return case


def gen_lifecycle(rng, tier):
    """the real installation (TriggerHandler.start / new_config / shutdown) with threads started while the installed
    tracepoint list is empty: 'every thread started after installation'."""
    n = rng.randint(2, 4)
    prog = th.gen_program(rng, nmods=rng.randint(1, 2), nfuncs=rng.randint(3, 4))
    mods = [m for m in prog['meta']['mods'] if m != 'm0x']
    entries = [[rng.choice(mods), 'f0', rng.randint(0, 3)] for _ in range(n)]
    tps = [tp for tp in gen_tps(rng, prog, entries) if not tp.get('scripted')]
    ids = [tp['id'] for tp in tps]
    second = [i for i in ids if rng.random() < 0.8] or ids[:1]
    first = None if rng.random() < 0.3 else ([i for i in ids if rng.random() < 0.6] or ids[:1])
    return {'kind': 'prog', 'mode': 'threads', 'files': prog['files'], 'entries': entries, 'tps': tps, 'scripts': {},
            'sched': [], 'model_seed': rng.randrange(10 ** 6), 'lifecycle': {'first': first, 'second': second}}


def gen_gated(rng, tier):
    """a config update that lands while thread T0 is inside the handler, matching its first event of file m0.py (one
    installed trigger parks T0 when its path is read); T0 then goes on, a fresh thread T1 runs the same code."""
    prog = th.gen_program(rng, nmods=rng.randint(1, 2), nfuncs=rng.randint(3, 4))
    entries = [['m0', 'f0', rng.randint(0, 3)], ['m0', 'f0', rng.randint(0, 3)]]
    tps = []
    for _ in range(6):
        tps = [tp for tp in gen_tps(rng, prog, entries) if not tp.get('scripted') and not tp.get('unmatchable')]
        if any(tp['path'] == 'm0.py' and th.tp_location(tp)[0] == 'line' for tp in tps):
            break
    ex_lines, _ = th.executed(prog['files'], entries)
    here = [l for f, l in ex_lines if f == 'm0.py']
    if not any(tp['path'] == 'm0.py' and th.tp_location(tp)[0] == 'line' for tp in tps):
        tps.append(mk_tp(rng, len(tps), 'm0.py', rng.choice(here), 'log', 'resp'))
    for _ in range(2):                 # more line tracepoints on executed lines of the file: some only old, some only new
        tps.append(mk_tp(rng, len(tps), 'm0.py', rng.choice(here), rng.choice(['log', 'snapshot', 'metric']),
                         rng.choice(['resp', 'custom'])))
    for i, tp in enumerate(tps):
        tp['id'] = 'tp%d' % i
    ids = [tp['id'] for tp in tps]
    lines_m0 = [tp['id'] for tp in tps if tp['path'] == 'm0.py' and th.tp_location(tp)[0] == 'line']
    old = set(i for i in ids if rng.random() < 0.6) | {lines_m0[0]}
    new = set(i for i in ids if rng.random() < 0.6)
    if new == old:
        new = new ^ {lines_m0[-1]}
    return {'kind': 'prog', 'mode': 'sys', 'files': prog['files'], 'entries': entries, 'tps': tps, 'scripts': {},
            'sched': [], 'model_seed': rng.randrange(10 ** 6),
            'gated': {'file': 'm0.py', 'old': sorted(old), 'new': sorted(new)}}


def gen_history(rng, tier):
    """in-code registration history on the real TracepointConfigService: valid registrations interleaved with
    registrations that cannot be interpreted (rejected), then some are unregistered; afterwards events on every
    location: exactly the tracepoints still registered act."""
    prog = th.gen_program(rng, nmods=rng.randint(1, 2), nfuncs=rng.randint(3, 4))
    mods = [m for m in prog['meta']['mods'] if m != 'm0x']
    entries = [[rng.choice(mods), 'f0', rng.randint(0, 3)]]
    tps = [tp for tp in gen_tps(rng, prog, entries) if not tp.get('unmatchable')]
    ex_lines, _ = th.executed(prog['files'], entries)
    while len(tps) < 3 and ex_lines:
        f, l = rng.choice(ex_lines)
        tps.append(mk_tp(rng, len(tps), os.path.basename(f), l, rng.choice(['log', 'snapshot']), 'custom'))
    for i, tp in enumerate(tps):
        tp['id'] = 'tp%d' % i
        tp['via'] = 'custom'
        if tp.get('scripted'):
            tp['args']['condition'] = "_dec('%s')" % tp['id']
    order = [tp['id'] for tp in tps]
    rng.shuffle(order)
    hist = [['add', i] for i in order]
    for _ in range(rng.randint(1, 2)):           # rejected registrations, most of them early
        pos = 0 if rng.random() < 0.6 else rng.randrange(len(hist) + 1)
        hist.insert(pos, ['add_invalid', rng.choice(mods) + '.py', rng.randint(1, 400)])
    removed = rng.sample(order, rng.randint(1, max(1, len(order) // 2)))
    for i in removed:
        hist.append(['remove', i])
    if rng.random() < 0.3:
        hist.append(['remove_invalid'])
    if rng.random() < 0.3 and removed:
        hist.append(['add', removed[0]])
    scripts = {'T0': {tp['id']: [rng.random() < 0.6 for _ in range(rng.randint(0, 6))] for tp in tps if tp.get('scripted')}}
    return {'kind': 'prog', 'mode': 'sys', 'files': prog['files'], 'entries': entries, 'tps': tps, 'scripts': scripts,
            'sched': [], 'model_seed': rng.randrange(10 ** 6), 'history': hist}


AUX_LINES = ['a = 1', 'b = a + 1', 'c = b * 2', 'd = c - a', 'e = [a, b]', 'f = len(e)']


def nameless_tp(n, path, kind='log', via='resp'):
    """a method tracepoint WITHOUT a method name (stage=method_start / span=method): FunctionLocation(path, None)"""
    args = dict(th.UNLIMITED)
    if kind == 'span':
        args.update(snapshot='no_collect', span='method')
    else:
        args.update(snapshot='no_collect', log_msg='nameless', stage='method_start')
    return {'id': 'tp%d' % n, 'path': path, 'line': 0, 'args': args, 'metrics': [], 'via': via, 'nameless': True}


def nameless_case(nlines=3, extra=()):
    """m0.f runs the module aux.py (source on disk) with exec: a module-level frame of aux.py is traced"""
    main = ('def f(n, k):\n'
            '    x = n + 1\n'
            "    exec(_AUX['aux'], {})\n"
            '    r = x\n'
            '    return r\n')
    aux = '\n'.join(AUX_LINES[:nlines]) + '\n'
    return {'kind': 'prog', 'mode': 'sys', 'files': {'m0.py': main, 'aux.py': aux}, 'aux': ['aux.py'],
            'entries': [['m0', 'f', 1]], 'scripts': {}, 'sched': [], 'model_seed': 13, 'stream': 'kf-nameless',
            'tps': [nameless_tp(0, 'aux.py')] + list(extra)}


def gen_nameless(rng, tier):
    if rng.random() < 0.4:
        # the instance shape: a module-level frame of the file reaches its last line
        u = dict(th.UNLIMITED)
        n = rng.randint(1, len(AUX_LINES))
        extra = []
        if rng.random() < 0.6:
            extra.append({'id': 'tp1', 'path': 'aux.py', 'line': rng.randint(1, n), 'args': u, 'metrics': [],
                          'via': rng.choice(['resp', 'custom'])})
        if rng.random() < 0.5:
            extra.append(nameless_tp(len(extra) + 1, 'm0.py', rng.choice(['log', 'span']), 'custom'))
        c = nameless_case(n, extra)
        c['tps'][0] = nameless_tp(0, 'aux.py', rng.choice(['log', 'span']), rng.choice(['resp', 'custom']))
        c['model_seed'] = rng.randrange(10 ** 6)
        return c
    # nameless method tracepoints on files with source next to ordinary ones; no module-level frame is traced
    case = gen_case(rng, tier, threads=None)
    while any(os.path.dirname(f) for f in case['files']):
        # the source-block table of the model is per file NAME and scope name: no second file with the same name
        case = gen_case(rng, tier, threads=None)
    if case.get('nosource') or case['mode'] != 'sys':
        case['mode'], case['sched'] = 'sys', []
        case.pop('nosource', None)
        case['tps'] = [tp for tp in case['tps'] if not tp.get('unmatchable')]
        for f in list(case['files']):
            case['files'][f] = case['files'][f].replace("    _ARR.put(1)\n", "    x = x\n").replace(
                "    _TL.go.get(True, 30)\n", "    x = x\n")
    mods = sorted({os.path.basename(f) for f in case['files']})
    for _ in range(rng.randint(1, 2)):
        case['tps'].append(nameless_tp(len(case['tps']), rng.choice(mods), rng.choice(['log', 'span']),
                                       rng.choice(['resp', 'custom'])))
    case['stream'] = 'nameless'
    return case


def gen(rng, tier):
    k = j = 0
    while True:
        j += 1
        if j % 6 == 5:
            yield locx.gen_case(rng, tier)
            continue
        k += 1
        if k % 8 == 0:
            yield gen_lifecycle(rng, tier)
        elif k % 8 == 4:
            yield gen_gated(rng, tier)
        elif k % 8 in (2, 6):
            yield gen_history(rng, tier)
        elif k % 16 == 5:
            yield gen_nameless(rng, tier)
        else:
            yield gen_case(rng, tier)


def corpus():
    src = ('def f(x, k):\n'                   # 1
           '    y = x + 1\n'                   # 2
           '    return y\n'                    # 3
           '\n'
           '\n'
           'def g(x, k):\n'                   # 6
           '    a = f(x, next(_TL.ctr))\n'    # 7
           '    r = a + 1\n'                   # 8
           '    return r\n')                   # 9
    u = dict(th.UNLIMITED)
    return locx.corpus() + [
        # two tracepoints on one line (merged by convert_response) + a registered one on the same line (D8's shape)
        {'kind': 'prog', 'mode': 'sys', 'files': {'m0.py': src}, 'entries': [['m0', 'g', 1]], 'scripts': {},
         'sched': [], 'model_seed': 1,
         'tps': [{'id': 'tp0', 'path': 'm0.py', 'line': 2, 'args': u, 'metrics': [], 'via': 'resp'},
                 {'id': 'tp1', 'path': 'm0.py', 'line': 2, 'args': dict(u, log_msg='x'), 'metrics': [], 'via': 'resp'},
                 {'id': 'tp2', 'path': 'm0.py', 'line': 2, 'args': u, 'metrics': [], 'via': 'custom'},
                 {'id': 'tp3', 'path': 'm0.py', 'line': 1, 'args': u, 'metrics': [], 'via': 'resp'},
                 {'id': 'tp4', 'path': 'm0.py', 'line': 0, 'args': dict(u, method_name='f', snapshot='no_collect',
                                                                     log_msg='in f'), 'metrics': [], 'via': 'resp'}]},
        # the source of the file is not available (compiled from a string): a method tracepoint without a method name
        # cannot be matched (at_location raises on every event of the file); the ordinary tracepoints before and
        # after it, from the response and registered, act as if it were not there
        {'kind': 'prog', 'mode': 'sys', 'files': {'m0.py': src}, 'nosource': ['m0.py'], 'entries': [['m0', 'g', 1]],
         'scripts': {}, 'sched': [], 'model_seed': 4,
         'tps': [{'id': 'tp0', 'path': 'm0.py', 'line': 0, 'args': dict(u, span='method', snapshot='no_collect'),
                  'metrics': [], 'via': 'resp', 'unmatchable': True},
                 {'id': 'tp1', 'path': 'm0.py', 'line': 2, 'args': dict(u, log_msg='x'), 'metrics': [], 'via': 'resp'},
                 {'id': 'tp2', 'path': 'm0.py', 'line': 0, 'args': dict(u, span='method', snapshot='no_collect'),
                  'metrics': [], 'via': 'custom', 'unmatchable': True},
                 {'id': 'tp3', 'path': 'm0.py', 'line': 2, 'args': u, 'metrics': [], 'via': 'custom'},
                 {'id': 'tp4', 'path': 'm0.py', 'line': 0, 'args': dict(u, method_name='f', snapshot='no_collect',
                                                                     log_msg='in f'), 'metrics': [], 'via': 'custom'}]},
        # scopes that start and run on one line: a one-line def and a lambda body on its own line, each the only
        # tracepoint of its file
        {'kind': 'prog', 'mode': 'sys', 'scripts': {}, 'sched': [], 'model_seed': 5, 'entries': [['m0', 'g', 1]],
         'files': {'m0.py': ('def g(x, k):\n'
                             '    a = m1.one(x, next(_TL.ctr))\n'
                             '    b = LAM(a, next(_TL.ctr)) + LAM(x, next(_TL.ctr))\n'
                             '    return a + b\n'
                             '\n'
                             '\n'
                             'LAM = (\n'
                             '    lambda n, k: n + 100\n'           # line 8
                             ')\n'),
                   'm1.py': ('def helper(n, k):\n'
                             '    return n + 1\n'
                             '\n'
                             '\n'
                             'def one(n, k): return helper(n, next(_TL.ctr)) * 2\n')},      # line 5
         'tps': [{'id': 'tp0', 'path': 'm0.py', 'line': 8, 'args': dict(u, snapshot='no_collect', log_msg='lam'),
                  'metrics': [], 'via': 'resp'},
                 {'id': 'tp1', 'path': 'm1.py', 'line': 5, 'args': u, 'metrics': [], 'via': 'custom'}]},
        # file names that end with the name of the executing file ('subm0.py' is configured, 'm0.py' runs) and the other
        # way round, same line numbers and function names: only an exact file name is "a source file with that name"
        {'kind': 'prog', 'mode': 'sys', 'files': {'m0.py': src, 'subm0.py': src}, 'entries': [['m0', 'g', 1]],
         'scripts': {}, 'sched': [], 'model_seed': 6,
         'tps': [{'id': 'tp0', 'path': 'subm0.py', 'line': 2, 'args': u, 'metrics': [], 'via': 'resp'},
                 {'id': 'tp1', 'path': 'subm0.py', 'line': 0, 'args': dict(u, method_name='f', snapshot='no_collect',
                                                                        log_msg='in f'), 'metrics': [], 'via': 'custom'},
                 {'id': 'tp2', 'path': '0.py', 'line': 2, 'args': dict(u, snapshot='no_collect', log_msg='x'),
                  'metrics': [], 'via': 'resp'},
                 {'id': 'tp3', 'path': 'm0.py', 'line': 8, 'args': u, 'metrics': [], 'via': 'resp'}]},
        {'kind': 'prog', 'mode': 'sys', 'files': {'m0.py': src, 'subm0.py': src}, 'entries': [['subm0', 'g', 1]],
         'scripts': {}, 'sched': [], 'model_seed': 7,
         'tps': [{'id': 'tp0', 'path': 'm0.py', 'line': 2, 'args': u, 'metrics': [], 'via': 'resp'},
                 {'id': 'tp1', 'path': 'subm0.py', 'line': 8, 'args': u, 'metrics': [], 'via': 'resp'}]},
        # installed with handler.start(); T0 runs under the tracepoint; the list becomes empty; T1 is started in that
        # window; the tracepoint is configured again; T1 runs; T2 is started and runs; handler.shutdown()
        {'kind': 'prog', 'mode': 'threads', 'files': {'m0.py': src}, 'entries': [['m0', 'g', 1]] * 3, 'scripts': {},
         'sched': [], 'model_seed': 8, 'lifecycle': {'first': ['tp0'], 'second': ['tp0', 'tp1']},
         'tps': [{'id': 'tp0', 'path': 'm0.py', 'line': 2, 'args': u, 'metrics': [], 'via': 'resp'},
                 {'id': 'tp1', 'path': 'm0.py', 'line': 0, 'args': dict(u, method_name='f', snapshot='no_collect',
                                                                     log_msg='in f'), 'metrics': [], 'via': 'custom'}]},
        {'kind': 'prog', 'mode': 'threads', 'files': {'m0.py': src}, 'entries': [['m0', 'g', 1]] * 2, 'scripts': {},
         'sched': [], 'model_seed': 9, 'lifecycle': {'first': None, 'second': ['tp0']},
         'tps': [{'id': 'tp0', 'path': 'm0.py', 'line': 8, 'args': u, 'metrics': [], 'via': 'custom'}]},
        # a config update lands while T0 is matching its first event of m0.py: afterwards exactly the new tracepoints act
        {'kind': 'prog', 'mode': 'sys', 'files': {'m0.py': src}, 'entries': [['m0', 'g', 1], ['m0', 'g', 2]],
         'scripts': {}, 'sched': [], 'model_seed': 10, 'gated': {'file': 'm0.py', 'old': ['tp0'], 'new': ['tp1']},
         'tps': [{'id': 'tp0', 'path': 'm0.py', 'line': 8, 'args': dict(u, snapshot='no_collect', log_msg='old'),
                  'metrics': [], 'via': 'resp'},
                 {'id': 'tp1', 'path': 'm0.py', 'line': 9, 'args': dict(u, snapshot='no_collect', log_msg='new'),
                  'metrics': [], 'via': 'resp'}]},
        # registration history: a rejected registration first, three valid ones, the middle one is unregistered
        {'kind': 'prog', 'mode': 'sys', 'files': {'m0.py': src}, 'entries': [['m0', 'g', 1]], 'scripts': {},
         'sched': [], 'model_seed': 11,
         'history': [['add_invalid', 'm0.py', 2], ['add', 'tp0'], ['add', 'tp1'], ['add', 'tp2'], ['remove', 'tp1']],
         'tps': [{'id': 'tp0', 'path': 'm0.py', 'line': 2, 'args': dict(u, snapshot='no_collect', log_msg='a'),
                  'metrics': [], 'via': 'custom'},
                 {'id': 'tp1', 'path': 'm0.py', 'line': 8, 'args': dict(u, snapshot='no_collect', log_msg='b'),
                  'metrics': [], 'via': 'custom'},
                 {'id': 'tp2', 'path': 'm0.py', 'line': 9, 'args': u, 'metrics': [], 'via': 'custom'}]},
        # a long file: the same program starting at line 301 / 70001 (line numbers beyond CPython's shared ints)
        {'kind': 'prog', 'mode': 'sys', 'files': {'m0.py': '\n' * 300 + src, 'm1.py': '\n' * 70000 + src},
         'entries': [['m0', 'g', 1], ['m1', 'g', 1]], 'scripts': {}, 'sched': [], 'model_seed': 12,
         'tps': [{'id': 'tp0', 'path': 'm0.py', 'line': 302, 'args': u, 'metrics': [], 'via': 'resp'},
                 {'id': 'tp1', 'path': 'm0.py', 'line': 256, 'args': u, 'metrics': [], 'via': 'resp'},
                 {'id': 'tp2', 'path': 'm1.py', 'line': 70008, 'args': dict(u, snapshot='no_collect', log_msg='far'),
                  'metrics': [], 'via': 'custom'},
                 {'id': 'tp3', 'path': 'm0.py', 'line': 2, 'args': u, 'metrics': [], 'via': 'resp'}]},
        # nameless method tracepoints on a file with source whose frames are function frames only: they never act
        dict(nameless_case(3, [{'id': 'tp1', 'path': 'm0.py', 'line': 2, 'args': u, 'metrics': [], 'via': 'resp'}]),
             tps=[nameless_tp(0, 'm0.py'), nameless_tp(1, 'm0.py', 'span', 'custom'),
                  {'id': 'tp2', 'path': 'm0.py', 'line': 2, 'args': u, 'metrics': [], 'via': 'resp'}], stream='nameless'),
        # no tracepoint at all; and only never-reached ones
        {'kind': 'prog', 'mode': 'sys', 'files': {'m0.py': src}, 'entries': [['m0', 'g', 1]], 'scripts': {},
         'sched': [], 'model_seed': 2, 'tps': []},
        {'kind': 'prog', 'mode': 'sys', 'files': {'m0.py': src}, 'entries': [['m0', 'g', 1]], 'scripts': {},
         'sched': [], 'model_seed': 3,
         'tps': [{'id': 'tp0', 'path': 'm0.py', 'line': 4, 'args': u, 'metrics': [], 'via': 'resp'},
                 {'id': 'tp1', 'path': 'other.py', 'line': 2, 'args': u, 'metrics': [], 'via': 'resp'},
                 {'id': 'tp2', 'path': 'm0.py', 'line': 0, 'args': dict(u, method_name='nosuch'), 'metrics': [],
                  'via': 'custom'}]},
    ]


# --------------------------------------------------------------------------------------- implementation
def is_loc(case):
    return case.get('kind') == 'loc'


def run_impl(case):
    if is_loc(case):
        return locx.run_impl(case)
    return th.run_case(case)


FIRED = th.FIRED


def threads_of(case):
    return ['T%d' % i for i in range(len(case['entries']))]


def host_events(obs, t):
    return obs['ref'].get(t, [])


# --------------------------------------------------------------------------------------- judging
def gate_index(case, obs, events):
    """index, in T0's reference stream, of the event that was being matched when the config update landed"""
    ga = obs.get('gate')
    if not ga:
        return None
    for i, e in enumerate(events):
        if th.fp(e) == th.fp(ga):
            return i
    return None


def gated_align(case, obs, t, events, observed, groups_of, what):
    """the configuration in force: T0 sees the old tracepoints before the event during which the update landed, the
    new ones after it; that one event started before the update and may see either; every other thread runs after
    the update has returned and sees the new ones."""
    g = case['gated']
    old = [tp for tp in case['tps'] if tp['id'] in g['old']]
    new = [tp for tp in case['tps'] if tp['id'] in g['new']]
    n = len(events)
    if t != 'T0':
        return th.align(groups_of(new, 0, n), observed, events, what=what)
    j = gate_index(case, obs, events)
    if j is None:
        # T0 was never parked: the update came after T0's work (T1 waits for it)
        return th.align(groups_of(old, 0, n), observed, events, what=what)
    a = th.align(groups_of(old, 0, j + 1) + groups_of(new, j + 1, n), observed, events, what=what)
    if not a[0]:
        return a
    b = th.align(groups_of(old, 0, j) + groups_of(new, j, n), observed, events, what=what)
    return b if not b[0] else a


def oracle(case, obs):
    if is_loc(case):
        return locx.oracle(case, obs)
    if 'raised' in obs:
        return ['the agent raised: ' + obs['raised']]
    v = []
    if not obs['host_same']:
        v.append('the host program behaved differently under the agent: %s' % obs['host'])
    if not obs['trace_kept']:
        v.append('the trace function was removed during the run')
    if obs.get('hook_restored') is False:
        v.append('threading trace hook not restored after shutdown')
    for t in threads_of(case):
        events = host_events(obs, t)
        observed = [o for o in obs['effects'].get(t, []) if o['kind'] in FIRED]
        tps = th.lifecycle_tps(case, t) if case.get('lifecycle') else \
            th.history_active(case) if case.get('history') else case['tps']
        if case.get('gated'):
            vv, paired = gated_align(case, obs, t, events, observed,
                                     lambda tps_, lo, hi: [g for g in th.reference(tps_, events, {})[0]
                                                           if lo <= g['i'] < hi], 'the statement')
        else:
            groups, _ = th.reference(tps, events, case.get('scripts', {}).get(t, {}))
            vv, paired = th.align(groups, observed, events, what='the statement')
        v += ['thread %s: %s' % (t, x) for x in vv]
        # every tracepoint of a line collects the same frame: the locals of the event's frame
        for g, got in paired:
            e = events[g['i']]
            for o in got:
                if o['kind'] == 'snap' and 'locals' in e and o.get('vars') != e['locals']:
                    v.append('thread %s: snapshot of %s at %s:%s has variables %s, the frame has %s' % (
                        t, o['tp'], os.path.basename(e['path']), e['line'], o.get('vars'), e['locals']))
                if o['kind'] == 'snap' and o.get('snapline') != e['line']:
                    v.append('thread %s: snapshot of %s reports line %s at an event on line %s' % (
                        t, o['tp'], o.get('snapline'), e['line']))
        if len(v) > 6:
            break
    for t in obs['effects']:
        if t not in threads_of(case) and [o for o in obs['effects'][t] if o['kind'] in FIRED]:
            v.append('effects on a thread that runs no host code: %s' % t)
    return v


def model_request(case, obs):
    if is_loc(case):
        return locx.model_request(case, obs)
    if 'raised' in obs:
        return None
    if case.get('lifecycle'):
        return th.lifecycle_requests(case, obs)
    if case.get('history'):
        return th.run_request(case, obs, only={tp['id'] for tp in th.history_active(case)})
    if case.get('gated'):
        # the stream lift with the configuration replaced between two events: each thread's stream under the old and
        # under the new tracepoints (which actions run at an event does not depend on earlier events: c03_stream)
        g = case['gated']
        reqs = []
        for k in range(len(case['entries'])):
            reqs.append(th.run_request(dict(case, gated=None), obs, only=set(g['old']), thread=k))
            reqs.append(th.run_request(dict(case, gated=None), obs, only=set(g['new']), thread=k))
        return {'op': 'batch', 'reqs': reqs}
    return th.run_request(case, obs)


def model_groups(case, effects, kinds=('f',)):
    """the model's effects of one thread as per-event groups of observable effects."""
    groups = []
    for e in effects:
        if e['e'] != 'f':
            continue
        tp = case['tps'][e['a'][0]]
        obs_effs = [(k, tp['id']) for k in th.model_effects(tp, e['a'][1])]
        if not obs_effs:
            continue
        if groups and groups[-1]['i'] == e['i']:
            groups[-1]['effects'] += obs_effs
        else:
            groups.append({'i': e['i'], 'effects': obs_effs})
    return groups


def compare(case, obs, resp):
    if is_loc(case):
        return locx.compare(case, obs, resp)
    if 'error' in resp:
        return ['model error: ' + resp['error']]
    d = []
    if case.get('gated'):
        for k, t in enumerate(threads_of(case)):
            ro, rn = resp['resps'][2 * k], resp['resps'][2 * k + 1]
            if 'error' in ro or 'error' in rn:
                d.append('model error: %s' % (ro.get('error') or rn.get('error')))
                continue
            events = host_events(obs, t)
            observed = [o for o in obs['effects'].get(t, []) if o['kind'] in FIRED]
            go = model_groups(case, ro['threads'][0]['effects'])
            gn = model_groups(case, rn['threads'][0]['effects'])
            old_l = [tp for tp in case['tps'] if tp['id'] in case['gated']['old']]

            def groups_of2(tps_, lo, hi, go=go, gn=gn, old_l=old_l):
                return [g for g in (go if tps_ == old_l else gn) if lo <= g['i'] < hi]
            vv, _ = gated_align(case, obs, t, events, observed, groups_of2, 'the model')
            d += ['thread %s: %s' % (t, x) for x in vv]
        return d
    if case.get('lifecycle'):
        for k, t in enumerate(threads_of(case)):
            r = resp['resps'][k]
            if 'error' in r:
                d.append('model error: ' + r['error'])
                continue
            events = host_events(obs, t)
            observed = [o for o in obs['effects'].get(t, []) if o['kind'] in FIRED]
            vv, _ = th.align(model_groups(case, r['threads'][0]['effects']), observed, events, what='the model')
            d += ['thread %s: %s' % (t, x) for x in vv]
        return d
    if not resp.get('global_agrees'):
        d.append('model: the interleaved machine disagrees with the per-thread runs')
    if resp.get('triggers') != obs.get('triggers') and not case.get('history'):
        d.append('installed triggers: model %s vs implementation %s' % (resp.get('triggers'), obs.get('triggers')))
    for k, t in enumerate(threads_of(case)):
        events = host_events(obs, t)
        observed = [o for o in obs['effects'].get(t, []) if o['kind'] in FIRED]
        groups = model_groups(case, resp['threads'][k]['effects'])
        vv, _ = th.align(groups, observed, events, what='the model')
        d += ['thread %s: %s' % (t, x) for x in vv]
    return d


def label(case, obs):
    if is_loc(case):
        return locx.label(case, obs)
    if 'raised' in obs:
        return 'raised'
    n = sum(len([o for o in e if o['kind'] in FIRED]) for e in obs['effects'].values())
    return '%s%s%s/%dthr/%s' % ((case['stream'] + '/') if case.get('stream') else '', 'lifecycle' if case.get('lifecycle') else 'history' if case.get('history') else
                              ('gated' + ('' if obs.get('gate') else '-unparked')) if case.get('gated') else case['mode'],
                              '/nosource' if case.get('nosource') else '', len(case['entries']),
                              'none' if n == 0 else 'few' if n < 6 else 'many')


def nontrivial(case, obs):
    if is_loc(case):
        return locx.nontrivial(case, obs)
    if 'raised' in obs:
        return False
    hit = {o['tp'] for e in obs['effects'].values() for o in e if o['kind'] in FIRED}
    return bool(hit) and any(tp['id'] not in hit for tp in case['tps'])


FID_NAMELESS = 'C03/nameless-method-location'


def known_finding(case, obs):
    """instance predicate: th.nameless_instance (a nameless method tracepoint on a file with source, and an event of
    that file at/after the end of its frame's source block)"""
    if is_loc(case) or 'raised' in obs or 'ref' not in obs:
        return None
    return FID_NAMELESS if th.nameless_instance(case, obs) else None


def known_replays():
    return [(FID_NAMELESS, 'a method tracepoint without a method name on aux.py (3 lines, source available): its '
                           'action runs at the `line` event of the last line of the module-level frame '
                           '(at_location tests `start <= line >= end` with the EVENT\'s line, not the event kind)',
             nameless_case())]


def shrink(case):
    if is_loc(case):
        yield from locx.shrink(case)
        return
    tps = case['tps']
    for i in range(len(tps)):
        c = dict(case)
        c['tps'] = tps[:i] + tps[i + 1:]
        if case.get('history'):
            c['history'] = [op for op in case['history'] if not (op[0] in ('add', 'remove') and op[1] == tps[i]['id'])]
        yield c
    if case.get('history'):
        for i, op in enumerate(case['history']):
            c = dict(case)
            c['history'] = case['history'][:i] + case['history'][i + 1:]
            yield c
    if len(case['entries']) > 1 and not case.get('lifecycle') and not case.get('gated') and not case.get('history'):
        for i in range(len(case['entries'])):
            c = dict(case)
            c['entries'] = case['entries'][:i] + case['entries'][i + 1:]
            c['sched'] = []
            yield c
