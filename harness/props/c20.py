"""C20 — plugins optional, ordered, isolated: real `load_plugins` on generated plugin sets, and every subset of plugin
callbacks raising through real Deep.start / trace_call / Deep.shutdown with a fake gRPC channel."""
import itertools
import sys
import threading
import time
import types

import core
import fc_env
import hostprogs

ID = 'C20'
EXTRACT = ['guards']
LEAN_TARGETS = ['DeepModel.Props.C20']
AUDIT = 'DeepModel/Audit/C20.lean'
DRIVER = 'DeepModel/Driver/C20.lean'
BUDGET = {'quick': 330, 'thorough': 3000}
TIME = {'quick': 75, 'thorough': 600}
EXHAUSTIVE = True
RULE = ('two streams. load: built-in plugins switched on/off by PLUGIN_<NAME> + 0-7 custom plugin names (module missing, class '
        'missing, name without a dot, constructor raising, switched off by config with many spellings — text, Python False, 0, '
        'the empty string, and DEEP_PLUGIN_<NAME> environment values incl. empty —, order() in '
        '{None, 0, negative, positive, ties, floats incl. negative fractions and families that collide when truncated or '
        'rounded, x.0 ties, 0.0/-0.0, bools, raising, text, list}; distinct classes with the SAME class name in two modules and the '
        'same entry listed twice: every usable configured entry is loaded as often as it is configured) through the real load_plugins; expected list = the loadable ones stably sorted by '
        '(order() or 0). callbacks: a set of 6-9 custom plugins of every kind (2 resource providers, 2 decorators, 1-2 loggers, 2 '
        'metric processors, 2 span processors, plus usually one plugin switched off by configuration that must never be loaded '
        'nor called) loaded by a real Deep with a fake gRPC channel; 5 fault points (plugin, callback) '
        'are chosen and EVERY subset of them raises (Exception class, at every call) through Deep.start, a traced host program '
        'with snapshot+log, metric and span tracepoints, and Deep.shutdown; each run is compared with the fault-free run of the '
        'same set (the agent\'s logger is enabled at DEBUG into core.LOG_SINK, which formats every record: the log calls inside '
        'the isolating except-handlers are agent code and their formatting must not raise). Non-trivial = a load case with at least one skipped and two loaded plugins, or a callback case with a non-empty '
        'fault subset.')
TRUSTED = ['list.sort is a stable sort (CPython)', 'the fake channel stands for a healthy service']
ASSUMPTIONS = ['plugin callback failures are Exception-class (a BaseException from a plugin is contained by trace_call, C01, but '
               'may cost the rest of that action)',
               'order() returns None, something falsy, or a finite number of the EXACT types int / float / bool (inf / nan are '
               'not generated: nan has no position in any order; a subclass of int whose comparison raises makes list.sort '
               'raise out of load_plugins — audit a3, not generated)']

BUILTIN = ['deep.api.plugin.otel.OTelPlugin', 'deep.api.plugin.python.PythonPlugin',
           'deep.api.plugin.metric.prometheus_metrics.PrometheusPlugin', 'deep.api.plugin.metric.otel_metrics.OTelMetrics']
OFF = ['False', 'false', '0', 'no', 'off', 'F', False, 0, '', 'env:', 'env:false', 'env:0', 2, -1]
ON = ['True', 'true', '1', 'yes', 't', 'Y', 'env:true', 'env:1', True, 1]
_G = {}


def G():
    if not _G:
        core.use_repo()
        _G['hosts'] = hostprogs.Hosts()
        _G['grpc'] = fc_env.install_fake_grpc()
        _G['seq'] = itertools.count()
        _G['ref'] = {}
        # which built-ins can be imported and constructed here (independently of load_plugins)
        from importlib import import_module
        from deep.config import ConfigService
        from deep.config.tracepoint_config import TracepointConfigService
        ok = {}
        for name in BUILTIN:
            try:
                m, c = name.rsplit('.', 1)
                getattr(import_module(m), c)(config=ConfigService({}, tracepoints=TracepointConfigService()))
                ok[name] = True
            except Exception:
                ok[name] = False
        _G['builtin_ok'] = ok
    return _G


# ------------------------------------------------------------------------------------------ generated plugin classes
def make_class(name, kind, rec, fail, order, ctor_raises=False):
    bases = {'resource': (fc_env.FcResource,), 'decorator': (fc_env.FcDecorator,), 'logger': (fc_env.FcLogger,),
             'metric': (fc_env.FcMetric,), 'span': (fc_env.FcSpanProcessor,), 'plain': (fc_env.FcPlugin,)}[kind]

    def __init__(self, config=None):
        if ctor_raises:
            raise fc_env.PluginError('constructor of ' + name)
        fc_env.FcPlugin.__init__(self, name, rec, fail, order)
        self.config = config
    # is_active is the REAL Plugin.is_active (reads PLUGIN_<NAME> from the config)
    from deep.api.plugin import Plugin

    def order_(self):
        if order == 'raise':
            raise fc_env.PluginError('order() of ' + name)
        return order_value(order)
    return type(name, bases, {'__init__': __init__, 'is_active': Plugin.is_active, 'order': order_})


def new_module(classes):
    uid = next(G()['seq'])
    modname = f'verif_c20_plugins_{uid}'
    mod = types.ModuleType(modname)
    for c in classes:
        setattr(mod, c.__name__, c)
    sys.modules[modname] = mod
    return modname


# ------------------------------------------------------------------------------------------ generation
def gen_load(rng):
    n = rng.randint(0, 7)
    customs = []
    for i in range(n):
        r = rng.random()
        how = 'ok'
        if r < 0.12:
            how = 'missing_module'
        elif r < 0.2:
            how = 'missing_class'
        elif r < 0.25:
            how = 'no_dot'
        elif r < 0.37:
            how = 'ctor_raises'
        sw = rng.random()
        switch = None
        if sw < 0.2:
            switch = rng.choice(OFF)
        elif sw < 0.3:
            switch = rng.choice(ON)
        customs.append({'name': f'Q{i}', 'how': how, 'switch': switch,
                        'order': rng.choice(ORDERS)})
    if rng.random() < 0.4:
        # orders that differ by less than one (and collide when rounded or truncated), bools, 0.0/-0.0 (falsy), x.0 ties,
        # configured in a random sequence: the DECLARED order decides, ties keep the configured sequence
        fam = rng.choice(FRACTION_FAMILIES)
        for c in customs:
            c['order'] = rng.choice(fam)
    if customs and rng.random() < 0.4:
        # the identity of a plugin is its configured ENTRY, not its name: a distinct class with the same class name (so the
        # same Plugin.name and the same PLUGIN_<NAME> switch) from another module, and/or the very same entry listed twice
        for _ in range(rng.randint(1, 2)):
            src = rng.choice(customs)
            if src.get('module'):
                continue
            if rng.random() < 0.65 and not any(c.get('module') and c['name'] == src['name'] for c in customs):
                twin = dict(src, module=1, how=rng.choice(['ok', 'ok', 'ctor_raises']) if src['how'] in ('ok', 'ctor_raises') else src['how'],
                            order=rng.choice(ORDERS))
            else:
                twin = dict(src)
            customs.insert(rng.randint(0, len(customs)), twin)
    return {'kind': 'load', 'builtin_switch': [rng.choice([None, None, 'False', 'True', 'no', False, 0, '', 'env:', True]) for _ in BUILTIN],
            'customs': customs}


ORDERS = [None, 0, 0, 1, -1, 5, -7, 2, 2, 100, 'raise', 'text', 'list', 1.5, 1.2, -0.5, 0.5, 2.0, True, False, 0.0, -1.5, 99.9,
          'empty_text', 'empty_list', 'empty_dict', 1e23, 10 ** 23, 2 ** 53 + 1, float(2 ** 53)]
FRACTION_FAMILIES = [[1e23, 10 ** 23, 10 ** 23 + 1, 2 ** 53 + 1, float(2 ** 53), 2 ** 53, 9.999999999999999e22],
                     ['empty_text', 'empty_list', 'empty_dict', 0, None, -1, 1, 0.0],
                     [1.5, 1.2, 1.7, 1, 1.0, True, 2], [-0.5, -0.25, 0, None, -0.75, 0.25, 0.0, -0.0, False],
                     [0.5, 0.25, 0.75, 0, 1, True, False], [-1.5, -1.2, -1, -2, -1.0, -1.9], [2.5, 2.4, 2.6, 3, 2, 2.0, 3.0]]

KIND_OF = {'r1': 'resource', 'r2': 'resource', 'd1': 'decorator', 'd2': 'decorator', 'lg1': 'logger', 'lg2': 'logger',
           'm1': 'metric', 'm2': 'metric', 's1': 'span', 's2': 'span'}
POINTS = [('r1', 'resource'), ('r2', 'resource'), ('d1', 'decorate'), ('d2', 'decorate'), ('lg1', 'log'),
          ('m1', 'metric'), ('m2', 'metric'), ('s1', 'create_span'), ('s2', 'create_span'), ('s1', 'close'), ('s2', 'close'),
          ('r1', 'shutdown'), ('d1', 'shutdown'), ('m2', 'shutdown'), ('s1', 'shutdown'), ('lg1', 'shutdown')]


def gen_callbacks(rng, tier):
    plugins = ['r1', 'r2', 'd1', 'd2', 'lg1', 'm1', 'm2', 's1', 's2']
    if rng.random() < 0.5:
        plugins.append('lg2')
    rng.shuffle(plugins)
    orders = {p: rng.choice([0, 0, 0, 1, -1, 3, 1.5, 1.2, -0.5, 0.5, 0.25]) for p in plugins}
    pts = rng.sample(POINTS, 5)
    subsets = []
    for r in range(len(pts) + 1):
        subsets += [list(c) for c in itertools.combinations(range(len(pts)), r)]
    if tier == 'quick':
        subsets = [subsets[0], subsets[-1]] + rng.sample(subsets[1:-1], 14)
    off = None
    if rng.random() < 0.7:
        # a plugin of some kind that is switched off by configuration: never loaded, none of its callbacks runs
        off = {'name': 'x1', 'kind': rng.choice(['resource', 'decorator', 'logger', 'metric', 'span']),
               'switch': rng.choice(OFF), 'order': rng.choice([-5, 0, 4]), 'at': rng.randint(0, len(plugins))}
        if rng.random() < 0.3:
            off.update(switch=None, order=rng.choice(['raise', 'text']))       # not loadable because of its order()
    # how a failing shutdown() fails: an Exception, a BaseException, or the project's own IllegalStateException
    # (a BaseException) raised when the plugin submits a last task after the task handler was closed
    sd_cls = rng.choice(['exc', 'base', 'submit'])
    for sub in subsets:
        c = {'kind': 'callbacks', 'plugins': plugins, 'orders': orders, 'points': [list(p) for p in pts],
             'faulty': sorted(sub), 'inp': rng.randint(1, 2), 'shutdown_cls': sd_cls}
        if off:
            c['off'] = off
        yield c


def gen(rng, tier):
    while True:
        for _ in range(6):
            yield gen_load(rng)
        yield from gen_callbacks(rng, tier)


def corpus():
    pl = ['r1', 'r2', 'd1', 'd2', 'lg1', 'm1', 'm2', 's1', 's2']
    od = {p: 0 for p in pl}

    def cb(points):
        return {'kind': 'callbacks', 'plugins': pl, 'orders': od, 'points': points, 'faulty': list(range(len(points))),
                'inp': 1}
    return [
        {'kind': 'load', 'builtin_switch': [None, 'False', None, None],
         'customs': [{'name': 'Q0', 'how': 'ok', 'switch': None, 'order': 5},
                     {'name': 'Q1', 'how': 'missing_module', 'switch': None, 'order': 0},
                     {'name': 'Q2', 'how': 'ok', 'switch': 'False', 'order': -3},
                     {'name': 'Q3', 'how': 'ctor_raises', 'switch': None, 'order': -9},
                     {'name': 'Q4', 'how': 'ok', 'switch': None, 'order': None},
                     {'name': 'Q5', 'how': 'ok', 'switch': None, 'order': -1},
                     {'name': 'Q6', 'how': 'ok', 'switch': 'True', 'order': 5}]},
        {'kind': 'load', 'builtin_switch': [False, 0, '', 'env:'],
         'customs': [{'name': 'Q0', 'how': 'ok', 'switch': False, 'order': -2},
                     {'name': 'Q1', 'how': 'ok', 'switch': 0, 'order': 0},
                     {'name': 'Q2', 'how': 'ok', 'switch': '', 'order': 1},
                     {'name': 'Q3', 'how': 'ok', 'switch': 'env:', 'order': 1},
                     {'name': 'Q4', 'how': 'ok', 'switch': None, 'order': 3}]},
        {'kind': 'load', 'builtin_switch': [True, None, 1, 'env:true'],
         'customs': [{'name': 'Q0', 'how': 'ok', 'switch': None, 'order': 'raise'},
                     {'name': 'Q1', 'how': 'ok', 'switch': True, 'order': 2},
                     {'name': 'Q2', 'how': 'ok', 'switch': None, 'order': 'text'},
                     {'name': 'Q3', 'how': 'ok', 'switch': 1, 'order': -4},
                     {'name': 'Q4', 'how': 'ok', 'switch': 2, 'order': 0},
                     {'name': 'Q5', 'how': 'ok', 'switch': None, 'order': 'list'}]},
        # two distinct plugins with the same class name from different modules, and one entry listed twice: each
        # configured entry is loaded (identity = the entry, not the name)
        {'kind': 'load', 'builtin_switch': [None, None, None, None],
         'customs': [{'name': 'Q0', 'how': 'ok', 'switch': None, 'order': 2},
                     {'name': 'Q1', 'how': 'ok', 'switch': None, 'order': 0},
                     {'name': 'Q0', 'how': 'ok', 'switch': None, 'order': -1, 'module': 1},
                     {'name': 'Q1', 'how': 'ok', 'switch': None, 'order': 0},
                     {'name': 'Q2', 'how': 'ctor_raises', 'switch': None, 'order': 0},
                     {'name': 'Q2', 'how': 'ok', 'switch': None, 'order': 1, 'module': 1}]},
        # falsy non-numbers ('' / [] / {}): `order() or 0` runs before the number test, they count as 0 and ARE loaded;
        # floats beyond 2^53 against ints: compared exactly (1e23 < 10**23)
        {'kind': 'load', 'builtin_switch': [None, None, None, None],
         'customs': [{'name': 'Q0', 'how': 'ok', 'switch': None, 'order': 'empty_text'},
                     {'name': 'Q1', 'how': 'ok', 'switch': None, 'order': 10 ** 23},
                     {'name': 'Q2', 'how': 'ok', 'switch': None, 'order': 1e23},
                     {'name': 'Q3', 'how': 'ok', 'switch': None, 'order': 'empty_list'},
                     {'name': 'Q4', 'how': 'ok', 'switch': None, 'order': -1},
                     {'name': 'Q5', 'how': 'ok', 'switch': None, 'order': 'text'}]},
        # declared orders that collide when truncated or rounded, configured in the opposite sequence; bools; x.0 ties
        {'kind': 'load', 'builtin_switch': [None, None, None, None],
         'customs': [{'name': 'Q0', 'how': 'ok', 'switch': None, 'order': 1.5},
                     {'name': 'Q1', 'how': 'ok', 'switch': None, 'order': 1.2},
                     {'name': 'Q2', 'how': 'ok', 'switch': None, 'order': -0.5},
                     {'name': 'Q3', 'how': 'ok', 'switch': None, 'order': True},
                     {'name': 'Q4', 'how': 'ok', 'switch': None, 'order': 1.0},
                     {'name': 'Q5', 'how': 'ok', 'switch': None, 'order': 0.0},
                     {'name': 'Q6', 'how': 'ok', 'switch': None, 'order': 0.25}]},
        dict(cb([['d1', 'decorate']]), off={'name': 'x1', 'kind': 'decorator', 'switch': False, 'order': -5, 'at': 2}),
        dict(cb([]), off={'name': 'x1', 'kind': 'logger', 'switch': '', 'order': -5, 'at': 0}),
        cb([['m1', 'metric']]),                         # D21
        cb([['s1', 'create_span']]),                    # D22
        cb([['s1', 'close']]),                          # D2
        cb([['r1', 'shutdown']]),                       # D19
        dict(cb([['r1', 'shutdown'], ['s1', 'shutdown']]), shutdown_cls='base'),
        dict(cb([['d1', 'shutdown']]), shutdown_cls='submit'),
        cb([['r1', 'resource'], ['d1', 'decorate'], ['lg1', 'log']]),
        cb([['m1', 'metric'], ['s1', 'create_span'], ['s1', 'close'], ['r1', 'shutdown']]),
    ]


# ------------------------------------------------------------------------------------------ running: load
def run_load(case):
    from deep.api.plugin import load_plugins
    from deep.config import ConfigService
    from deep.config.tracepoint_config import TracepointConfigService
    rec = fc_env.Recorder()
    # module A holds the classes of the entries; module B holds DISTINCT classes that have the same class name (and so the
    # same Plugin.name) as one of A.  The same entry (same module, same name) listed twice is the same class twice.
    per_mod = {0: {}, 1: {}}
    for c in case['customs']:
        if c['how'] in ('ok', 'ctor_raises') and c['name'] not in per_mod[c.get('module', 0)]:
            per_mod[c.get('module', 0)][c['name']] = make_class(c['name'], 'plain', rec, {}, c['order'],
                                                                ctor_raises=c['how'] == 'ctor_raises')
    modname = new_module(list(per_mod[0].values()))
    modname_b = new_module(list(per_mod[1].values()))
    cls_b = set(per_mod[1].values())
    names = []
    for c in case['customs']:
        if c['how'] == 'missing_module':
            names.append(f'verif_no_such_module_{c["name"]}.{c["name"]}')
        elif c['how'] == 'missing_class':
            names.append(f'{modname}.Nope{c["name"]}')
        elif c['how'] == 'no_dot':
            names.append(c['name'] + 'NoDot')
        else:
            names.append(f'{modname_b if c.get("module") else modname}.{c["name"]}')
    custom = {'APP_ROOT': '/app'}
    envkeys = apply_switches(custom, [(b.rsplit('.', 1)[1], sw) for b, sw in zip(BUILTIN, case['builtin_switch'])] +
                             [(c['name'], c['switch']) for c in case['customs']])
    try:
        cfg = ConfigService(custom, tracepoints=TracepointConfigService())
        loaded = load_plugins(cfg, names)
        return {'loaded': [type(p).__name__ + ('@B' if type(p) in cls_b else '') for p in loaded]}
    except BaseException as e:      # noqa: B902
        return {'raised': f'{type(e).__name__}: {e}'}
    finally:
        clear_env(envkeys)
        sys.modules.pop(modname, None)
        sys.modules.pop(modname_b, None)


def truthy(s):
    """is a plugin with this PLUGIN_<NAME> switch active?  (statement: switched off by configuration = any value
    other than the documented true spellings; values that are not text — Python False, 0 — switch it off too: the
    loader skips a plugin whose switch it cannot read)"""
    if s is None:
        return True
    if isinstance(s, str) and s.startswith('env:'):
        s = s[4:]
    return str(s).lower() in ('yes', 'true', 't', '1', 'y')      # text, or a bool / number given in code


def apply_switches(custom, switches):
    """switches: [(plugin class name, value)].  'env:<v>' values go to DEEP_PLUGIN_<NAME> in the environment, the others
    into the dict given to ConfigService.  Returns the environment keys to remove afterwards."""
    import os
    env = []
    for name, sw in switches:
        if sw is None:
            continue
        if isinstance(sw, str) and sw.startswith('env:'):
            os.environ['DEEP_PLUGIN_' + name.upper()] = sw[4:]
            env.append('DEEP_PLUGIN_' + name.upper())
        else:
            custom['PLUGIN_' + name.upper()] = sw
    return env


def clear_env(keys):
    import os
    for k in keys:
        os.environ.pop(k, None)


def load_specs(case):
    """[(display name, id, import ok, ctor ok, active, order)] in the order load_plugins tries them"""
    out = []
    ok = G()['builtin_ok']
    for i, (b, sw) in enumerate(zip(BUILTIN, case['builtin_switch'])):
        out.append((b.rsplit('.', 1)[1], i, ok[b], True, truthy(sw), 0, sw))
    for i, c in enumerate(case['customs']):
        out.append((c['name'] + ('@B' if c.get('module') else ''), 10 + i, c['how'] in ('ok', 'ctor_raises'), c['how'] != 'ctor_raises',
                    truthy(c['switch']), c['order'], c['switch']))
    return out


MARKERS = {'text': 'high', 'list': [1], 'empty_text': '', 'empty_list': [], 'empty_dict': {}}


def order_value(order):
    """what order() of the generated plugin returns for the order written in the case (JSON cannot carry every value)"""
    if isinstance(order, str) and order in MARKERS:
        return MARKERS[order]
    return order


def usable(order):
    """does the loader keep a plugin whose order() returns this?  The code computes `order() or 0` FIRST: everything
    falsy (None, 0, 0.0, False, and also '', [], {}) counts as 0; otherwise it must be a number."""
    if order == 'raise':
        return False
    v = order_value(order)
    return (not v) or (isinstance(v, (int, float)) and not isinstance(v, str))


def sort_key(order):
    return order_value(order) or 0


def model_order(o):
    """as the Lean driver reads it: null (None) | a number (a bool is the int it equals) | "unusable" """
    if not usable(o):
        return 'unusable'
    v = order_value(o)
    if v is None:
        return None
    if not isinstance(v, (int, float)):
        return 'falsy'                      # '', [], {}: `order() or 0` makes it 0 before the number test
    if isinstance(v, float):
        num, den = v.as_integer_ratio()     # the EXACT value of the float: num / 2^k = num * 5^k / 10^k
        k = den.bit_length() - 1
        return {'m': num * 5 ** k, 'e': k}
    return {'m': int(v), 'e': 0}


def model_switch(sw):
    if isinstance(sw, str) and sw.startswith('env:'):
        return sw[4:]
    return sw


# ------------------------------------------------------------------------------------------ running: callbacks
def run_callbacks_once(case, faulty_points):
    from deep.api import Deep
    from deep.config import ConfigService
    from deep.config.tracepoint_config import TracepointConfigService
    from deep.api.tracepoint.trigger import build_trigger
    from deep.api.tracepoint.tracepoint_config import MetricDefinition
    g = G()
    h = g['hosts']
    rec = fc_env.Recorder()
    classes = []
    for p in case['plugins']:
        fail = {cb: (case.get('shutdown_cls', 'exc') if cb == 'shutdown' else 'exc') for (q, cb) in faulty_points if q == p}
        classes.append(make_class(p, KIND_OF[p], rec, fail, case['orders'][p]))
    names = list(case['plugins'])
    off = case.get('off')
    if off:
        classes.append(make_class(off['name'], off['kind'], rec, {}, off['order']))
        names.insert(min(off['at'], len(names)), off['name'])
    modname = new_module(classes)
    custom = {'APP_ROOT': h.dir, 'POLL_TIMER': 5, 'PLUGINS': [f'{modname}.{p}' for p in names],
              'SERVICE_URL': 'fake:1', 'SERVICE_SECURE': 'False',
              'PLUGIN_OTELPLUGIN': 'False', 'PLUGIN_PYTHONPLUGIN': 'False', 'PLUGIN_PROMETHEUSPLUGIN': 'False',
              'PLUGIN_OTELMETRICS': 'False'}
    envkeys = apply_switches(custom, [(off['name'], off['switch'])]) if off else []
    out = {}
    marks = h.marks['calls']
    f = h.files['calls']
    trigs = [build_trigger('snap', f, marks['A'], {'fire_count': '-1', 'fire_period': '0', 'log_msg': 'leaf {n}'}, ['n'], []),
             build_trigger('met', f, marks['B'], {'fire_count': '-1', 'fire_period': '0', 'snapshot': 'no_collect'}, [],
                           [MetricDefinition('hits', 'COUNTER'), MetricDefinition('len', 'GAUGE', [], 'len(text)')]),
             build_trigger('span', f, marks['A'], {'fire_count': '-1', 'fire_period': '0', 'snapshot': 'no_collect',
                                                   'span': 'line'}, [], [])]
    old_thr = threading.gettrace()
    try:
        deep = Deep(ConfigService(custom, tracepoints=TracepointConfigService()))
        fc_env.SUBMIT['fn'] = deep.task_handler.submit_task     # for plugins that hand in a last task from shutdown()
        try:
            deep.start()
        except BaseException as e:      # noqa: B902
            out['start_raised'] = f'{type(e).__name__}: {e}'
        out['started'] = bool(deep.started)
        out['hooks'] = sys.gettrace() == deep.trigger_handler.trace_call
        out['loaded'] = [type(p).__name__ for p in deep.config.plugins]
        res_attrs = {}
        try:
            res_attrs = dict(deep.config.resource.attributes.items())
        except BaseException as e:      # noqa: B902
            out['resource_error'] = type(e).__name__
        out['resource'] = sorted(k for k in res_attrs if k.startswith('fc.'))
        if deep.started:
            deep.trigger_handler.new_config(trigs)
            snaps = []
            orig_push = deep.push.push_snapshot

            def push(s):
                snaps.append(sorted(k for k in s.attributes.keys() if k.startswith('deco.')))
                return orig_push(s)
            deep.push.push_snapshot = push
            futures = []
            orig_submit = deep.task_handler.submit_task

            def submit(task, *args):
                f = orig_submit(task, *args)
                futures.append(f)
                return f
            deep.task_handler.submit_task = submit
            host = {}
            try:
                host['ret'] = h.modules['calls'].main(case['inp'], lambda t: None)
            except BaseException as e:      # noqa: B902
                host['exc'] = type(e).__name__
            out['host'] = host
            out['trace_kept'] = sys.gettrace() == deep.trigger_handler.trace_call
            out['snapshots'] = snaps
            # deterministic drain: every future submit_task handed out must be done before anything is counted
            # (a timeout is an infrastructure error, never a verdict)
            import concurrent.futures as cf
            done, not_done = cf.wait(futures, timeout=120)
            if not_done:
                raise core.Infra(f'{len(not_done)} of {len(futures)} submitted sends did not finish within 120 s')
            ch = deep.grpc.channel
            out['submitted'] = len(futures)
            out['sent'] = len(ch.sent) if ch is not None else 0
        try:
            deep.shutdown()
        except BaseException as e:      # noqa: B902
            out['shutdown_raised'] = f'{type(e).__name__}: {e}'
        out['started_after'] = bool(deep.started)
        out['hooks_after'] = sys.gettrace() is None
    finally:
        clear_env(envkeys)
        sys.settrace(None)
        threading.settrace(old_thr)
        sys.modules.pop(modname, None)
    per = {}
    for name, cb, detail in rec.events:
        per.setdefault(name, {}).setdefault(cb, []).append(core.canon(detail))
    out['events'] = per
    out['order'] = [e[0] for e in rec.events if e[1] == 'shutdown']
    return out


def in_thread(fn, *a):
    box = {}

    def body():
        try:
            box['r'] = fn(*a)
        except core.Infra as e:
            box['infra'] = str(e)
        except BaseException as e:      # noqa: B902
            import traceback
            box['crash'] = f'{type(e).__name__}: {e}\n' + traceback.format_exc()[-1200:]
    t = threading.Thread(target=body)
    t.start()
    t.join(400)
    if t.is_alive():
        raise core.Infra('C20 case did not finish in 400 s')
    if 'infra' in box:
        raise core.Infra(box['infra'])
    if 'crash' in box:
        return {'raised': box['crash']}
    return box['r']


def run_impl(case):
    if case['kind'] == 'load':
        return run_load(case)
    g = G()
    key = core.canon({k: case.get(k) for k in ('plugins', 'orders', 'inp', 'off')})       # (fault-free: no shutdown_cls)
    if key not in g['ref']:
        g['ref'][key] = in_thread(run_callbacks_once, case, [])
    pts = [tuple(case['points'][i]) for i in case['faulty']]
    obs = in_thread(run_callbacks_once, case, pts) if pts else g['ref'][key]
    return {'run': obs, 'ref': g['ref'][key]}


# ------------------------------------------------------------------------------------------ judging
def oracle(case, obs):
    if 'raised' in obs:
        return ['loading plugins raised: ' + obs['raised']]
    v = []
    if case['kind'] == 'load':
        specs = load_specs(case)
        loadable = [s for s in specs if s[2] and s[3] and s[4] and usable(s[5])]
        exp = [s[0] for s in sorted(loadable, key=lambda s: sort_key(s[5]))]       # sorted() is stable
        if obs['loaded'] != exp:
            got = obs['loaded']
            if sorted(got) != sorted(exp):
                v.append(f'loaded {got}; the loadable configured plugins are {sorted(exp)}')
            else:
                v.append(f'loaded in the order {got}; ordered by order() (ties in configured order) is {exp}')
        return v
    run, ref = obs['run'], obs['ref']
    for o, what in ((run, 'with the failing callbacks'), (ref, 'without failures')):
        if 'raised' in o:
            return [f'the harness could not drive the agent {what}: {o["raised"]}']
    pts = [tuple(case['points'][i]) for i in case['faulty']]
    bad_plugins = {p for p, _ in pts}
    if 'start_raised' in run or not run['started'] or not run['hooks']:
        v.append(f'the agent did not start: {run.get("start_raised")} started={run["started"]} hooks={run["hooks"]}')
        return v
    if run['loaded'] != ref['loaded']:
        v.append(f'loaded plugins differ: {run["loaded"]} vs {ref["loaded"]}')
    exp_loaded = sorted(case['plugins'], key=lambda p: case['orders'][p])
    if ref['loaded'] != exp_loaded:
        v.append(f'loaded plugins {ref["loaded"]}; configured, active and loadable are {exp_loaded}')
    off = case.get('off')
    if off:
        for o, what in ((ref, 'fault-free run'), (run, 'run')):
            if off['name'] in o['loaded']:
                v.append(f'{what}: plugin {off["name"]} is switched off by configuration (PLUGIN_{off["name"].upper()}='
                         f'{off["switch"]!r}) or has an unusable order() ({off["order"]!r}) but was loaded: {o["loaded"]}')
            if o['events'].get(off['name']):
                v.append(f'{what}: callbacks of the switched-off plugin {off["name"]} ran: {sorted(o["events"][off["name"]])}')
            if any(('deco.' + off['name']) in sn for sn in o.get('snapshots', [])) or ('fc.' + off['name']) in o['resource']:
                v.append(f'{what}: the switched-off plugin {off["name"]} contributed to a snapshot / the resource')
    exp_res = [r for r in ref['resource'] if r[3:] not in {p for p, cb in pts if cb == 'resource'}]
    if run['resource'] != exp_res:
        v.append(f'resource attributes of the providers {run["resource"]}, expected {exp_res}')
    if run.get('host') != ref.get('host') or not run.get('trace_kept'):
        v.append(f'host program affected: {run.get("host")} vs {ref.get("host")}, trace kept {run.get("trace_kept")}')
    bad_deco = {'deco.' + p for p, cb in pts if cb == 'decorate'}
    exp_snaps = [[d for d in s if d not in bad_deco] for s in ref.get('snapshots', [])]
    if run.get('snapshots') != exp_snaps:
        v.append(f'snapshots / decorations {run.get("snapshots")}, expected {exp_snaps}')
    if run.get('sent') != ref.get('sent'):
        v.append(f'{run.get("sent")} snapshots delivered, {ref.get("sent")} without the failures')
    for p in case['plugins']:
        if p in bad_plugins:
            continue
        if run['events'].get(p) != ref['events'].get(p):
            v.append(f'plugin {p} (no failing callback) saw {run["events"].get(p)} instead of {ref["events"].get(p)}')
            break
    # a plugin with a failing callback still gets its OTHER callbacks, except those that depend on the failed one
    for p in bad_plugins:
        mine = {cb for q, cb in pts if q == p}
        for cb, evs in (ref['events'].get(p) or {}).items():
            if cb in mine or (cb == 'close' and 'create_span' in mine) or cb == 'construct':
                continue
            if (run['events'].get(p) or {}).get(cb) != evs:
                v.append(f'plugin {p}: callback {cb} saw {(run["events"].get(p) or {}).get(cb)} instead of {evs} '
                         f'(its failing callbacks are {sorted(mine)})')
                break
    if 'shutdown_raised' in run or run['started_after']:
        v.append(f'shutdown did not complete: {run.get("shutdown_raised")} started={run["started_after"]}')
    if sorted(run['order']) != sorted(ref['order']) or run['order'] != ref['order']:
        v.append(f'plugin shutdown calls {run["order"]}, expected {ref["order"]}')
    if not run['hooks_after']:
        v.append('trace function not removed by shutdown')
    return v


# function whose (last) loop calls the family's callback; substring of the call site that is the callback
# ("<first>" = the first call of the loop body); kind of plugin the loop iterates over
FAMILIES = {
    'resource': ('deep/api/deep.py:Deep.start', '.resource', 'resource'),
    'decorate': ('deep/processor/context/snapshot_action.py:DeferredSnapshotActionResult._decorate_snapshot',
                 '.decorate', 'decorator'),
    'metric': ('deep/processor/context/metric_action.py:MetricActionContext._process_action', 'getattr(', 'metric'),
    'create_span': ('deep/processor/context/span_action.py:SpanActionContext._process_action', '.create_span', 'span'),
    'close': ('deep/processor/context/span_action.py:SpanActionCallback.process', '.close', 'span'),
    'shutdown': ('deep/api/deep.py:Deep.shutdown', '<first>', None),
}


def family_members(case, obs, fam):
    """the loaded plugins the loop of this family iterates over, in loop order"""
    loaded = obs['ref']['loaded']
    kind = FAMILIES[fam][2]
    if kind is None:
        return loaded
    return [p for p in loaded if KIND_OF.get(p) == kind]


def model_request(case, obs):
    if 'raised' in obs:
        return None
    if case['kind'] == 'load':
        return {'op': 'load', 'specs': [{'id': s[1], 'import_ok': s[2], 'ctor_ok': s[3], 'switch': model_switch(s[6]),
                                         'order': model_order(s[5])}
                                        for s in load_specs(case)]}
    if 'raised' in obs['run'] or 'raised' in obs['ref']:
        return None
    if any(p not in KIND_OF for p in obs['ref'].get('loaded', [])):
        return None         # plugins the scenario did not configure were loaded: judged by the oracle only
    pts = [tuple(case['points'][i]) for i in case['faulty']]
    reqs = []
    for fam, (fn, site, _) in FAMILIES.items():
        loop = '<last>'
        members = family_members(case, obs, fam)
        off = 3 if fam == 'shutdown' else 0
        if fam == 'close':
            # the spans that exist: those whose creation did not fail
            members = [p for p in members if (p, 'create_span') not in pts]
        fcls = 'exc' if fam != 'shutdown' or case.get('shutdown_cls', 'exc') == 'exc' else 'base'
        faults = [{'site': site, 'loop': loop, 'iter': off + i, 'cls': fcls}
                  for i, p in enumerate(members) if (p, fam) in pts]
        reqs.append({'op': 'exec', 'fn': fn, 'loop': loop, 'iters': {loop: off + len(members)}, 'default_cond': True,
                     'faults': faults, 'family': fam, 'members': members})
    return {'op': 'batch', 'reqs': reqs}


def compare(case, obs, resp):
    if 'error' in resp:
        return ['model error: ' + resp['error']]
    if case['kind'] == 'load':
        names = {s[1]: s[0] for s in load_specs(case)}
        got = [names[i] for i in resp['loaded']]
        if resp.get('raises'):
            return [] if 'raised' in obs else ['model: load_plugins raises; implementation: it returned ' + str(obs.get('loaded'))]
        return [] if got == obs.get('loaded') else [f'loaded: model {got} vs implementation {obs.get("loaded")}']
    d = []
    run = obs['run']
    req = model_request(case, obs)
    for r, q in zip(resp['resps'], req['reqs']):
        fam, members = q['family'], q['members']
        off = 3 if fam == 'shutdown' else 0
        if 'error' in r:
            d.append(f'{fam}: model error {r["error"]}')
            continue
        entered = [e['i'] for e in r['trace'] if e['ev'] == 'iter']
        called = []
        cur = None
        for e in r['trace']:
            if e['ev'] == 'iter':
                cur = e['i']
            elif e['ev'] == 'call' and cur is not None and cur >= off and \
                    (e['site'] == r.get('first') if FAMILIES[fam][1] == '<first>' else
                     (FAMILIES[fam][1] in e['site'] and not e['site'].endswith(' getattr'))):
                called.append(members[cur - off])
        # implementation: which plugins had this callback invoked (once per loop execution: compare the set, in order)
        seen = []
        for p in members:
            n = len((run['events'].get(p) or {}).get('shutdown' if fam == 'shutdown' else
                                                     {'decorate': 'decorate', 'resource': 'resource', 'metric': 'metric',
                                                      'create_span': 'create_span', 'close': 'close'}[fam], []))
            if n:
                seen.append(p)
        if r['out'] != 'normal':
            d.append(f'{fam}: model loop ends with {r["out"]}')
        if entered != list(range(off + len(members))):
            d.append(f'{fam}: model entered iterations {entered} of {off + len(members)}')
        if called != seen:
            d.append(f'{fam}: callback invoked for: model {called} vs implementation {seen}')
    return d


def label(case, obs):
    if case['kind'] == 'load':
        n = len(obs.get('loaded', []))
        return f'load/{len(case["customs"])}custom/{n}loaded'
    return f'callbacks/{len(case["faulty"])}faulty'


def nontrivial(case, obs):
    if case['kind'] == 'load':
        specs = load_specs(case)
        return len(obs.get('loaded', [])) >= 2 and len(obs.get('loaded', [])) < len(specs)
    return len(case['faulty']) > 0


def shrink(case):
    if case['kind'] == 'load':
        cs = case['customs']
        for i in range(len(cs)):
            c = dict(case)
            c['customs'] = cs[:i] + cs[i + 1:]
            yield c
        if any(s is not None for s in case['builtin_switch']):
            c = dict(case)
            c['builtin_switch'] = [None] * len(BUILTIN)
            yield c
    else:
        f = case['faulty']
        for i in range(len(f)):
            c = dict(case)
            c['faulty'] = f[:i] + f[i + 1:]
            yield c
