"""C04 — rate limiting (fire_count, fire_period, window), sequential histories and 2-thread schedules."""
import itertools
import sys
import threading

INT_DIGIT_LIMIT = sys.get_int_max_str_digits()     # taken BEFORE any agent code is imported (the setting is process-wide)

import core
from rig import Rig, MockFrame

ID = 'C04'
EXTRACT = ['limiter', 'configsvc']     # configsvc: read-only, for the installation model's tie (Model/LimiterInstallSvc)
LEAN_TARGETS = ['DeepModel.Props.C04']
AUDIT = 'DeepModel/Audit/C04.lean'
DRIVER = 'DeepModel/Driver/C04.lean'
BUDGET = {'quick': 500, 'thorough': 40000}
TIME = {'quick': 100, 'thorough': 800}
RULE = ('histories: action kind (snapshot/log/metric/span) x fire_count text x fire_period text x window x up to 40 '
        'hits with scripted clock (boundary spacings: exactly period, +-1 ns, backwards steps) and per-hit condition '
        '(true/false/raising) and, in 30% of the histories, unrelated configuration changes (register/unregister of another tracepoint through the real TracepointConfigService) between hits, driven through the real TriggerHandler.trace_call; a labelled stream in which the service re-sends the tracepoint in a later UPDATE (compared with the per-installation run of the model; the reading of the statement is the known finding C04/update-resets-count); one tracepoint yielding sibling actions (snapshot+metrics+span, metric processor failing part-way: the hit still counts) judged per action; several tracepoints with different limits on one line (merged into one trigger or separate triggers) judged per tracepoint; schedules: all 20 interleavings of '
        '2 threads x (check, process, record) forced with gates inside the condition and a watch, plus 3-4 thread schedules (mutually exclusive ones that are not plain blocks: unstarted / unfinished threads, extra entries; and random interleavings), every thread with its own clock value (not in arrival order, boundary spacings around the period) and condition outcome, half of them with the clock READ as a gated region of its own; the time stamps of the collections are compared with the timed concurrent model (in order when check…record stay mutually exclusive, as a multiset otherwise) and judged against the sequential reference; lifecycle: one tracepoint from the service or registered in code under operation sequences (UPDATE responses with/without it through the real convert_response on protobuf messages, NO_CHANGE, other registrations, register/unregister) judged per installation by a reference written from the statement (an UPDATE that re-sends an installed service tracepoint is an instance of the known finding C04/update-resets-count only when the reset changes what may be collected; re-deliveries before the first hit are judged fully), 40% of them as ONE tracepoint with several actions (snapshot + two metrics [+ span]) judged and compared with the model per ACTION, 60% of the service ones with DIFFERENT budgets inside one trigger (the metric/span actions belong to a second tracepoint of the same line with its own fire_count/fire_period); the driver also compares, per single-action lifecycle case, the hand-written installation model with the regenerated TRANSLATION of the configuration service (ages_svc vs ages_model: model against model, NOT against /repo — the /repo comparison is `collected`). scale: a finite fire_count of 1025 / 1500 / 2048 / 5000 with 1.2x as many permitted hits (run-length form: n hits `step` ns apart from t0, also from 2^63), through the real LocationAction (can_trigger / record_triggered) or through trace_call with a log / metric action, totals compared with the model (op runScale) and judged: exactly fire_count collections; bounds: fire_count / fire_period / time stamps at 2^31, 2^32, 2^63, 2^64 (period*10^6 beyond 2^63 ns) as ordinary histories. A case is '
        'non-trivial when at least one hit is rejected by a limit and at least one collects (or, for schedules, when '
        'the threads overlap). Distinct = distinct canonical JSON of the case.')
TRUSTED = ['threading.Lock/Event, CPython GIL atomicity of one attribute store (regions check/process/record)',
           'Py.parseInt models int(str) for ASCII text']
ASSUMPTIONS = ['time stamps are > 0 (time.time_ns()); the ts = 0 sentinel case is proved (c04_sentinel_zero) and '
               'compared with the model but not judged by the oracle',
               'window values are integers in the unit of the trigger time stamp (ns)']

COUNTS = [None, '-1', '0', '1', '2', '3', '5', 'abc', '1.5', ' 3 ', '', '+2', '1_0', '-2',
          '9' * 4301, '0' * 4300 + '2', '0' * 4299 + '2']      # beyond / at CPython's 4300-digit limit on integer text
PERIODS = [None, '0', '1', '1000', '-5', 'x', '', '2', ' 10 ', '50']
KINDS = ['snapshot', 'log', 'metric', 'span']


def ref_int(text, default):
    if text is None:
        return default
    if isinstance(text, str) and INT_DIGIT_LIMIT and sum(c.isdigit() for c in text) > INT_DIGIT_LIMIT:
        return default          # integer text beyond the interpreter's digit limit is unparsable (ValueError)
    try:
        return int(text)
    except ValueError:
        return default


def reference(case):
    """reference limiter written from the statement; returns expected collected time stamps."""
    cnt = ref_int(case['cfg'].get('fire_count'), 1)
    per = ref_int(case['cfg'].get('fire_period'), 1000)
    ws = case['cfg'].get('window_start') or 0
    we = case['cfg'].get('window_end') or 0
    made, last, out = 0, None, []
    for h in case['hits']:
        if 'op' in h:
            continue
        ts = h['ts']
        ok = (cnt == -1 or made < cnt)
        ok = ok and (ws <= 0 or ws <= ts) and (we <= 0 or ts <= we)
        ok = ok and (last is None or ts - last >= per * 1_000_000)
        if ok and h['cond'] == 'true':
            out.append(ts)
            made += 1
            last = ts
    return out


# --------------------------------------------------------------------------------------- generation
def gen_history(rng, kind=None, fixed=None):
    cfg = {}
    fc = rng.choice(COUNTS)
    fp = rng.choice(PERIODS)
    if fixed:
        fc, fp = fixed[0], fixed[1]
    if fc is not None:
        cfg['fire_count'] = fc
    if fp is not None:
        cfg['fire_period'] = fp
    per = ref_int(fp, 1000)
    step = max(abs(per), 1) * 1_000_000
    n = rng.randint(1, 40)
    ts = rng.randint(1, 10 ** 6) if not fixed else fixed[2]
    hits = []
    for _ in range(n):
        r = rng.random()
        if r < 0.25:
            ts += step
        elif r < 0.40:
            ts += step - 1
        elif r < 0.55:
            ts += step + 1
        elif r < 0.70:
            ts += rng.randint(0, step // 2 + 1)
        elif r < 0.80:
            ts = max(1, ts - rng.randint(0, step))
        else:
            ts += rng.randint(step, 3 * step)
        c = rng.random()
        hits.append({'ts': ts, 'cond': 'true' if c < 0.7 else ('false' if c < 0.87 else 'raise')})
    if rng.random() < 0.3:
        for _ in range(rng.randint(1, 3)):
            hits.insert(rng.randint(1, len(hits)), {'op': rng.choice(['register', 'register', 'unregister'])})
    case = {'kind': 'history', 'action': kind or rng.choice(KINDS), 'cfg': cfg, 'hits': hits, 'via': 'args'}
    w = rng.random()
    if w < 0.35:
        lo, hi = hits[0]['ts'], max(h['ts'] for h in hits if 'op' not in h)
        a = rng.randint(max(1, lo - 5), hi)
        b = rng.randint(a, hi + 5)
        mode = rng.choice(['both', 'start', 'end'])
        if mode != 'end':
            cfg['window_start'] = a
        if mode != 'start':
            cfg['window_end'] = b
        case['via'] = 'direct'       # windows are only settable on directly constructed actions
    elif w < 0.5:
        case['via'] = 'direct'
    return case


def all_schedules():
    return sorted(set(itertools.permutations([0, 0, 0, 1, 1, 1])))


def thread_clocks(rng, n, per):
    """clock values of n threads: NOT in the order of arrival; boundary spacings around the period"""
    step = max(abs(per), 1) * 1_000_000
    base = 10 ** 9
    vals = [base]
    for _ in range(n - 1):
        vals.append(vals[-1] + rng.choice([0, 1, step - 1, step, step + 1, 2 * step, rng.randint(0, 2 * step)]))
    if rng.random() < 0.5:
        rng.shuffle(vals)
    return vals


def mutex_schedule(rng, n):
    """a schedule that keeps check…record of the threads apart, but is not just blocks: threads that never run,
    threads left unfinished at the end, extra entries for finished threads"""
    order = list(range(n))
    rng.shuffle(order)
    if rng.random() < 0.3:
        order = order[:-1]
    sched = []
    for k, i in enumerate(order):
        steps = 3 if (k < len(order) - 1 or rng.random() < 0.6) else rng.choice([1, 2])
        for _ in range(steps):
            sched.append(i)
            if k and rng.random() < 0.3:
                sched.append(rng.choice(order[:k]))          # a finished thread: nothing happens
    return sched


def gen_schedule3(rng):
    n = rng.choice([3, 3, 4])
    fp = rng.choice(['0', '1', '1000'])
    r = rng.random()
    if r < 0.55:
        sched = mutex_schedule(rng, n)
    else:
        sched = [i for i in range(n) for _ in range(3)]
        rng.shuffle(sched)
    conds = [rng.random() < 0.8 for _ in range(n)]
    case = {'kind': 'schedule', 'cfg': {'fire_count': rng.choice(['1', '2', '3', '-1']), 'fire_period': fp},
            'tss': thread_clocks(rng, n, ref_int(fp, 1000)), 'conds': conds, 'sched': sched}
    if rng.random() < 0.5:
        # every thread READS ITS CLOCK first (a region of its own, in any order), then the schedule above: the check
        # order is unrelated to the order of the clock reads
        reads = [i for i in range(n) if i in sched]
        rng.shuffle(reads)
        k = rng.randint(0, len(reads))
        early, late = reads[:k], reads[k:]
        out = list(early)
        for i in sched:
            if i in late:
                late.remove(i)
                out.append(i)           # its clock read right before its first region
            out.append(i)
        case['sched'] = out
        case['clock_gate'] = True
    return case


BOUND_COUNTS = ['2147483647', '2147483648', '4294967296', '9223372036854775807', '9223372036854775808', '1024', '1025']
BOUND_PERIODS = ['2147483648', '4294967296', '9223372036855', '9223372036854775808', '18446744073709552', '0', '1']
BOUND_BASES = [2 ** 31 - 5, 2 ** 32 - 5, 2 ** 63 - 5, 2 ** 64 - 5, 2 ** 63 + 10 ** 15]


def gen_scale(rng):
    """only at scale: a finite fire_count ABOVE a thousand must still be reached, and not before"""
    fc = rng.choice([1025, 1025, 1500, 2048, 5000])
    return {'kind': 'scale', 'cfg': {'fire_count': str(fc), 'fire_period': rng.choice(['0', '0', '1'])},
            'n': int(fc * 1.2) + rng.randint(0, 7), 't0': rng.choice([1, 10 ** 9, 2 ** 63]),
            'step': rng.choice([1_000_000, 1_000_001, 5_000_000]),
            'action': rng.choice(['log', 'metric']),
            'through': 'handler' if fc <= 1500 and rng.random() < 0.5 else 'action'}


def gen_bounds(rng):
    """count / period / time stamps at the numeric boundaries (2^31, 2^32, 2^63, 2^64; period*10^6 beyond 2^63 ns)"""
    c = gen_history(rng, fixed=(rng.choice(BOUND_COUNTS + [None, '-1', '2']), rng.choice(BOUND_PERIODS), rng.choice(BOUND_BASES)))
    c['hits'] = [h for h in c['hits'] if 'op' not in h][:12]
    return c


def gen_lifecycle(rng):
    """one tracepoint (from the service or registered in code) among configuration changes"""
    base = gen_history(rng)
    hits = [h for h in base['hits'] if 'op' not in h]
    origin = rng.choice(['service', 'code'])
    cfg = {k: v for k, v in base['cfg'].items() if k in ('fire_count', 'fire_period')}
    ops, installed = [], False
    if rng.random() < 0.85:
        ops.append({'op': 'update', 'present': True} if origin == 'service' else {'op': 'register'})
        installed = True
    for h in hits:
        r = rng.random()
        if r < 0.30:
            kind = rng.choice(['update', 'update', 'no_change', 'other_custom', 'own'])
            if kind == 'update':
                ops.append({'op': 'update', 'present': rng.random() < 0.6})
                if origin == 'service':
                    installed = ops[-1]['present']
            elif kind == 'own' and origin == 'code':
                # never a second registration while registered: that would be ANOTHER tracepoint on the same line
                ops.append({'op': 'unregister'} if installed or rng.random() < 0.2 else {'op': 'register'})
                installed = ops[-1]['op'] == 'register'
            elif kind != 'own':
                ops.append({'op': kind})
        ops.append({'op': 'hit', 'ts': h['ts'], 'cond': h['cond']})
    if installed and origin == 'service' and rng.random() < 0.35:
        # re-delivered BEFORE any hit: whether a re-delivery resets the limits cannot matter, so the case is judged fully
        ops[1:1] = [{'op': rng.choice(['no_change', 'other_custom'])}] * rng.choice([0, 1]) + [{'op': 'update', 'present': True}]
    case = {'kind': 'lifecycle', 'origin': origin, 'action': base['action'], 'cfg': cfg, 'ops': ops}
    if rng.random() < 0.3:
        # the hand-over to the trigger handler as an event of its own (the pool worker running update_listeners): at once
        # after each configuration operation, or late / batched (hits in between go to the OLD configuration)
        at_once = rng.random() < 0.4
        out = []
        for o in ops:
            out.append(o)
            if o['op'] != 'hit' and (at_once or rng.random() < 0.5):
                out.append({'op': 'applied'})
        case['ops'] = out
        case['delayed'] = True
        return case
    if rng.random() < 0.4:
        # ONE tracepoint, several actions (snapshot + two metrics [+ span]): each action has its own budget
        case['action'] = 'snapshot'
        case['multi'] = ['snapshot', 'metric'] + (['span'] if rng.random() < 0.6 else [])
        if origin == 'service' and rng.random() < 0.6:
            # DIFFERENT budgets inside one trigger: the metric (+ span) actions belong to a second tracepoint of the same
            # line with its own fire_count / fire_period; both tracepoints are in (or out of) every UPDATE together
            cfg2 = {}
            fc, fp = rng.choice(COUNTS[:14]), rng.choice(PERIODS)
            if fc is not None:
                cfg2['fire_count'] = fc
            if fp is not None:
                cfg2['fire_period'] = fp
            case['cfg2'] = cfg2
    return case


def gen(rng, tier):
    scheds = all_schedules()
    k = 0
    while True:
        k += 1
        if k % 12 == 0:
            s = scheds[(k // 12) % len(scheds)]
            fp = rng.choice(['0', '1', '1000'])
            yield {'kind': 'schedule', 'cfg': {'fire_count': rng.choice(['1', '2', '-1']), 'fire_period': fp},
                   'tss': thread_clocks(rng, 2, ref_int(fp, 1000)), 'conds': [rng.random() < 0.85, rng.random() < 0.85],
                   'sched': list(s)}
        elif k % 12 == 6:
            yield gen_schedule3(rng)
        elif k % 12 in (2, 8):
            yield gen_lifecycle(rng)
        elif k % 120 in (10, 70):
            yield gen_scale(rng)
        elif k % 24 == 22:
            yield gen_bounds(rng)
        elif k % 12 == 3:
            # several tracepoints on one line, each with its own limits (merged into one trigger, or separate triggers)
            a, b = gen_history(rng, 'snapshot'), gen_history(rng, 'snapshot')
            cfgs = [{kk: v for kk, v in c['cfg'].items() if kk in ('fire_count', 'fire_period')} for c in (a, b)]
            if rng.random() < 0.3:
                cfgs.append({'fire_count': rng.choice(['-1', '1', '2']), 'fire_period': rng.choice(['0', '100', '1000'])})
            yield {'kind': 'multi', 'cfgs': cfgs, 'hits': [h for h in a['hits'] if 'op' not in h],
                   'merged': rng.random() < 0.5}
        elif k % 12 == 9:
            # ONE tracepoint that yields several actions (snapshot + metrics + span): each action has its own budget;
            # a processing step that fails part-way still counts as that hit's collection
            a = gen_history(rng, 'snapshot')
            cfg = {kk: v for kk, v in a['cfg'].items() if kk in ('fire_count', 'fire_period')}
            hits = [h for h in a['hits'] if 'op' not in h]
            yield {'kind': 'siblings', 'cfg': cfg, 'hits': hits, 'span': rng.random() < 0.6,
                   'metric_fail_at': sorted(rng.sample(range(0, 2 * len(hits) + 2), rng.randint(0, 3))),
                   'bad_metric': rng.random() < 0.4}
        elif k % 24 == 18:
            # the service re-sends the tracepoint in a later UPDATE (known finding C04/update-resets-count):
            # compared with the model (which restarts the statistics), judged by the statement (which does not)
            a = gen_history(rng)
            hits = [h for h in a['hits'] if 'op' not in h]
            for _ in range(rng.randint(1, 2)):
                hits.insert(rng.randint(1, len(hits)), {'op': 'resend'})
            a['hits'] = hits
            yield a
        elif tier == 'thorough' and k % 12 == 7:
            n = rng.choice([3, 4])
            if rng.random() < 0.4:          # serial blocks in a random thread order
                order = list(range(n))
                rng.shuffle(order)
                sched = [i for i in order for _ in range(3)]
            else:
                sched = [i for i in range(n) for _ in range(3)]
                rng.shuffle(sched)
            yield {'kind': 'schedule', 'cfg': {'fire_count': rng.choice(['1', '2', '3', '-1']),
                                               'fire_period': rng.choice(['0', '1000'])},
                   'tss': [10 ** 9 + rng.choice([j, j * 2 * 10 ** 9]) for j in range(n)], 'sched': sched}
        else:
            yield gen_history(rng)


def corpus():
    return [
        {'kind': 'history', 'action': 'snapshot', 'cfg': {'fire_count': '2', 'fire_period': '1'}, 'via': 'args',
         'hits': [{'ts': 10, 'cond': 'true'}, {'ts': 500000, 'cond': 'true'}, {'ts': 1000010, 'cond': 'false'},
                  {'ts': 1000011, 'cond': 'true'}, {'ts': 9000000, 'cond': 'true'}]},
        {'kind': 'history', 'action': 'log', 'cfg': {'fire_count': '-1', 'fire_period': '1000'}, 'via': 'args',
         'hits': [{'ts': 1, 'cond': 'true'}, {'ts': 10 ** 9, 'cond': 'true'}, {'ts': 10 ** 9 + 1, 'cond': 'true'},
                  {'ts': 2 * 10 ** 9, 'cond': 'true'}]},
        # the sentinel: compared with the model, not judged (ASSUMPTIONS)
        {'kind': 'history', 'action': 'log', 'cfg': {'fire_count': '-1', 'fire_period': '1000'}, 'via': 'args',
         'hits': [{'ts': 0, 'cond': 'true'}, {'ts': 5, 'cond': 'true'}], 'no_oracle': True},
        {'kind': 'schedule', 'cfg': {'fire_count': '1', 'fire_period': '1000'}, 'tss': [10 ** 9, 10 ** 9 + 1],
         'sched': [0, 0, 0, 1, 1, 1]},
        # seeded C04-M: a fire_count above 1024 is reached exactly
        {'kind': 'scale', 'cfg': {'fire_count': '1025', 'fire_period': '0'}, 'n': 1100, 't0': 1, 'step': 1_000_000,
         'action': 'log', 'through': 'action'},
        {'kind': 'scale', 'cfg': {'fire_count': '1030', 'fire_period': '1'}, 'n': 1040, 't0': 2 ** 63, 'step': 1_000_000,
         'action': 'log', 'through': 'handler'},
        # a registered tracepoint keeps its limits across UPDATE responses; unregistering and registering again starts afresh
        {'kind': 'lifecycle', 'origin': 'code', 'action': 'snapshot', 'cfg': {'fire_count': '1', 'fire_period': '0'},
         'ops': [{'op': 'hit', 'ts': 5, 'cond': 'true'}, {'op': 'register'}, {'op': 'hit', 'ts': 10, 'cond': 'true'},
                 {'op': 'update', 'present': True}, {'op': 'hit', 'ts': 20, 'cond': 'true'}, {'op': 'unregister'},
                 {'op': 'hit', 'ts': 30, 'cond': 'true'}, {'op': 'register'}, {'op': 'hit', 'ts': 40, 'cond': 'true'},
                 {'op': 'hit', 'ts': 50, 'cond': 'true'}]},
        # snapshot + metrics + span of one tracepoint, delivered twice before the first hit: every action has its own budget
        {'kind': 'lifecycle', 'origin': 'service', 'action': 'snapshot', 'multi': ['snapshot', 'metric', 'span'],
         'cfg': {'fire_period': '0'},
         'ops': [{'op': 'update', 'present': True}, {'op': 'update', 'present': True},
                 {'op': 'hit', 'ts': 10, 'cond': 'true'}, {'op': 'hit', 'ts': 20, 'cond': 'true'}]},
        # a service tracepoint: removed by an UPDATE without it, NO_CHANGE and other registrations do not reset it
        {'kind': 'lifecycle', 'origin': 'service', 'action': 'log', 'cfg': {'fire_count': '2', 'fire_period': '0'},
         'ops': [{'op': 'update', 'present': True}, {'op': 'hit', 'ts': 10, 'cond': 'true'}, {'op': 'no_change'},
                 {'op': 'other_custom'}, {'op': 'hit', 'ts': 20, 'cond': 'true'}, {'op': 'hit', 'ts': 30, 'cond': 'true'},
                 {'op': 'update', 'present': False}, {'op': 'hit', 'ts': 40, 'cond': 'true'},
                 {'op': 'update', 'present': True}, {'op': 'hit', 'ts': 50, 'cond': 'true'}]},
    ]


def known_replays():
    return [
        ('C04/2-threads-check-check-record-record',
         'two threads pass the limit check of one fire_count=1 action before either records: 2 collections',
         {'kind': 'schedule', 'cfg': {'fire_count': '1', 'fire_period': '1000'}, 'tss': [10 ** 9, 10 ** 9 + 1],
          'sched': [0, 1, 0, 1, 0, 1]}),
        ('C04/window-args-dropped',
         'window_start/window_end given as tracepoint args are never copied into the action: collected outside window',
         {'kind': 'history', 'action': 'snapshot', 'via': 'args',
          'cfg': {'fire_count': '1', 'window_end': 5, 'window_in_args': True},
          'hits': [{'ts': 1000, 'cond': 'true'}]}),
        ('C04/update-resets-count',
         'a fire_count=1 tracepoint that is still contained in the next UPDATE response collects again: every UPDATE '
         'rebuilds every tracepoint with fresh statistics',
         {'kind': 'history', 'action': 'snapshot', 'via': 'args', 'cfg': {'fire_count': '1', 'fire_period': '0'},
          'hits': [{'ts': 10, 'cond': 'true'}, {'ts': 20, 'cond': 'true'}, {'op': 'resend'}, {'ts': 30, 'cond': 'true'}]}),
    ]


# --------------------------------------------------------------------------------------- implementation
def make_action(rig, case):
    from deep.api.tracepoint.trigger import build_trigger, LocationAction, Trigger, LineLocation, Location
    from deep.api.tracepoint.tracepoint_config import MetricDefinition
    cfg = case['cfg']
    kind = case.get('action', 'snapshot')
    args = {'condition': 'cond()'}
    for k in ('fire_count', 'fire_period'):
        if k in cfg:
            args[k] = cfg[k]
    if cfg.get('window_in_args'):
        for k in ('window_start', 'window_end'):
            if k in cfg:
                args[k] = str(cfg[k])
    metrics = []
    if kind == 'log':
        args['snapshot'] = 'no_collect'
        args['log_msg'] = 'hit'
    elif kind == 'metric':
        args['snapshot'] = 'no_collect'
        metrics = [MetricDefinition('m', 'COUNTER')]
    elif kind == 'span':
        args['snapshot'] = 'no_collect'
        args['span'] = 'line'
    else:
        args['frame_type'] = 'no_frame'
    watches = case.get('watches', [])
    trig = build_trigger('tp1', 'host.py', 7, args, watches, metrics)
    if case.get('via') == 'direct':
        acts = []
        for a in trig.actions:
            c = dict(a.config)
            if 'window_start' in cfg:
                c['window_start'] = cfg['window_start']
            if 'window_end' in cfg:
                c['window_end'] = cfg['window_end']
            acts.append(LocationAction(a.id, a.condition, c, a.action_type))
        trig = Trigger(LineLocation('host.py', 7, Location.Position.START), acts)
    return trig


def run_history(case):
    rig = Rig(metric=True, span=True)
    try:
        trig = make_action(rig, case)
        rig.install_via_service([trig])
        regs = []
        collected = []
        state = {'cond': 'true'}

        def cond():
            if state['cond'] == 'raise':
                raise ValueError('condition fails')
            return state['cond'] == 'true'
        for h in case['hits']:
            if 'op' in h:
                # an unrelated configuration change while the tracepoint stays installed
                if h['op'] == 'resend':
                    # an UPDATE response that still contains this tracepoint: the agent rebuilds it
                    resent = getattr(rig, '_resent', 1) + 1
                    rig._resent = resent
                    rig.install_via_service([make_action(rig, case)], new_hash='h%d' % resent)
                elif h['op'] == 'register':
                    regs.append(rig.config.tracepoints.add_custom('elsewhere.py', 3, {}, [], []))
                elif regs:
                    rig.config.tracepoints.remove_custom(regs.pop())
                continue
            state['cond'] = h['cond']
            rig.clock = h['ts']
            before = rig.effect_count()
            frame = MockFrame('/app/host.py', 'fn', 7, {'cond': cond, 'x': 1})
            try:
                rig.handler.trace_call(frame, 'line', None)
                # the callbacks of a line span close at the next line event of the function: give it one
                rig.handler.trace_call(MockFrame('/app/host.py', 'fn', 8, {'cond': cond, 'x': 1}), 'line', None)
            except BaseException as e:      # noqa: B902 — the agent must not raise; report it
                return {'raised': f'{type(e).__name__}: {e}', 'collected': collected}
            if rig.effect_count() > before:
                collected.append(h['ts'])
        return {'collected': collected}
    finally:
        rig.close()


class GateRig(Rig):
    """the scripted clock can also be a gate: a thread blocks INSIDE its `time_ns()` call (the clock read of
    TriggerContext, before the limit check) until the driver releases it — the clock read becomes a region of its own"""

    def _now(self):
        g = getattr(self._tls, 'clock_gate', None)
        if g is not None:
            self._tls.clock_gate = None
            g()
        return super()._now()


class GatedThread:
    """runs one trace_call on its own thread; the condition and a watch are gates the driver releases."""

    def __init__(self, rig, idx, ts, cond=True):
        self.rig, self.idx, self.ts, self.cond = rig, idx, ts, cond
        self.arrived = threading.Semaphore(0)     # signalled on each gate arrival and on finish
        self.release = [threading.Event(), threading.Event(), threading.Event()]
        self.clock_gate = False
        self.at = -1                              # gate currently blocked at
        self.finished = False
        self.error = None
        self.thread = None

    def gate(self, k):
        self.at = k
        self.arrived.release()
        if not self.release[k].wait(20):
            raise TimeoutError('gate %d not released' % k)
        return self.cond if k == 0 else True

    def body(self):
        try:
            self.rig.set_thread_clock(self.ts)
            if self.clock_gate:
                self.rig._tls.clock_gate = lambda: self.gate(2)
            frame = MockFrame('/app/host.py', 'fn', 7, {'cond': lambda: self.gate(0), 'g2': lambda: self.gate(1)})
            self.rig.handler.trace_call(frame, 'line', None)
        except BaseException as e:  # noqa: B902
            self.error = f'{type(e).__name__}: {e}'
        finally:
            self.finished = True
            self.at = -1
            self.arrived.release()

    def advance(self):
        """run this thread to its next gate (or to completion). no-op when finished."""
        if self.finished:
            return
        if self.thread is None:
            self.thread = threading.Thread(target=self.body, daemon=True)
            self.thread.start()
        else:
            self.release[self.at].set()
        if not self.arrived.acquire(timeout=20):
            raise core.Infra('schedule driver: thread did not reach the next gate in 20 s')


def run_schedule(case):
    rig = GateRig()
    try:
        c = dict(case)
        c['action'] = 'snapshot'
        c['watches'] = ['g2()']
        trig = make_action(rig, c)
        rig.install([trig])
        conds = case.get('conds') or [True] * len(case['tss'])
        thrs = [GatedThread(rig, i, ts, conds[i]) for i, ts in enumerate(case['tss'])]
        for t in thrs:
            t.clock_gate = bool(case.get('clock_gate'))
        for i in case['sched']:
            thrs[i].advance()
        for t in thrs:                       # drain whatever the schedule left unfinished
            while not t.finished and t.thread is not None:
                t.advance()
        for t in thrs:
            if t.thread is not None:
                t.thread.join(20)
        errs = [t.error for t in thrs if t.error]
        # the time stamps of the collections, in the order they were made (each thread reads ITS clock value)
        return {'collected': len(rig.push.pushed), 'collected_ts': [sn.ts_nanos for sn in rig.push.pushed],
                'errors': errs}
    finally:
        rig.close()


def run_multi(case):
    from deep.api.tracepoint.trigger import build_trigger
    rig = Rig()
    try:
        trigs = []
        for i, cfg in enumerate(case['cfgs']):
            args = {'condition': 'cond()', 'frame_type': 'no_frame'}
            args.update(cfg)
            trigs.append(build_trigger('tp%d' % i, 'host.py', 7, args, [], []))
        if case.get('merged'):
            for t in trigs[1:]:
                trigs[0].merge_actions(t.actions)
            trigs = trigs[:1]
        rig.install_via_service(trigs)
        state = {'cond': 'true'}

        def cond():
            if state['cond'] == 'raise':
                raise ValueError('condition fails')
            return state['cond'] == 'true'
        collected = [[] for _ in case['cfgs']]
        for h in case['hits']:
            state['cond'] = h['cond']
            rig.clock = h['ts']
            n0 = len(rig.push.pushed)
            try:
                rig.handler.trace_call(MockFrame('/app/host.py', 'fn', 7, {'cond': cond}), 'line', None)
            except BaseException as e:  # noqa: B902
                return {'raised': f'{type(e).__name__}: {e}', 'collected': collected}
            for s in rig.push.pushed[n0:]:
                collected[int(s.tracepoint.id[2:])].append(h['ts'])
        return {'collected': collected}
    finally:
        rig.close()


def run_siblings(case):
    from deep.api.tracepoint.trigger import build_trigger
    from deep.api.tracepoint.tracepoint_config import MetricDefinition
    import rig as rigmod
    fail_at = set(case.get('metric_fail_at', []))
    r = Rig(span=case.get('span', False))
    try:
        metric = rigmod.RecMetric(fail=lambda op, n: n in fail_at)
        r.config.plugins = list(r.config.plugins) + [metric]
        args = {'condition': 'cond()', 'frame_type': 'no_frame'}
        args.update(case['cfg'])
        if case.get('span'):
            args['span'] = 'line'
        m2 = MetricDefinition('m2', 'GAUGE')
        if case.get('bad_metric'):
            # a malformed definition: processing the action fails AFTER the first metric went out
            m2 = MetricDefinition('m2', 'GAUGE', labels=[('a', 'b')])
        trig = build_trigger('tp0', 'host.py', 7, args, [], [MetricDefinition('m1', 'COUNTER'), m2])
        r.install_via_service([trig])
        state = {'cond': 'true'}

        def cond():
            if state['cond'] == 'raise':
                raise ValueError('condition fails')
            return state['cond'] == 'true'
        kinds = ['snapshot', 'metric'] + (['span'] if case.get('span') else [])
        collected = {k: [] for k in kinds}
        for h in case['hits']:
            state['cond'] = h['cond']
            r.clock = h['ts']
            before = {'snapshot': len(r.push.pushed), 'metric': len(metric.attempts),
                      'span': len([e for e in r.span.events if e[0] == 'open']) if r.span else 0}
            try:
                r.handler.trace_call(MockFrame('/app/host.py', 'fn', 7, {'cond': cond}), 'line', None)
                r.handler.trace_call(MockFrame('/app/host.py', 'fn', 8, {'cond': cond}), 'line', None)
            except BaseException as e:  # noqa: B902
                return {'raised': f'{type(e).__name__}: {e}', 'collected': collected}
            after = {'snapshot': len(r.push.pushed), 'metric': len(metric.attempts),
                     'span': len([e for e in r.span.events if e[0] == 'open']) if r.span else 0}
            for k in kinds:
                if after[k] > before[k]:
                    collected[k].append(h['ts'])
        return {'collected': collected}
    finally:
        r.close()


def lifecycle_args(case):
    kind = case.get('action', 'snapshot')
    args = {'condition': 'cond()'}
    for k in ('fire_count', 'fire_period'):
        if k in case['cfg']:
            args[k] = case['cfg'][k]
    if case.get('multi'):
        args['frame_type'] = 'no_frame'
        if 'span' in case['multi']:
            args['span'] = 'line'
        return args
    if kind == 'log':
        args.update(snapshot='no_collect', log_msg='hit')
    elif kind == 'metric':
        args.update(snapshot='no_collect')
    elif kind == 'span':
        args.update(snapshot='no_collect', span='line')
    else:
        args['frame_type'] = 'no_frame'
    return args


def run_lifecycle(case):
    """the real TracepointConfigService + TriggerHandler: UPDATE responses go through the real convert_response on
    protobuf messages (as LongPoll.poll does), NO_CHANGE through update_no_change, registrations through
    add_custom / remove_custom"""
    import deep.grpc as g
    from rig import SyncTasks
    from deep.api.tracepoint.tracepoint_config import MetricDefinition
    from deepproto.proto.tracepoint.v1.tracepoint_pb2 import TracePointConfig, Metric
    rig = Rig(metric=True, span=True)
    try:
        svc = rig.config.tracepoints
        rig.tasks = SyncTasks()
        queued = []
        if case.get('delayed'):
            class Deferred:
                """the pool: submitted tasks wait until the case says a worker runs them (`applied`)"""

                def submit_task(self, fn, *a):
                    queued.append((fn, a))

                    class Fut:
                        def add_done_callback(self, cb):
                            pass
                    return Fut()
            rig.tasks = Deferred()
        svc.set_task_handler(rig.tasks)
        args = lifecycle_args(case)
        multi = case.get('multi')
        is_metric = case.get('action') == 'metric' or bool(multi)

        def counts():
            return {'snapshot': len(rig.push.pushed), 'metric': len(rig.metric.calls),
                    'span': len([e for e in rig.span.events if e[0] == 'open'])}
        per_kind = {k: [] for k in (multi or [])}

        def response(present, n):
            tps = [TracePointConfig(ID='other%d' % n, path='elsewhere.py', line_number=3, args={})] if n % 2 else []
            if present and case['origin'] == 'service' and 'cfg2' in case:
                a1 = {k2: v2 for k2, v2 in args.items() if k2 != 'span'}
                a2 = {'condition': 'cond()', 'snapshot': 'no_collect'}
                a2.update(case['cfg2'])
                if 'span' in multi:
                    a2['span'] = 'line'
                both = [TracePointConfig(ID='tp1', path='host.py', line_number=7, args=a1),
                        TracePointConfig(ID='tp2', path='host.py', line_number=7, args=a2,
                                         metrics=[Metric(name='m', type=0), Metric(name='m2', type=1)])]
                if n % 2:
                    both.reverse()
                tps[n % (len(tps) + 1):n % (len(tps) + 1)] = both
            elif present and case['origin'] == 'service':
                tps.insert(n % (len(tps) + 1), TracePointConfig(
                    ID='tp1', path='host.py', line_number=7, args=args,
                    metrics=([Metric(name='m', type=0)] + ([Metric(name='m2', type=1)] if multi else [])) if is_metric else []))
            return [TracePointConfig.FromString(t.SerializeToString()) for t in tps]
        state = {'cond': 'true'}

        def cond():
            if state['cond'] == 'raise':
                raise ValueError('condition fails')
            return state['cond'] == 'true'
        collected, others, rid, n = [], [], None, 0
        for op in case['ops']:
            n += 1
            k = op['op']
            try:
                if k == 'applied':
                    while queued:
                        fn, a = queued.pop(0)
                        fn(*a)
                elif k == 'update':
                    svc.update_new_config(n, 'hash%d' % n, g.convert_response(response(op['present'], n)))
                elif k == 'no_change':
                    svc.update_no_change(n)
                elif k == 'other_custom':
                    if others and n % 3 == 0:
                        svc.remove_custom(others.pop())
                    else:
                        others.append(svc.add_custom('elsewhere.py', 9, {}, [], []))
                elif k == 'register':
                    rid = svc.add_custom('host.py', 7, dict(args), [],
                                         ([MetricDefinition('m', 'COUNTER')] +
                                          ([MetricDefinition('m2', 'GAUGE')] if multi else [])) if is_metric else [])
                elif k == 'unregister':
                    if rid is not None:
                        svc.remove_custom(rid)
                else:
                    state['cond'] = op['cond']
                    rig.clock = op['ts']
                    before, b4 = rig.effect_count(), counts()
                    loc = {'cond': cond, 'x': 1}
                    rig.handler.trace_call(MockFrame('/app/host.py', 'fn', 7, loc), 'line', None)
                    rig.handler.trace_call(MockFrame('/app/host.py', 'fn', 8, loc), 'line', None)
                    if rig.effect_count() > before:
                        collected.append(op['ts'])
                    after = counts()
                    for kk in per_kind:
                        if after[kk] > b4[kk]:
                            per_kind[kk].append(op['ts'])
            except BaseException as e:      # noqa: B902
                return {'raised': f'{k}: {type(e).__name__}: {e}', 'collected': collected}
        return {'collected': per_kind} if multi else {'collected': collected}
    finally:
        rig.close()


def lifecycle_reference(case, per_tracepoint=True):
    """the statement: while it stays installed, the reference limiter; `per_tracepoint`: an UPDATE response that still
    contains an installed service tracepoint leaves it installed (the statement's reading)"""
    cnt = ref_int(case['cfg'].get('fire_count'), 1)
    per = ref_int(case['cfg'].get('fire_period'), 1000)
    installed, made, last, out = False, 0, None, []
    for op in case['ops']:
        k = op['op']
        fresh = False
        if case['origin'] == 'service' and k == 'update':
            fresh = op['present'] and not (installed and per_tracepoint)
            installed = op['present']
        elif case['origin'] == 'code' and k == 'register':
            fresh = not installed
            installed = True
        elif case['origin'] == 'code' and k == 'unregister':
            installed = False
        if fresh:
            made, last = 0, None
        if k == 'hit' and installed:
            ts = op['ts']
            if (cnt == -1 or made < cnt) and (last is None or ts - last >= per * 1_000_000) and op['cond'] == 'true':
                out.append(ts)
                made, last = made + 1, ts
    return out


def handed_over_at_once(case):
    ops = case['ops']
    for i, o in enumerate(ops):
        if o['op'] not in ('hit', 'applied') and not (i + 1 < len(ops) and ops[i + 1]['op'] == 'applied'):
            return False
    return True


def valid_lifecycle(case):
    """inside the generator's domain: a tracepoint registered in code is never registered again while registered (that
    would be a SECOND tracepoint on the same line, with its own budget)"""
    reg = False
    for op in case['ops']:
        if op['op'] == 'register':
            if reg and case['origin'] == 'code':
                return False
            reg = True
        elif op['op'] == 'unregister':
            reg = False
    return True


def resent_while_installed(case):
    if case['origin'] != 'service':
        return False
    installed = False
    for op in case['ops']:
        if op['op'] == 'update':
            if op['present'] and installed:
                return True
            installed = op['present']
    return False


def run_scale(case):
    """a long history: through the real LocationAction (can_trigger / record_triggered as ActionContext calls them) or
    through TriggerHandler.trace_call with a cheap action (log / metric); only totals are kept"""
    rig = Rig(metric=True)
    try:
        trig = make_action(rig, {'cfg': case['cfg'], 'action': case['action'], 'via': 'args'})
        n, t0, step = case['n'], case['t0'], case['step']
        count, first, last, rejected_at = 0, None, None, None
        try:
            if case['through'] == 'handler':
                rig.install_via_service([trig])
                loc = {'cond': lambda: True, 'x': 1}
                for k in range(n):
                    rig.clock = t0 + k * step
                    before = rig.effect_count()
                    rig.handler.trace_call(MockFrame('/app/host.py', 'fn', 7, loc), 'line', None)
                    if rig.effect_count() > before:
                        count, last = count + 1, rig.clock
                        first = rig.clock if first is None else first
                    elif rejected_at is None:
                        rejected_at = k
            else:
                act = trig.actions[0]
                for k in range(n):
                    ts = t0 + k * step
                    if act.can_trigger(ts):
                        act.record_triggered(ts)
                        count, last = count + 1, ts
                        first = ts if first is None else first
                    elif rejected_at is None:
                        rejected_at = k
        except BaseException as e:  # noqa: B902
            return {'raised': f'{type(e).__name__}: {e}', 'count': count}
        return {'count': count, 'first': first or 0, 'last': last or 0, 'rejected_at': rejected_at}
    finally:
        rig.close()


def run_impl(case):
    if case['kind'] == 'scale':
        return run_scale(case)
    if case['kind'] == 'lifecycle':
        return run_lifecycle(case)
    if case['kind'] == 'schedule':
        return run_schedule(case)
    if case['kind'] == 'multi':
        return run_multi(case)
    if case['kind'] == 'siblings':
        return run_siblings(case)
    return run_history(case)


# --------------------------------------------------------------------------------------- judging
def overlapping(case):
    """some thread performs its check while another is between its check and its record."""
    n = len(case['tss'])
    pos = {i: 0 for i in range(n)}
    for i in full_sched(case):
        if pos[i] == 0 and any(0 < pos[o] < 3 for o in range(n) if o != i):
            return True
        pos[i] += 1
    return False


def full_sched(case):
    """the schedule as driven: run_schedule lets every STARTED thread finish afterwards, in thread order (a started
    thread has run its check, so this adds no check region)"""
    sched = list(case['sched'])
    regions = 4 if case.get('clock_gate') else 3
    for i in range(len(case['tss'])):
        n = sched.count(i)
        if 0 < n < regions:
            sched += [i] * (regions - n)
    if case.get('clock_gate'):
        # the first entry of a thread is its clock read: the model is GIVEN the value read, the region is invisible to it
        seen, out = set(), []
        for i in sched:
            if i in seen:
                out.append(i)
            seen.add(i)
        sched = out
    return sched


def oracle(case, obs):
    if case.get('no_oracle'):
        return []
    v = []
    if case['kind'] == 'scale':
        if 'raised' in obs:
            return ['the agent raised: ' + obs['raised']]
        cnt, per = ref_int(case['cfg'].get('fire_count'), 1), ref_int(case['cfg'].get('fire_period'), 1000)
        # the hits are `step` ns apart with step >= period: every hit is permitted until the count is used up
        assert case['step'] >= per * 1_000_000
        want = case['n'] if cnt == -1 else min(max(cnt, 0), case['n'])
        if obs['count'] != want:
            v.append(f'{obs["count"]} collections over {case["n"]} permitted hits with fire_count={cnt} (fire_period={per} ms, '
                     f'hits {case["step"]} ns apart, through the {case["through"]}): exactly {want} are permitted '
                     f'(first rejected hit: #{obs.get("rejected_at")})')
        return v
    if case['kind'] == 'lifecycle':
        if 'raised' in obs:
            return ['the agent raised: ' + obs['raised']]
        if case.get('delayed') and not handed_over_at_once(case):
            return []          # what is installed WHEN is C12's; these cases are compared with the delayed model only
        exp = lifecycle_reference(case)
        if case.get('multi'):
            what = 'registered in code' if case['origin'] == 'code' else 'from the service'
            out = []
            for k, got in obs['collected'].items():
                cfg_k = case['cfg2'] if ('cfg2' in case and k != 'snapshot') else case['cfg']
                exp_k = lifecycle_reference(dict(case, cfg=cfg_k))
                if got != exp_k:
                    out.append(f'{k} action ({cfg_k}) in the trigger of the tracepoint(s) {what} (actions {case["multi"]}, '
                               f'snapshot budget {case["cfg"]}) over {[o["op"] for o in case["ops"] if o["op"] != "hit"]}: '
                               f'collected {got[:8]}.., while installed ITS OWN limits and the conditions permit exactly {exp_k[:8]}..')
            return out
        if obs['collected'] != exp:
            what = 'registered in code' if case['origin'] == 'code' else 'from the service'
            return [f'tracepoint {what} ({case["cfg"]}) over {[o["op"] for o in case["ops"] if o["op"] != "hit"]}: '
                    f'collected {obs["collected"][:8]}.., while installed its limits and conditions permit exactly {exp[:8]}..']
        return []
    if case['kind'] == 'siblings':
        if 'raised' in obs:
            return ['trace_call raised into the host: ' + obs['raised']]
        exp = reference({'cfg': case['cfg'], 'hits': case['hits']})
        for k, got in obs['collected'].items():
            if got != exp:
                v.append(f'{k} action of the tracepoint ({case["cfg"]}, metric processor failing at attempts '
                         f'{case.get("metric_fail_at")}): collected {got[:8]}.., its own limits and the conditions permit exactly {exp[:8]}..')
        return v
    if case['kind'] == 'multi':
        if 'raised' in obs:
            return ['trace_call raised into the host: ' + obs['raised']]
        for i, cfg in enumerate(case['cfgs']):
            exp = reference({'cfg': cfg, 'hits': case['hits']})
            if obs['collected'][i] != exp:
                v.append(f'tracepoint {i} of {len(case["cfgs"])} on the line ({cfg}): collected {obs["collected"][i][:8]}.., '
                         f'its own limits and the conditions permit exactly {exp[:8]}..')
        return v
    if case['kind'] == 'schedule':
        if obs.get('errors'):
            v.append('agent raised: %s' % obs['errors'])
        cnt = ref_int(case['cfg'].get('fire_count'), 1)
        per = ref_int(case['cfg'].get('fire_period'), 1000)
        if cnt != -1 and obs['collected'] > max(cnt, 0):
            v.append(f'{obs["collected"]} collections with fire_count={cnt}')
        tss = case['tss']
        conds = case.get('conds') or [True] * len(tss)
        got = obs.get('collected_ts', [])
        if per >= 0:
            for a, b in zip(got, got[1:]):
                if b - a < per * 1_000_000:
                    v.append(f'collections at {a} and {b} (in the order they were made) are less than fire_period={per} ms apart')
                    break
        if not overlapping(case):
            # serial: exactly the sequential reference over the threads' own clock values, in the order the threads ran
            order = []
            for i in full_sched(case):
                if i not in order:
                    order.append(i)
            exp = reference({'cfg': case['cfg'], 'hits': [{'ts': tss[i], 'cond': 'true' if conds[i] else 'false'}
                                                          for i in order]})
            if got != exp:
                v.append(f'threads {order} ran check…record one after the other with clock values '
                         f'{[tss[i] for i in order]}: collected at {got}, the sequential history permits exactly {exp}')
        return v
    if 'raised' in obs:
        return ['trace_call raised into the host: ' + obs['raised']]
    exp = reference(case)
    if obs['collected'] != exp:
        got = obs['collected']
        cnt = ref_int(case['cfg'].get('fire_count'), 1)
        per = ref_int(case['cfg'].get('fire_period'), 1000)
        if cnt != -1 and len(got) > max(cnt, 0):
            v.append(f'{len(got)} collections with fire_count={cnt}')
        if per >= 0:
            for a, b in zip(got, got[1:]):
                if b - a < per * 1_000_000:
                    v.append(f'collections at {a} and {b} are less than fire_period={per} ms apart')
                    break
        ws, we = case['cfg'].get('window_start') or 0, case['cfg'].get('window_end') or 0
        for t in got:
            if (ws > 0 and t < ws) or (we > 0 and t > we):
                v.append(f'collection at {t} outside window [{ws},{we}]')
                break
        if not v:
            v.append(f'collected {got[:8]}.. but the limits and conditions permit exactly {exp[:8]}..')
    return v


def known_finding(case, obs):
    if case['kind'] in ('multi', 'siblings', 'scale'):
        return None
    if case['kind'] == 'lifecycle':
        # an instance of the finding = a re-delivery whose reset of the limits changes what may be collected
        cfgs = [case['cfg']] + ([case['cfg2']] if 'cfg2' in case else [])
        return 'C04/update-resets-count' if (resent_while_installed(case) and any(
            lifecycle_reference(dict(case, cfg=cf), True) != lifecycle_reference(dict(case, cfg=cf), False)
            for cf in cfgs)) else None
    if case['kind'] == 'schedule' and overlapping(case):
        return 'C04/2-threads-check-check-record-record'
    if case['kind'] == 'history' and case['cfg'].get('window_in_args'):
        return 'C04/window-args-dropped'
    if case['kind'] == 'history' and any(h.get('op') == 'resend' for h in case['hits']):
        return 'C04/update-resets-count'
    return None


def model_request(case, obs):
    if case['kind'] == 'scale':
        return {'op': 'runScale', 'cfg': case['cfg'], 'n': case['n'], 't0': case['t0'], 'step': case['step']}
    if case['kind'] == 'lifecycle' and case.get('delayed'):
        return {'op': 'opsD', 'origin': case['origin'], 'cfg': case['cfg'],
                'ops': [dict(o, cond=o['cond'] == 'true') if o['op'] == 'hit' else o for o in case['ops']]}
    if case['kind'] == 'lifecycle' and case.get('multi'):
        return {'op': 'opsN', 'origin': case['origin'],
                'cfgs': [case['cfg2'] if ('cfg2' in case and k != 'snapshot') else case['cfg'] for k in case['multi']],
                'ops': [dict(o, cond=o['cond'] == 'true') if o['op'] == 'hit' else o for o in case['ops']]}
    if case['kind'] == 'lifecycle':
        return {'op': 'ops', 'origin': case['origin'], 'cfg': case['cfg'],
                'ops': [dict(o, cond=o['cond'] == 'true') if o['op'] == 'hit' else o for o in case['ops']]}
    if case['kind'] == 'siblings':
        return {'op': 'runN', 'cfgs': [case['cfg']] * len(obs.get('collected', {'a': 0})),
                'hits': [{'ts': h['ts'], 'cond': h['cond'] == 'true'} for h in case['hits']]}
    if case['kind'] == 'multi':
        return {'op': 'runN', 'cfgs': case['cfgs'],
                'hits': [{'ts': h['ts'], 'cond': h['cond'] == 'true'} for h in case['hits']]}
    cfg = {k: v for k, v in case['cfg'].items() if k in ('fire_count', 'fire_period')}
    if case['kind'] == 'schedule':
        conds = case.get('conds') or [True] * len(case['tss'])
        return {'op': 'concT', 'cfg': cfg, 'sched': full_sched(case),
                'hits': [{'ts': t, 'cond': bool(c)} for t, c in zip(case['tss'], conds)]}
    if not case['cfg'].get('window_in_args'):
        for k in ('window_start', 'window_end'):
            if k in case['cfg']:
                cfg[k] = case['cfg'][k]
    if any(h.get('op') == 'resend' for h in case['hits']):
        segs = [[]]
        for h in case['hits']:
            if h.get('op') == 'resend':
                segs.append([])
            elif 'op' not in h:
                segs[-1].append({'ts': h['ts'], 'cond': h['cond'] == 'true'})
        return {'op': 'runSeg', 'cfg': cfg, 'segs': segs}
    return {'op': 'run', 'cfg': cfg, 'hits': [{'ts': h['ts'], 'cond': h['cond'] == 'true'} for h in case['hits']
                                              if 'op' not in h]}


def compare(case, obs, resp):
    if 'error' in resp:
        return ['model error: ' + resp['error']]
    if 'raised' in obs:
        return ['implementation raised, model does not: ' + obs['raised']]
    if case['kind'] == 'lifecycle' and case.get('multi'):
        got = [obs['collected'][k] for k in case['multi']]
        if got != resp['collected']:
            return [f'collected per action {case["multi"]}: model {resp["collected"]} vs implementation {got}']
        return []
    if case['kind'] == 'siblings':
        got = [obs['collected'][k] for k in sorted(obs['collected'])]
        if sorted(map(tuple, resp['collected'])) != sorted(map(tuple, got)):
            return [f'collected per action: model {resp["collected"]} vs implementation {obs["collected"]}']
        return []
    if case['kind'] == 'scale':
        return [f'{f}: model {resp[f]} vs implementation {obs[f]}' for f in ('count', 'first', 'last') if resp[f] != obs[f]]
    if case['kind'] == 'lifecycle' and case.get('delayed'):
        d = []
        if resp['at_once'] != handed_over_at_once(case):
            d.append('model and harness disagree on whether every operation is handed over at once')
        if resp['collected'] != obs['collected']:
            d.append(f'collected (hand-over as events): model {resp["collected"]} vs implementation {obs["collected"]}')
        return d
    if case['kind'] == 'lifecycle' and not case.get('multi'):
        d = []
        if resp['ages_svc'] != resp['ages_model']:
            d.append(f'installation model vs the TRANSLATED configuration service: hits seen by the installed object '
                     f'{resp["ages_svc"]} (service) vs {resp["ages_model"]} (stepOp)')
        if resp['collected'] != obs['collected']:
            d.append(f'collected: model {resp["collected"]} vs implementation {obs["collected"]}')
        return d
    if case['kind'] == 'schedule':
        d = []
        got = obs.get('collected_ts', [])
        if not resp['mutex'] and not overlapping(case):
            d.append('model: the schedule breaks mutual exclusion of check…record; the harness drove it as serial')
        if resp['mutex']:
            # inside the discipline the collections are ordered: compare the time stamps in order
            if got != resp['collected']:
                d.append(f'collected time stamps: model {resp["collected"]} vs implementation {got}')
        elif sorted(got) != sorted(resp['collected']):
            # racing threads: the model pushes at its `proc` step, the gates release a thread's push together with
            # its record — same collections, order not comparable
            d.append(f'collected time stamps (as a multiset): model {resp["collected"]} vs implementation {got}')
        return d
    if resp['collected'] != obs['collected']:
        return [f'collected: model {resp["collected"]} vs implementation {obs["collected"]}']
    return []


def label(case, obs):
    if case['kind'] == 'scale':
        return 'scale/%s/%s/count-%s' % (case['through'], case['action'], case['cfg']['fire_count'])
    if case['kind'] == 'lifecycle':
        kinds = {o['op'] + ('+' if o.get('present') else '-') if o['op'] == 'update' else o['op'] for o in case['ops']}
        kinds.discard('hit')
        if case.get('delayed'):
            return 'lifecycle/%s/handover-%s' % (case['origin'], 'at-once' if handed_over_at_once(case) else 'late')
        return 'lifecycle/%s/%s/%s' % (case['origin'], ('+'.join(case['multi']) + ('/own-budgets' if 'cfg2' in case else ''))
                                       if case.get('multi') else case['action'],
                                       'resent' if resent_while_installed(case) else
                                       'reinstalled' if len([o for o in case['ops'] if o['op'] in ('register',) or
                                                             (o['op'] == 'update' and o['present'] and case['origin'] == 'service')]) > 1
                                       else 'one-installation')
    if case['kind'] == 'siblings':
        return 'siblings/%s/%s%s' % ('span' if case.get('span') else 'nospan', 'fault' if case.get('metric_fail_at') else 'nofault',
                                     '/badmetric' if case.get('bad_metric') else '')
    if case['kind'] == 'multi':
        return 'multi/%d/%s' % (len(case['cfgs']), 'merged' if case.get('merged') else 'separate')
    if case['kind'] == 'schedule':
        return 'schedule/%dthr/%s%s%s' % (len(case['tss']), 'overlap' if overlapping(case) else 'serial',
                                          '' if all(case.get('conds') or [True]) else '+condfalse',
                                          '+clockregion' if case.get('clock_gate') else '')
    n = len(obs.get('collected', []))
    hits = [h for h in case['hits'] if 'op' not in h]
    ops = '+resend' if any(h.get('op') == 'resend' for h in case['hits']) else '+cfgops' if len(hits) != len(case['hits']) else ''
    return f"{case['action']}/{case['via']}{ops}/" + ('none' if n == 0 else 'all' if n == len(hits) else 'some')


def nontrivial(case, obs):
    if case['kind'] == 'scale':
        return 0 < obs.get('count', 0) < case['n']
    if case['kind'] == 'lifecycle':
        hits = [o for o in case['ops'] if o['op'] == 'hit' and o['cond'] == 'true']
        got = obs.get('collected', [])
        got = got.get('snapshot', []) if isinstance(got, dict) else got
        return 0 < len(got) < len(hits) and any(o['op'] != 'hit' for o in case['ops'][1:])
    if case['kind'] == 'siblings':
        c = obs.get('collected', {}).get('snapshot', [])
        return 0 < len(c) < len(case['hits'])
    if case['kind'] == 'multi':
        c = obs.get('collected', [])
        return len(c) > 1 and any(x != c[0] for x in c[1:])
    if case['kind'] == 'schedule':
        return overlapping(case)
    n = len(obs.get('collected', []))
    return 0 < n < len([h for h in case['hits'] if h.get('cond') == 'true'])


def shrink(case):
    if case['kind'] == 'scale':
        fc = ref_int(case['cfg'].get('fire_count'), 1)
        for n2 in (fc + 1, fc + 10):
            if fc < n2 < case['n']:
                yield dict(case, n=n2)
        if case['through'] == 'handler':
            yield dict(case, through='action')
        return
    if case['kind'] == 'lifecycle':
        ops = case['ops']
        for i in range(len(ops)):
            c = dict(case)
            c['ops'] = ops[:i] + ops[i + 1:]
            if c['ops'] and valid_lifecycle(c) and known_finding(c, None) == known_finding(case, None):
                yield c
        return
    if case['kind'] in ('multi', 'siblings'):
        hs = case['hits']
        for i in range(len(hs)):
            c = dict(case)
            c['hits'] = hs[:i] + hs[i + 1:]
            if c['hits']:
                yield c
        return
    if case['kind'] != 'history':
        return
    hs = case['hits']
    for i in range(len(hs)):
        c = dict(case)
        c['hits'] = hs[:i] + hs[i + 1:]
        if c['hits']:
            yield c
