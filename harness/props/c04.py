"""C04 — rate limiting (fire_count, fire_period, window), sequential histories and 2-thread schedules."""
import itertools
import threading

import core
from rig import Rig, MockFrame

ID = 'C04'
EXTRACT = ['limiter']
LEAN_TARGETS = ['DeepModel.Props.C04']
AUDIT = 'DeepModel/Audit/C04.lean'
DRIVER = 'DeepModel/Driver/C04.lean'
BUDGET = {'quick': 500, 'thorough': 40000}
TIME = {'quick': 100, 'thorough': 800}
RULE = ('histories: action kind (snapshot/log/metric/span) x fire_count text x fire_period text x window x up to 40 '
        'hits with scripted clock (boundary spacings: exactly period, +-1 ns, backwards steps) and per-hit condition '
        '(true/false/raising) and, in 30% of the histories, unrelated configuration changes (register/unregister of another tracepoint through the real TracepointConfigService) between hits, driven through the real TriggerHandler.trace_call; a labelled stream in which the service re-sends the tracepoint in a later UPDATE (compared with the per-installation run of the model; the reading of the statement is the known finding C04/update-resets-count); one tracepoint yielding sibling actions (snapshot+metrics+span, metric processor failing part-way: the hit still counts) judged per action; several tracepoints with different limits on one line (merged into one trigger or separate triggers) judged per tracepoint; schedules: all 20 interleavings of '
        '2 threads x (check, process, record) forced with gates inside the condition and a watch. A case is '
        'non-trivial when at least one hit is rejected by a limit and at least one collects (or, for schedules, when '
        'the threads overlap). Distinct = distinct canonical JSON of the case.')
TRUSTED = ['threading.Lock/Event, CPython GIL atomicity of one attribute store (regions check/process/record)',
           'Py.parseInt models int(str) for ASCII text']
ASSUMPTIONS = ['time stamps are > 0 (time.time_ns()); the ts = 0 sentinel case is proved (c04_sentinel_zero) and '
               'compared with the model but not judged by the oracle',
               'window values are integers in the unit of the trigger time stamp (ns)']

COUNTS = [None, '-1', '0', '1', '2', '3', '5', 'abc', '1.5', ' 3 ', '', '+2', '1_0', '-2']
PERIODS = [None, '0', '1', '1000', '-5', 'x', '', '2', ' 10 ', '50']
KINDS = ['snapshot', 'log', 'metric', 'span']


def ref_int(text, default):
    if text is None:
        return default
    try:
        return int(text)
    except ValueError:
        return default


def reference(case):
    """reference limiter written from the statement; returns expected collected time stamps."""
    cnt = ref_int(case['cfg'].get('fire_count'), 1)
    per = ref_int(case['cfg'].get('fire_period'), 1000)
    ws = case['cfg'].get('window_start') or 0
    we = case['cfg'].get('window_end') or 0
    made, last, out = 0, None, []
    for h in case['hits']:
        if 'op' in h:
            continue
        ts = h['ts']
        ok = (cnt == -1 or made < cnt)
        ok = ok and (ws <= 0 or ws <= ts) and (we <= 0 or ts <= we)
        ok = ok and (last is None or ts - last >= per * 1_000_000)
        if ok and h['cond'] == 'true':
            out.append(ts)
            made += 1
            last = ts
    return out


# --------------------------------------------------------------------------------------- generation
def gen_history(rng, kind=None):
    cfg = {}
    fc = rng.choice(COUNTS)
    fp = rng.choice(PERIODS)
    if fc is not None:
        cfg['fire_count'] = fc
    if fp is not None:
        cfg['fire_period'] = fp
    per = ref_int(fp, 1000)
    step = max(abs(per), 1) * 1_000_000
    n = rng.randint(1, 40)
    ts = rng.randint(1, 10 ** 6)
    hits = []
    for _ in range(n):
        r = rng.random()
        if r < 0.25:
            ts += step
        elif r < 0.40:
            ts += step - 1
        elif r < 0.55:
            ts += step + 1
        elif r < 0.70:
            ts += rng.randint(0, step // 2 + 1)
        elif r < 0.80:
            ts = max(1, ts - rng.randint(0, step))
        else:
            ts += rng.randint(step, 3 * step)
        c = rng.random()
        hits.append({'ts': ts, 'cond': 'true' if c < 0.7 else ('false' if c < 0.87 else 'raise')})
    if rng.random() < 0.3:
        for _ in range(rng.randint(1, 3)):
            hits.insert(rng.randint(1, len(hits)), {'op': rng.choice(['register', 'register', 'unregister'])})
    case = {'kind': 'history', 'action': kind or rng.choice(KINDS), 'cfg': cfg, 'hits': hits, 'via': 'args'}
    w = rng.random()
    if w < 0.35:
        lo, hi = hits[0]['ts'], max(h['ts'] for h in hits if 'op' not in h)
        a = rng.randint(max(1, lo - 5), hi)
        b = rng.randint(a, hi + 5)
        mode = rng.choice(['both', 'start', 'end'])
        if mode != 'end':
            cfg['window_start'] = a
        if mode != 'start':
            cfg['window_end'] = b
        case['via'] = 'direct'       # windows are only settable on directly constructed actions
    elif w < 0.5:
        case['via'] = 'direct'
    return case


def all_schedules():
    return sorted(set(itertools.permutations([0, 0, 0, 1, 1, 1])))


def gen(rng, tier):
    scheds = all_schedules()
    k = 0
    while True:
        k += 1
        if k % 12 == 0:
            s = scheds[(k // 12) % len(scheds)]
            yield {'kind': 'schedule', 'cfg': {'fire_count': rng.choice(['1', '2', '-1']),
                                               'fire_period': rng.choice(['0', '1000'])},
                   'tss': [10 ** 9, 10 ** 9 + rng.choice([1, 2 * 10 ** 9])], 'sched': list(s)}
        elif k % 12 == 3:
            # several tracepoints on one line, each with its own limits (merged into one trigger, or separate triggers)
            a, b = gen_history(rng, 'snapshot'), gen_history(rng, 'snapshot')
            cfgs = [{kk: v for kk, v in c['cfg'].items() if kk in ('fire_count', 'fire_period')} for c in (a, b)]
            if rng.random() < 0.3:
                cfgs.append({'fire_count': rng.choice(['-1', '1', '2']), 'fire_period': rng.choice(['0', '100', '1000'])})
            yield {'kind': 'multi', 'cfgs': cfgs, 'hits': [h for h in a['hits'] if 'op' not in h],
                   'merged': rng.random() < 0.5}
        elif k % 12 == 9:
            # ONE tracepoint that yields several actions (snapshot + metrics + span): each action has its own budget;
            # a processing step that fails part-way still counts as that hit's collection
            a = gen_history(rng, 'snapshot')
            cfg = {kk: v for kk, v in a['cfg'].items() if kk in ('fire_count', 'fire_period')}
            hits = [h for h in a['hits'] if 'op' not in h]
            yield {'kind': 'siblings', 'cfg': cfg, 'hits': hits, 'span': rng.random() < 0.6,
                   'metric_fail_at': sorted(rng.sample(range(0, 2 * len(hits) + 2), rng.randint(0, 3))),
                   'bad_metric': rng.random() < 0.4}
        elif k % 24 == 18:
            # the service re-sends the tracepoint in a later UPDATE (known finding C04/update-resets-count):
            # compared with the model (which restarts the statistics), judged by the statement (which does not)
            a = gen_history(rng)
            hits = [h for h in a['hits'] if 'op' not in h]
            for _ in range(rng.randint(1, 2)):
                hits.insert(rng.randint(1, len(hits)), {'op': 'resend'})
            a['hits'] = hits
            yield a
        elif tier == 'thorough' and k % 12 == 6:
            n = rng.choice([3, 4])
            if rng.random() < 0.4:          # serial blocks in a random thread order
                order = list(range(n))
                rng.shuffle(order)
                sched = [i for i in order for _ in range(3)]
            else:
                sched = [i for i in range(n) for _ in range(3)]
                rng.shuffle(sched)
            yield {'kind': 'schedule', 'cfg': {'fire_count': rng.choice(['1', '2', '3', '-1']),
                                               'fire_period': rng.choice(['0', '1000'])},
                   'tss': [10 ** 9 + rng.choice([j, j * 2 * 10 ** 9]) for j in range(n)], 'sched': sched}
        else:
            yield gen_history(rng)


def corpus():
    return [
        {'kind': 'history', 'action': 'snapshot', 'cfg': {'fire_count': '2', 'fire_period': '1'}, 'via': 'args',
         'hits': [{'ts': 10, 'cond': 'true'}, {'ts': 500000, 'cond': 'true'}, {'ts': 1000010, 'cond': 'false'},
                  {'ts': 1000011, 'cond': 'true'}, {'ts': 9000000, 'cond': 'true'}]},
        {'kind': 'history', 'action': 'log', 'cfg': {'fire_count': '-1', 'fire_period': '1000'}, 'via': 'args',
         'hits': [{'ts': 1, 'cond': 'true'}, {'ts': 10 ** 9, 'cond': 'true'}, {'ts': 10 ** 9 + 1, 'cond': 'true'},
                  {'ts': 2 * 10 ** 9, 'cond': 'true'}]},
        # the sentinel: compared with the model, not judged (ASSUMPTIONS)
        {'kind': 'history', 'action': 'log', 'cfg': {'fire_count': '-1', 'fire_period': '1000'}, 'via': 'args',
         'hits': [{'ts': 0, 'cond': 'true'}, {'ts': 5, 'cond': 'true'}], 'no_oracle': True},
        {'kind': 'schedule', 'cfg': {'fire_count': '1', 'fire_period': '1000'}, 'tss': [10 ** 9, 10 ** 9 + 1],
         'sched': [0, 0, 0, 1, 1, 1]},
    ]


def known_replays():
    return [
        ('C04/2-threads-check-check-record-record',
         'two threads pass the limit check of one fire_count=1 action before either records: 2 collections',
         {'kind': 'schedule', 'cfg': {'fire_count': '1', 'fire_period': '1000'}, 'tss': [10 ** 9, 10 ** 9 + 1],
          'sched': [0, 1, 0, 1, 0, 1]}),
        ('C04/window-args-dropped',
         'window_start/window_end given as tracepoint args are never copied into the action: collected outside window',
         {'kind': 'history', 'action': 'snapshot', 'via': 'args',
          'cfg': {'fire_count': '1', 'window_end': 5, 'window_in_args': True},
          'hits': [{'ts': 1000, 'cond': 'true'}]}),
        ('C04/update-resets-count',
         'a fire_count=1 tracepoint that is still contained in the next UPDATE response collects again: every UPDATE '
         'rebuilds every tracepoint with fresh statistics',
         {'kind': 'history', 'action': 'snapshot', 'via': 'args', 'cfg': {'fire_count': '1', 'fire_period': '0'},
          'hits': [{'ts': 10, 'cond': 'true'}, {'ts': 20, 'cond': 'true'}, {'op': 'resend'}, {'ts': 30, 'cond': 'true'}]}),
    ]


# --------------------------------------------------------------------------------------- implementation
def make_action(rig, case):
    from deep.api.tracepoint.trigger import build_trigger, LocationAction, Trigger, LineLocation, Location
    from deep.api.tracepoint.tracepoint_config import MetricDefinition
    cfg = case['cfg']
    kind = case.get('action', 'snapshot')
    args = {'condition': 'cond()'}
    for k in ('fire_count', 'fire_period'):
        if k in cfg:
            args[k] = cfg[k]
    if cfg.get('window_in_args'):
        for k in ('window_start', 'window_end'):
            if k in cfg:
                args[k] = str(cfg[k])
    metrics = []
    if kind == 'log':
        args['snapshot'] = 'no_collect'
        args['log_msg'] = 'hit'
    elif kind == 'metric':
        args['snapshot'] = 'no_collect'
        metrics = [MetricDefinition('m', 'COUNTER')]
    elif kind == 'span':
        args['snapshot'] = 'no_collect'
        args['span'] = 'line'
    else:
        args['frame_type'] = 'no_frame'
    watches = case.get('watches', [])
    trig = build_trigger('tp1', 'host.py', 7, args, watches, metrics)
    if case.get('via') == 'direct':
        acts = []
        for a in trig.actions:
            c = dict(a.config)
            if 'window_start' in cfg:
                c['window_start'] = cfg['window_start']
            if 'window_end' in cfg:
                c['window_end'] = cfg['window_end']
            acts.append(LocationAction(a.id, a.condition, c, a.action_type))
        trig = Trigger(LineLocation('host.py', 7, Location.Position.START), acts)
    return trig


def run_history(case):
    rig = Rig(metric=True, span=True)
    try:
        trig = make_action(rig, case)
        rig.install_via_service([trig])
        regs = []
        collected = []
        state = {'cond': 'true'}

        def cond():
            if state['cond'] == 'raise':
                raise ValueError('condition fails')
            return state['cond'] == 'true'
        for h in case['hits']:
            if 'op' in h:
                # an unrelated configuration change while the tracepoint stays installed
                if h['op'] == 'resend':
                    # an UPDATE response that still contains this tracepoint: the agent rebuilds it
                    resent = getattr(rig, '_resent', 1) + 1
                    rig._resent = resent
                    rig.install_via_service([make_action(rig, case)], new_hash='h%d' % resent)
                elif h['op'] == 'register':
                    regs.append(rig.config.tracepoints.add_custom('elsewhere.py', 3, {}, [], []))
                elif regs:
                    rig.config.tracepoints.remove_custom(regs.pop())
                continue
            state['cond'] = h['cond']
            rig.clock = h['ts']
            before = rig.effect_count()
            frame = MockFrame('/app/host.py', 'fn', 7, {'cond': cond, 'x': 1})
            try:
                rig.handler.trace_call(frame, 'line', None)
                # the callbacks of a line span close at the next line event of the function: give it one
                rig.handler.trace_call(MockFrame('/app/host.py', 'fn', 8, {'cond': cond, 'x': 1}), 'line', None)
            except BaseException as e:      # noqa: B902 — the agent must not raise; report it
                return {'raised': f'{type(e).__name__}: {e}', 'collected': collected}
            if rig.effect_count() > before:
                collected.append(h['ts'])
        return {'collected': collected}
    finally:
        rig.close()


class GatedThread:
    """runs one trace_call on its own thread; the condition and a watch are gates the driver releases."""

    def __init__(self, rig, idx, ts):
        self.rig, self.idx, self.ts = rig, idx, ts
        self.arrived = threading.Semaphore(0)     # signalled on each gate arrival and on finish
        self.release = [threading.Event(), threading.Event()]
        self.at = -1                              # gate currently blocked at
        self.finished = False
        self.error = None
        self.thread = None

    def gate(self, k):
        self.at = k
        self.arrived.release()
        if not self.release[k].wait(20):
            raise TimeoutError('gate %d not released' % k)
        return True

    def body(self):
        try:
            self.rig.set_thread_clock(self.ts)
            frame = MockFrame('/app/host.py', 'fn', 7, {'cond': lambda: self.gate(0), 'g2': lambda: self.gate(1)})
            self.rig.handler.trace_call(frame, 'line', None)
        except BaseException as e:  # noqa: B902
            self.error = f'{type(e).__name__}: {e}'
        finally:
            self.finished = True
            self.at = -1
            self.arrived.release()

    def advance(self):
        """run this thread to its next gate (or to completion). no-op when finished."""
        if self.finished:
            return
        if self.thread is None:
            self.thread = threading.Thread(target=self.body, daemon=True)
            self.thread.start()
        else:
            self.release[self.at].set()
        if not self.arrived.acquire(timeout=20):
            raise core.Infra('schedule driver: thread did not reach the next gate in 20 s')


def run_schedule(case):
    rig = Rig()
    try:
        c = dict(case)
        c['action'] = 'snapshot'
        c['watches'] = ['g2()']
        trig = make_action(rig, c)
        rig.install([trig])
        thrs = [GatedThread(rig, i, ts) for i, ts in enumerate(case['tss'])]
        for i in case['sched']:
            thrs[i].advance()
        for t in thrs:                       # drain whatever the schedule left unfinished
            while not t.finished and t.thread is not None:
                t.advance()
        for t in thrs:
            if t.thread is not None:
                t.thread.join(20)
        errs = [t.error for t in thrs if t.error]
        return {'collected': len(rig.push.pushed), 'errors': errs}
    finally:
        rig.close()


def run_multi(case):
    from deep.api.tracepoint.trigger import build_trigger
    rig = Rig()
    try:
        trigs = []
        for i, cfg in enumerate(case['cfgs']):
            args = {'condition': 'cond()', 'frame_type': 'no_frame'}
            args.update(cfg)
            trigs.append(build_trigger('tp%d' % i, 'host.py', 7, args, [], []))
        if case.get('merged'):
            for t in trigs[1:]:
                trigs[0].merge_actions(t.actions)
            trigs = trigs[:1]
        rig.install_via_service(trigs)
        state = {'cond': 'true'}

        def cond():
            if state['cond'] == 'raise':
                raise ValueError('condition fails')
            return state['cond'] == 'true'
        collected = [[] for _ in case['cfgs']]
        for h in case['hits']:
            state['cond'] = h['cond']
            rig.clock = h['ts']
            n0 = len(rig.push.pushed)
            try:
                rig.handler.trace_call(MockFrame('/app/host.py', 'fn', 7, {'cond': cond}), 'line', None)
            except BaseException as e:  # noqa: B902
                return {'raised': f'{type(e).__name__}: {e}', 'collected': collected}
            for s in rig.push.pushed[n0:]:
                collected[int(s.tracepoint.id[2:])].append(h['ts'])
        return {'collected': collected}
    finally:
        rig.close()


def run_siblings(case):
    from deep.api.tracepoint.trigger import build_trigger
    from deep.api.tracepoint.tracepoint_config import MetricDefinition
    import rig as rigmod
    fail_at = set(case.get('metric_fail_at', []))
    r = Rig(span=case.get('span', False))
    try:
        metric = rigmod.RecMetric(fail=lambda op, n: n in fail_at)
        r.config.plugins = list(r.config.plugins) + [metric]
        args = {'condition': 'cond()', 'frame_type': 'no_frame'}
        args.update(case['cfg'])
        if case.get('span'):
            args['span'] = 'line'
        m2 = MetricDefinition('m2', 'GAUGE')
        if case.get('bad_metric'):
            # a malformed definition: processing the action fails AFTER the first metric went out
            m2 = MetricDefinition('m2', 'GAUGE', labels=[('a', 'b')])
        trig = build_trigger('tp0', 'host.py', 7, args, [], [MetricDefinition('m1', 'COUNTER'), m2])
        r.install_via_service([trig])
        state = {'cond': 'true'}

        def cond():
            if state['cond'] == 'raise':
                raise ValueError('condition fails')
            return state['cond'] == 'true'
        kinds = ['snapshot', 'metric'] + (['span'] if case.get('span') else [])
        collected = {k: [] for k in kinds}
        for h in case['hits']:
            state['cond'] = h['cond']
            r.clock = h['ts']
            before = {'snapshot': len(r.push.pushed), 'metric': len(metric.attempts),
                      'span': len([e for e in r.span.events if e[0] == 'open']) if r.span else 0}
            try:
                r.handler.trace_call(MockFrame('/app/host.py', 'fn', 7, {'cond': cond}), 'line', None)
                r.handler.trace_call(MockFrame('/app/host.py', 'fn', 8, {'cond': cond}), 'line', None)
            except BaseException as e:  # noqa: B902
                return {'raised': f'{type(e).__name__}: {e}', 'collected': collected}
            after = {'snapshot': len(r.push.pushed), 'metric': len(metric.attempts),
                     'span': len([e for e in r.span.events if e[0] == 'open']) if r.span else 0}
            for k in kinds:
                if after[k] > before[k]:
                    collected[k].append(h['ts'])
        return {'collected': collected}
    finally:
        r.close()


def run_impl(case):
    if case['kind'] == 'schedule':
        return run_schedule(case)
    if case['kind'] == 'multi':
        return run_multi(case)
    if case['kind'] == 'siblings':
        return run_siblings(case)
    return run_history(case)


# --------------------------------------------------------------------------------------- judging
def overlapping(case):
    """some thread performs its check while another is between its check and its record."""
    n = len(case['tss'])
    pos = {i: 0 for i in range(n)}
    for i in case['sched']:
        if pos[i] == 0 and any(0 < pos[o] < 3 for o in range(n) if o != i):
            return True
        pos[i] += 1
    return False


def oracle(case, obs):
    if case.get('no_oracle'):
        return []
    v = []
    if case['kind'] == 'siblings':
        if 'raised' in obs:
            return ['trace_call raised into the host: ' + obs['raised']]
        exp = reference({'cfg': case['cfg'], 'hits': case['hits']})
        for k, got in obs['collected'].items():
            if got != exp:
                v.append(f'{k} action of the tracepoint ({case["cfg"]}, metric processor failing at attempts '
                         f'{case.get("metric_fail_at")}): collected {got[:8]}.., its own limits and the conditions permit exactly {exp[:8]}..')
        return v
    if case['kind'] == 'multi':
        if 'raised' in obs:
            return ['trace_call raised into the host: ' + obs['raised']]
        for i, cfg in enumerate(case['cfgs']):
            exp = reference({'cfg': cfg, 'hits': case['hits']})
            if obs['collected'][i] != exp:
                v.append(f'tracepoint {i} of {len(case["cfgs"])} on the line ({cfg}): collected {obs["collected"][i][:8]}.., '
                         f'its own limits and the conditions permit exactly {exp[:8]}..')
        return v
    if case['kind'] == 'schedule':
        if obs.get('errors'):
            v.append('agent raised: %s' % obs['errors'])
        cnt = ref_int(case['cfg'].get('fire_count'), 1)
        per = ref_int(case['cfg'].get('fire_period'), 1000)
        if cnt != -1 and obs['collected'] > max(cnt, 0):
            v.append(f'{obs["collected"]} collections with fire_count={cnt}')
        tss = case['tss']
        spread = max(tss) - min(tss)
        if spread < per * 1_000_000 and obs['collected'] > 1:
            v.append(f'{obs["collected"]} collections less than fire_period={per} ms apart')
        if not overlapping(case):
            # serial: exactly the sequential reference, in the order the threads ran
            order = []
            for i in case['sched']:
                if i not in order:
                    order.append(i)
            exp = reference({'cfg': case['cfg'], 'hits': [{'ts': tss[i], 'cond': 'true'} for i in order]})
            if obs['collected'] != len(exp):
                v.append(f'serial schedule collected {obs["collected"]}, reference {len(exp)}')
        return v
    if 'raised' in obs:
        return ['trace_call raised into the host: ' + obs['raised']]
    exp = reference(case)
    if obs['collected'] != exp:
        got = obs['collected']
        cnt = ref_int(case['cfg'].get('fire_count'), 1)
        per = ref_int(case['cfg'].get('fire_period'), 1000)
        if cnt != -1 and len(got) > max(cnt, 0):
            v.append(f'{len(got)} collections with fire_count={cnt}')
        if per >= 0:
            for a, b in zip(got, got[1:]):
                if b - a < per * 1_000_000:
                    v.append(f'collections at {a} and {b} are less than fire_period={per} ms apart')
                    break
        ws, we = case['cfg'].get('window_start') or 0, case['cfg'].get('window_end') or 0
        for t in got:
            if (ws > 0 and t < ws) or (we > 0 and t > we):
                v.append(f'collection at {t} outside window [{ws},{we}]')
                break
        if not v:
            v.append(f'collected {got[:8]}.. but the limits and conditions permit exactly {exp[:8]}..')
    return v


def known_finding(case, obs):
    if case['kind'] in ('multi', 'siblings'):
        return None
    if case['kind'] == 'schedule' and overlapping(case):
        return 'C04/2-threads-check-check-record-record'
    if case['kind'] == 'history' and case['cfg'].get('window_in_args'):
        return 'C04/window-args-dropped'
    if case['kind'] == 'history' and any(h.get('op') == 'resend' for h in case['hits']):
        return 'C04/update-resets-count'
    return None


def model_request(case, obs):
    if case['kind'] == 'siblings':
        return {'op': 'runN', 'cfgs': [case['cfg']] * len(obs.get('collected', {'a': 0})),
                'hits': [{'ts': h['ts'], 'cond': h['cond'] == 'true'} for h in case['hits']]}
    if case['kind'] == 'multi':
        return {'op': 'runN', 'cfgs': case['cfgs'],
                'hits': [{'ts': h['ts'], 'cond': h['cond'] == 'true'} for h in case['hits']]}
    cfg = {k: v for k, v in case['cfg'].items() if k in ('fire_count', 'fire_period')}
    if case['kind'] == 'schedule':
        return {'op': 'conc', 'cfg': cfg, 'tss': case['tss'], 'sched': case['sched']}
    if not case['cfg'].get('window_in_args'):
        for k in ('window_start', 'window_end'):
            if k in case['cfg']:
                cfg[k] = case['cfg'][k]
    if any(h.get('op') == 'resend' for h in case['hits']):
        segs = [[]]
        for h in case['hits']:
            if h.get('op') == 'resend':
                segs.append([])
            elif 'op' not in h:
                segs[-1].append({'ts': h['ts'], 'cond': h['cond'] == 'true'})
        return {'op': 'runSeg', 'cfg': cfg, 'segs': segs}
    return {'op': 'run', 'cfg': cfg, 'hits': [{'ts': h['ts'], 'cond': h['cond'] == 'true'} for h in case['hits']
                                              if 'op' not in h]}


def compare(case, obs, resp):
    if 'error' in resp:
        return ['model error: ' + resp['error']]
    if 'raised' in obs:
        return ['implementation raised, model does not: ' + obs['raised']]
    if case['kind'] == 'siblings':
        got = [obs['collected'][k] for k in sorted(obs['collected'])]
        if sorted(map(tuple, resp['collected'])) != sorted(map(tuple, got)):
            return [f'collected per action: model {resp["collected"]} vs implementation {obs["collected"]}']
        return []
    if resp['collected'] != obs['collected']:
        return [f'collected: model {resp["collected"]} vs implementation {obs["collected"]}']
    return []


def label(case, obs):
    if case['kind'] == 'siblings':
        return 'siblings/%s/%s%s' % ('span' if case.get('span') else 'nospan', 'fault' if case.get('metric_fail_at') else 'nofault',
                                     '/badmetric' if case.get('bad_metric') else '')
    if case['kind'] == 'multi':
        return 'multi/%d/%s' % (len(case['cfgs']), 'merged' if case.get('merged') else 'separate')
    if case['kind'] == 'schedule':
        return 'schedule/' + ('overlap' if overlapping(case) else 'serial')
    n = len(obs.get('collected', []))
    hits = [h for h in case['hits'] if 'op' not in h]
    ops = '+resend' if any(h.get('op') == 'resend' for h in case['hits']) else '+cfgops' if len(hits) != len(case['hits']) else ''
    return f"{case['action']}/{case['via']}{ops}/" + ('none' if n == 0 else 'all' if n == len(hits) else 'some')


def nontrivial(case, obs):
    if case['kind'] == 'siblings':
        c = obs.get('collected', {}).get('snapshot', [])
        return 0 < len(c) < len(case['hits'])
    if case['kind'] == 'multi':
        c = obs.get('collected', [])
        return len(c) > 1 and any(x != c[0] for x in c[1:])
    if case['kind'] == 'schedule':
        return overlapping(case)
    n = len(obs.get('collected', []))
    return 0 < n < len([h for h in case['hits'] if h.get('cond') == 'true'])


def shrink(case):
    if case['kind'] in ('multi', 'siblings'):
        hs = case['hits']
        for i in range(len(hs)):
            c = dict(case)
            c['hits'] = hs[:i] + hs[i + 1:]
            if c['hits']:
                yield c
        return
    if case['kind'] != 'history':
        return
    hs = case['hits']
    for i in range(len(hs)):
        c = dict(case)
        c['hits'] = hs[:i] + hs[i + 1:]
        if c['hits']:
            yield c
