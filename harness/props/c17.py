"""C17 — metric tracepoints: every metric x every processor once, operation = lower-cased type, name / namespace
(default 'deep') / help / unit, labels static or evaluated, value = float of the expression or 1; no processor =>
nothing reported and no budget used; a failing processor does not affect the others."""
import core
from props import _exprlib as X
from props import _c17prom as PROM
from rig import Rig, MockFrame, RecMetric, run_traced

ID = 'C17'
EXTRACT = ['limiter', 'expr', 'c17prom']
LEAN_TARGETS = ['DeepModel.Props.C17']
AUDIT = 'DeepModel/Audit/C17.lean'
DRIVER = 'DeepModel/Driver/C17.lean'
BUDGET = {'quick': 1500, 'thorough': 15000}
RULE = ('0-4 metric definitions (types COUNTER / GAUGE / HISTOGRAM / SUMMARY in any letter case, plus unknown type '
        'names in a separate stream; 0-3 labels: static str / int / bool / None, evaluated, failing, repeated keys; '
        'expression absent / empty / int / float / bool / numeric text / non-numeric / failing / an int too large for a '
        'float (OverflowError) / objects whose __float__ raises, returns a non-float or converts / naming host globals '
        'and agent-only names; namespace absent / empty / given; help, unit absent or given) x 0-3 recording processors (some are '
        'falsy objects: __len__ = samples recorded so far, or __bool__ False), '
        'label / value expressions whose text is 1024 / 1025 / 2000 / 200000 characters; each failing on a chosen set of attempts, x 1-4 hits with fire_count / fire_period and a per-hit condition '
        '(true / false / raising) through the real TriggerHandler.trace_call on frame-like mocks or REAL frames. '
        'Non-trivial: at least 2 calls expected, or no processor with a permitted hit, or a failing processor beside a '
        'healthy one. Stream prom (every 5th case): 1-8 operations (counter / gauge / histogram / summary; 1-3 metric '
        'identities, each with its own namespace / unit / help / 0-3 label names, label dicts in varying key order, values '
        'multiples of 0.25, negative for gauges) on a fresh REAL PrometheusPlugin against the real prometheus_client, then a '
        'scrape; every third prom case gets 1-3 edge operations (same key with another namespace / unit / help / label names, '
        'same name with another type, negative counter step, reserved label names, empty name, _total / unit / _sum suffixes). '
        'Distinct = distinct canonical JSON of the case.')
TRUSTED = ['Python float / str on live values is the reference for values and label texts',
           'Model/Metric.lean models repr(float(x)) for ints (|n| < 10^16), bools, floats (by their repr) and decimal '
           'text without exponent',
           'Model/C17Prom.lean construct / childFor / applyOp / tsNames / buildFullName: a hand-written reading of '
           'prometheus_client 0.26 (compared with the real library on every prom case)']
ASSUMPTIONS = ['processor failures are Exception subclasses (a plugin raising a BaseException subclass is outside '
               'the statement)', 'metric expression values are ints, short decimals, bools, text, None or failing',
               '__float__ may raise any Exception (then the value is 1); a label value whose __str__ raises is compared '
               'with the model only (the statement does not say what the label then is)',
               'model float printing is CPython\'s for decimals of at most 15 significant digits and |exponent| <= 300; '
               'values beyond (2**53+1, 17-digit text, 1e400) are generated in the `boundary` stream and judged by the '
               'oracle only',
               'prom stream: finite values are multiples of 0.25 (nan / inf / -inf in the edge sub-stream), label values are text, a gauge accumulates (both built-in '
               'processors add); edge operations (refused by the client library, or sharing a cache key) are compared with '
               'the model only']

TYPES = ['COUNTER', 'GAUGE', 'HISTOGRAM', 'SUMMARY', 'COUNTER', 'GAUGE', 'counter', 'Gauge', 'hIsToGrAm', 'summary']
BAD_TYPES = ['TIMER', '', 'METER', 'clear', 'name', 'COUNTERS', ' counter', 'UNSPECIFIED']
LOCALS = [['w', 'a  b\tc'], ['n', 7], ['neg', -3], ['z', 0], ['f', 2.5], ['small', 0.0001], ['t', True], ['fl', False], ['s', 'text'],
          ['num', ' 12 '], ['dec', '3.50'], ['und', '1_000.25'], ['dot', '.5'], ['badnum', '1.2.3'], ['e', ''],
          ['nothing', None], ['lst', [1, 2]], ['o', {'obj': {'name': 'bob', 'w': 1.5}}], ['big', 123456789012],
          ['negz', '-0'], ['plus', '+4'], ['huge', 10 ** 400], ['nhuge', -(10 ** 400)],
          ['fl_raise', {'floaty': 'raise'}], ['fl_over', {'floaty': 'overflow'}], ['fl_text', {'floaty': 'text'}],
          ['fl_ok', {'floaty': 2.5}], ['expo', '1e5'], ['expo2', ' 2.5E-3 '], ['tiny', '0.00001'], ['sci', '12e20'],
          ['infs', '-Inf'], ['nans', 'nan'], ['e16', 10 ** 16], ['e22', 3 * 10 ** 22], ['nostr', {'badstr': 1}],
          # beyond the modelled alphabet (more than 15 significant digits, exponents past the double range)
          ['p53', 2 ** 53 + 1], ['d17', '12345678901234567'], ['over', '1e400'], ['under', '1e-400'],
          ['edge', 2 ** 1024 - 2 ** 970], ['edge1', 2 ** 1024 - 2 ** 970 - 1], ['d16', '0.1234567890123456']]
GLOBALS = {'GNUM': 42, 'GSTR': 'glob', 'GF': 0.125, 'uuid': 'host-uuid', **X.SHADOW_GLOBALS}
LOCALS = LOCALS + [['ls', 'L' * 1025]] + X.SHADOW_LOCALS          # locals that shadow a module-level name of the host file
VALUE_EXPRS = [None, None, '', 'n', 'neg', 'z', 'f', 'small', 't', 'fl', 's', 'num', 'dec', 'und', 'dot', 'badnum', 'e',
               'nothing', 'lst', 'o.w', 'big', 'negz', 'plus', 'n + 1', 'n * f', 'len(lst)', 'GNUM', 'GF', 'GNUM + n',
               'nope', 'n / 0', "boom('HostInterrupt', '5')", 'time_ns()', 'FrameType', 'twice(n)', 'o', 'n > 3',
               "boom('KeyError', 1)", 'uuid', 'huge', 'nhuge', 'huge * 2', 'fl_raise', 'fl_over', 'fl_text', 'fl_ok',
               'float(huge)', '10 ** 400', 'huge', 'fl_raise', 'expo', 'expo2', 'tiny', 'sci', 'infs', 'nans', 'e16', 'e22',
               'edge', 'nostr', "len('a  b\tc')", "float(' 2.5\t')", "w.count('  ') + 2", "len('''l1\n\nl2''')", '(n +\n  1)']
VALUE_EXPRS = VALUE_EXPRS + X.SHADOW_VALUE_EXPRS
BOUNDARY_EXPRS = ['p53', 'd17', 'over', 'under', 'edge1', 'd16', 'p53 * 3', 'e22 + 1']
LABEL_EXPRS = ["'x  y'", 'w', "w.replace('  ', '_')", "'a\t\tb'", 'nostr', 'n', 's', 'f', 'o.name', 'GSTR', 'uuid', 'nope', 'n / 0', 'lst', 'nothing', 't', "boom('SystemExit', 2)",
               'FrameType', 'e', "d['x']" if False else 'len(s)']
LABEL_EXPRS = LABEL_EXPRS + X.SHADOW_TEXT_EXPRS
# label (and value) texts longer than any collection limit: a label is the text of the expression, whole
LONG_LABEL_EXPRS = ['ls', "'ab' * 1000", 'list(range(400))', "ls + '!'", "'k' * 1024", "'k' * 1025", "{'key': ls}"]
LABEL_EXPRS = LABEL_EXPRS + LONG_LABEL_EXPRS
VALUE_EXPRS = VALUE_EXPRS + ["' ' * 2000 + '7'", "'0' * 1500 + '12'", 'len(ls)']
STATICS = ['x', 'static value', '', 5, True, None, 'ünï', 1.5]
KEYS = ['k', 'env', 'k', 'path', 'a', 'b']
NAMES = ['hits', 'orders_total', 'm', 'latency']
COUNTS = [None, '1', '2', '-1']
PERIODS = [None, '0', '1000']


# --------------------------------------------------------------------------------------- generation
def gen_def(rng, bad_types=False):
    labels = []
    for _ in range(rng.choice([0, 0, 1, 2, 3])):
        key = rng.choice(KEYS)
        r = rng.random()
        if r < 0.4:
            labels.append({'key': key, 'static': rng.choice(STATICS), 'expr': None})
        elif r < 0.9:
            labels.append({'key': key, 'static': None, 'expr': rng.choice(LABEL_EXPRS)})
        else:
            labels.append({'key': key, 'static': rng.choice(STATICS), 'expr': rng.choice(['', 'n'])})
    return {'name': rng.choice(NAMES), 'type': rng.choice(BAD_TYPES) if bad_types and rng.random() < 0.5 else rng.choice(TYPES),
            'labels': labels, 'expr': rng.choice(VALUE_EXPRS), 'ns': rng.choice([None, None, '', 'shop', 'deep', 'ns1']),
            'help': rng.choice([None, 'help text', '']), 'unit': rng.choice([None, 'ms', 'bytes'])}


def gen_case(rng, bad_types=False):
    defs = [gen_def(rng, bad_types) for _ in range(rng.choice([0, 1, 1, 2, 2, 3, 4]))]
    procs = []
    for _ in range(rng.choice([0, 1, 1, 2, 2, 3])):
        r = rng.random()
        if r < 0.6:
            procs.append({'fails': []})
        else:
            procs.append({'fails': sorted(rng.sample(range(8), rng.randint(1, 4)))})
        if rng.random() < 0.35:
            # a registered processor object that is falsy: __len__ = samples recorded so far (0 at start) / __bool__ False
            procs[-1]['falsy'] = rng.choice(['len', 'bool'])
    cfg = {}
    fc, fp = rng.choice(COUNTS), rng.choice(PERIODS)
    if fc is not None:
        cfg['fire_count'] = fc
    if fp is not None:
        cfg['fire_period'] = fp
    hits, ts = [], rng.randint(1, 10 ** 6)
    cond_text = rng.choice([None, None, 'cond()', 'cond()', ''])
    for _ in range(rng.choice([1, 1, 2, 3, 4])):
        c = rng.random()
        cond = {'k': 'true'} if c < 0.6 else {'k': 'false'} if c < 0.8 else \
            {'k': 'raise', 'cls': rng.choice(['ValueError', 'HostInterrupt', 'KeyError']), 'msg': rng.choice(['x', 'true', 1])}
        hits.append({'ts': ts, 'cond': cond})
        ts += rng.choice([1, 999_999_999, 1_000_000_000, 2_000_000_000])
    return {'kind': 'metric', 'stream': 'badtype' if bad_types else 'main', 'via': rng.choice(['mock', 'mock', 'mock', 'real']),
            'cfg': cfg, 'condition': cond_text, 'defs': defs, 'procs': procs, 'hits': hits}


def gen(rng, tier):
    k = 0
    while True:
        k += 1
        if k % 5 == 0:
            yield PROM.gen_case(rng, k // 5)
            continue
        c = gen_case(rng, bad_types=(k % 6 == 0))
        if k % 8 == 0 and c['defs']:
            # values across the boundary of the modelled float alphabet: judged by the oracle only
            c['stream'] = 'boundary'
            for d in c['defs']:
                if rng.random() < 0.7:
                    d['expr'] = rng.choice(BOUNDARY_EXPRS)
        yield c


def corpus():
    t = {'k': 'true'}
    d1 = {'name': 'm1', 'type': 'COUNTER', 'labels': [{'key': 'a', 'static': 'x', 'expr': None},
                                                      {'key': 'b', 'static': None, 'expr': 'n'}],
          'expr': None, 'ns': None, 'help': 'h', 'unit': 'u'}
    d2 = {'name': 'm2', 'type': 'gauge', 'labels': [{'key': 'a', 'static': None, 'expr': 'nope'}], 'expr': 'dec',
          'ns': 'shop', 'help': None, 'unit': 'ms'}
    base = {'kind': 'metric', 'stream': 'main', 'via': 'mock', 'cfg': {'fire_count': '-1', 'fire_period': '0'},
            'condition': None}
    return [
        dict(base, defs=[d1, d2], procs=[{'fails': [0]}, {'fails': []}], hits=[{'ts': 5, 'cond': t}]),
        dict(base, defs=[d1, d2], procs=[], hits=[{'ts': 5, 'cond': t}, {'ts': 6, 'cond': t}]),
        dict(base, via='real', defs=[dict(d2, expr='GNUM + n', labels=[{'key': 'g', 'static': None, 'expr': 'uuid'},
                                                                        {'key': 'ft', 'static': None, 'expr': 'FrameType'}])],
             procs=[{'fails': []}], hits=[{'ts': 5, 'cond': t}]),
        dict(base, cfg={'fire_count': '1'}, condition='cond()', defs=[d1], procs=[{'fails': []}, {'fails': [0, 1]}, {'fails': []}],
             hits=[{'ts': 5, 'cond': {'k': 'false'}}, {'ts': 6, 'cond': {'k': 'raise', 'cls': 'KeyError', 'msg': 1}},
                   {'ts': 7, 'cond': t}, {'ts': 9 * 10 ** 9, 'cond': t}]),
        dict(base, defs=[d1], procs=[{'fails': [], 'falsy': 'len'}], hits=[{'ts': 5, 'cond': t}, {'ts': 6, 'cond': t}]),
        dict(base, defs=[d1, d2], procs=[{'fails': [], 'falsy': 'bool'}, {'fails': [0], 'falsy': 'len'}], hits=[{'ts': 5, 'cond': t}]),
        dict(base, defs=[dict(d2, labels=[{'key': 'big', 'static': None, 'expr': "'z' * 200000"},
                                          {'key': 'l', 'static': None, 'expr': 'ls'}], expr="' ' * 2000 + '7'")],
             procs=[{'fails': []}], hits=[{'ts': 5, 'cond': t}]),
        dict(base, stream='badtype', defs=[dict(d1, type='TIMER'), d2], procs=[{'fails': []}], hits=[{'ts': 5, 'cond': t}]),
    ] + PROM.corpus()


# --------------------------------------------------------------------------------------- implementation
class Proc(RecMetric):
    """recording processor that raises on chosen attempts (counted per processor and per hit)"""

    def __init__(self, name, fails):
        super().__init__(name=name)
        self.fails = set(fails)
        self.attempts = 0

    def _rec(self, op, *a):
        k = self.attempts
        self.attempts += 1
        if k in self.fails:
            raise RuntimeError('metric processor failure at attempt %d' % k)
        self.calls.append((op,) + a)


class LenProc(Proc):
    """a collecting processor whose length is the number of samples recorded so far (empty = falsy)"""

    def __len__(self):
        return len(self.calls)


class BoolProc(Proc):
    def __bool__(self):
        return False


def make_proc(i, p):
    cls = {'len': LenProc, 'bool': BoolProc}.get(p.get('falsy'), Proc)
    return cls('P%d' % i, p['fails'])


def canon_label(v):
    if type(v) is str:
        return ['s', v]
    return ['j', None if v is None else repr(v)]


def static_text(v):
    """the opaque text the model carries for a static value"""
    return None if v is None else (v if type(v) is str else repr(v))


def canon_call(c):
    op, name, labels, ns, help_, unit, value = c
    lab = sorted([k, canon_label(v)] for k, v in labels.items())
    val = '%s:%r' % (type(value).__name__, value) if type(value) in (int, float) else 'not-a-number:' + repr(value)
    return [op, name, lab, ns, help_, unit, val]


def num(val):
    """the number a canonical value stands for (the statement compares values, not Python types)"""
    kind, _, text = val.partition(':')
    try:
        return repr(float(int(text) if kind == 'int' else float(text)))
    except (ValueError, OverflowError):
        return val


def run_impl(case):
    if case['kind'] == 'prom':
        return PROM.run_impl(case)
    from deep.api.tracepoint.trigger import build_trigger
    from deep.api.tracepoint.tracepoint_config import MetricDefinition, LabelExpression
    procs = [make_proc(i, p) for i, p in enumerate(case['procs'])]
    rig = Rig(plugins=list(procs))
    try:
        name = X.unique('verif_host_c17')
        mod = X.make_module(name, GLOBALS)
        state = {'cond': None, 'calls': 0}

        def cond():
            state['calls'] += 1
            c = state['cond']
            if c['k'] == 'raise':
                raise X.EXC_CLASSES[c['cls']](c['msg'])
            return c['k'] == 'true'
        mod.__dict__['cond'] = cond
        fn, line = X.host_function(mod, 'host', [], LOCALS, '/app/%s.py' % name)
        defs = [MetricDefinition(d['name'], d['type'],
                                 [LabelExpression(l['key'], l['static'], l['expr']) for l in d['labels']],
                                 d['expr'], d['ns'], d['help'], d['unit']) for d in case['defs']]
        args = {'snapshot': 'no_collect'}
        args.update(case['cfg'])
        if case['condition'] is not None:
            args['condition'] = case['condition']
        trig = build_trigger('tp1', name + '.py', line, args, [], defs)
        if trig is None or not trig.actions:
            return {'hits': [{'calls': [[] for _ in procs], 'evals': 0} for _ in case['hits']], 'no_action': True}
        rig.install([trig])
        out = []
        for h in case['hits']:
            state['cond'], state['calls'] = h['cond'], 0
            rig.clock = h['ts']
            before = [len(p.calls) for p in procs]
            for p in procs:
                p.attempts = 0          # fault placement is per hit: attempt k of this hit
            ent = {}
            if case['via'] == 'real':
                res = run_traced(rig.handler, fn)
                if 'exc' in res or res.get('ret') != 0 or res.get('trace_after') is None:
                    ent['raised'] = 'host disturbed: %r' % ({k: str(v) for k, v in res.items()},)
            else:
                loc = {k: X.build_value(v) for k, v in LOCALS}
                try:
                    rig.handler.trace_call(MockFrame('/app/%s.py' % name, 'host', line, loc, f_globals=mod.__dict__),
                                           'line', None)
                except BaseException as e:  # noqa: B902
                    ent['raised'] = f'{type(e).__name__}: {e}'
            ent['calls'] = [[canon_call(c) for c in p.calls[b:]] for p, b in zip(procs, before)]
            ent['evals'] = state['calls']
            ent['other'] = len(rig.push.pushed) + len(rig.logger.logged)
            out.append(ent)
        return {'hits': out}
    finally:
        rig.close()


# --------------------------------------------------------------------------------------- reference (from the statement)
OPS = {'counter', 'gauge', 'histogram', 'summary'}


def ref_int(text, default):
    if text is None:
        return default
    try:
        return int(text)
    except ValueError:
        return default


def blank(c):
    return c is None or c.strip() == ''


def ref_env(case):
    mod = X.make_module('verif_ref_c17', GLOBALS)
    mod.__dict__['cond'] = lambda: True
    return mod.__dict__, {k: X.build_value(v) for k, v in LOCALS}


class _Any:
    def __eq__(self, other):
        return True

    def __repr__(self):
        return '<any>'


ANY = _Any()


def expected_call(d, g, loc):
    value = 1.0
    if d['expr']:
        v, failed = X.at_line(d['expr'], g, loc)
        try:
            value = 1.0 if failed else float(v)
        except Exception:   # noqa: B902
            value = 1.0
    labels = {}
    for l in d['labels']:
        if l['expr']:
            o = X.outcome(l['expr'], g, loc)
            # a value that has no text (its __str__ raises): the statement does not say what the label is
            labels[l['key']] = ['s', ANY if o['strRaises'] else o['text']]
        else:
            labels[l['key']] = canon_label(l['static'])
    return [d['type'].lower(), d['name'], sorted([k, v] for k, v in labels.items()), d['ns'] or 'deep', d['help'],
            d['unit'], repr(value)]


def reference(case):
    """expected per hit: per processor the calls it records, and how often the condition is evaluated"""
    g, loc = ref_env(case)
    cnt = ref_int(case['cfg'].get('fire_count'), 1)
    per = ref_int(case['cfg'].get('fire_period'), 1000)
    made, last = 0, None
    out = []
    for h in case['hits']:
        attempts = [0] * len(case['procs'])
        calls = [[] for _ in case['procs']]
        evals = 0
        if case['procs'] and case['defs']:
            ok = (cnt == -1 or made < cnt) and (last is None or h['ts'] - last >= per * 1_000_000)
            truth = True
            if ok and not blank(case['condition']):
                evals = 1
                truth = h['cond']['k'] == 'true'
            if ok and truth:
                made += 1
                last = h['ts']
                for d in case['defs']:
                    if d['type'].lower() not in OPS:
                        continue
                    exp = expected_call(d, g, loc)
                    for j, p in enumerate(case['procs']):
                        k = attempts[j]
                        attempts[j] += 1
                        if k not in p['fails']:
                            calls[j].append(exp)
        out.append({'calls': calls, 'evals': evals})
    return out


def oracle(case, obs):
    if case['kind'] == 'prom':
        return PROM.oracle(case, obs)
    v = []
    for h in obs['hits']:
        if 'raised' in h:
            return ['the agent disturbed the host: ' + h['raised']]
    if case['stream'] == 'badtype':
        # unknown type names are outside the statement's four types: compared with the model only — but a metric of
        # a known type beside them must still be reported
        pass
    exp = reference(case)
    for i, (h, e) in enumerate(zip(obs['hits'], exp)):
        if h.get('other'):
            v.append(f'hit {i}: a metric-only tracepoint produced {h["other"]} snapshot / log effects')
        for j, (got, want) in enumerate(zip(h['calls'], e['calls'])):
            got = [c[:6] + [num(c[6])] for c in got]          # the statement compares the number, not its Python type
            if got != want:
                if len(got) != len(want):
                    v.append(f'hit {i}: processor {j} received {len(got)} calls, expected {len(want)} '
                             f'(every defined metric once per permitted hit; got {[c[:2] for c in got]})')
                else:
                    k = next(k for k, (a, b) in enumerate(zip(got, want)) if a != b)
                    names = ['operation', 'name', 'labels', 'namespace', 'help', 'unit', 'value']
                    bad = [names[x] for x in range(7) if got[k][x] != want[k][x]]
                    v.append(f'hit {i}: processor {j} call {k}: wrong {", ".join(bad)}: got {got[k]!r}, expected {want[k]!r}')
                break
        if not case['procs'] and h['evals']:
            v.append(f'hit {i}: no processor active but the condition was evaluated')
        elif h['evals'] != e['evals']:
            v.append(f'hit {i}: condition evaluated {h["evals"]} times, expected {e["evals"]}')
    return v[:4]


def model_request(case, obs):
    if case['kind'] == 'prom':
        return PROM.model_request(case, obs)
    if obs.get('no_action') or any('raised' in h for h in obs['hits']):
        return None
    if case['stream'] == 'boundary':
        return None         # values outside the alphabet on which the model's float printing is CPython's: oracle only
    g, loc = ref_env(case)
    exprs = set()
    for d in case['defs']:
        if d['expr']:
            exprs.add(d['expr'])
        for l in d['labels']:
            if l['expr']:
                exprs.add(l['expr'])
    table = [{'e': e, 'o': X.eval_outcome(e, g, loc)} for e in sorted(exprs)]
    cfg = dict(case['cfg'])
    if case['condition'] is not None:
        cfg['condition'] = case['condition']
    hits = []
    for h in case['hits']:
        c = h['cond']
        o = X.describe(True) if c['k'] == 'true' else X.describe(False) if c['k'] == 'false' else \
            X.describe(X.EXC_CLASSES[c['cls']](c['msg']), failed=True)
        hits.append({'ts': h['ts'], 'cond': o, 'oracle': table})
    defs = [{'name': d['name'], 'type': d['type'], 'expr': d['expr'], 'ns': d['ns'], 'help': d['help'], 'unit': d['unit'],
             'labels': [{'key': l['key'], 'static': static_text(l['static']), 'expr': l['expr']} for l in d['labels']]}
            for d in case['defs']]
    return {'op': 'run', 'cfg': cfg, 'defs': defs, 'procs': case['procs'], 'hits': hits}


def model_call(c, statics):
    """model call -> the canonical positional form of canon_call"""
    pos = [v for _, v in c['args']]
    names = [k for k, _ in c['args']]
    if names != ['name', 'labels', 'namespace', 'help_string', 'unit', 'value']:
        return ['model-signature', names]
    lab = []
    for k, (tag, val) in pos[1]:
        if tag == 's':
            lab.append([k, ['s', val]])
        else:
            lab.append([k, statics.get(val, ['j', val])])
    return [c['op'], pos[0], sorted(lab), pos[2], pos[3], pos[4], pos[5]]


def compare(case, obs, resp):
    if case['kind'] == 'prom':
        return PROM.compare(case, obs, resp)
    if 'error' in resp:
        return ['model error: ' + resp['error']]
    # static values travel through the model as opaque text: map them back to the canonical observed form
    statics = {None: ['j', None]}
    for d in case['defs']:
        for l in d['labels']:
            statics[static_text(l['static'])] = canon_label(l['static'])
    d = []
    if not case['defs']:
        # no metric definitions: build_trigger creates no metric action at all
        return d
    for i, (h, m) in enumerate(zip(obs['hits'], resp['hits'])):
        per_proc = [[] for _ in case['procs']]
        for c in m['calls']:
            per_proc[c['proc']].append(model_call(c, statics))
        if per_proc != h['calls']:
            d.append(f'hit {i}: calls: model {per_proc!r} vs implementation {h["calls"]!r}')
        if m['evals'] != h['evals']:
            d.append(f'hit {i}: condition evaluations: model {m["evals"]} vs implementation {h["evals"]}')
    return d[:3]


def label(case, obs):
    if case['kind'] == 'prom':
        return PROM.label(case, obs)
    n = sum(len(c) for h in obs['hits'] for c in h.get('calls', []))
    faulty = sum(1 for p in case['procs'] if p['fails'])
    return f"{case['stream']}/{case['via']}/procs{len(case['procs'])}/faulty{min(faulty, 2)}/" + \
        ('nocalls' if n == 0 else 'calls')


def nontrivial(case, obs):
    if case['kind'] == 'prom':
        return PROM.nontrivial(case, obs)
    n = sum(len(c) for h in obs['hits'] for c in h.get('calls', []))
    if not case['procs']:
        return bool(case['defs'])
    faulty = [p for p in case['procs'] if p['fails']]
    return n >= 2 or (faulty and len(faulty) < len(case['procs']) and n >= 1)


def shrink(case):
    if case['kind'] == 'prom':
        yield from PROM.shrink(case)
        return
    for key in ('hits', 'defs', 'procs'):
        xs = case[key]
        for i in range(len(xs)):
            c = dict(case)
            c[key] = xs[:i] + xs[i + 1:]
            if key != 'hits' or c[key]:
                yield c
    for i, d in enumerate(case['defs']):
        for j in range(len(d['labels'])):
            c = dict(case)
            nd = dict(d)
            nd['labels'] = d['labels'][:j] + d['labels'][j + 1:]
            c['defs'] = case['defs'][:i] + [nd] + case['defs'][i + 1:]
            yield c
    if case['via'] == 'real':
        c = dict(case)
        c['via'] = 'mock'
        yield c
