"""C03, stream `loc` — how an event is turned into a location and compared with the tracepoints: boundary paths.

A case = 3-8 log tracepoints (line tracepoints and method tracepoints with a method name; paths that are file names,
names that are suffixes / prefixes / case variants of one another, paths WITH a directory part; built through
convert_response and build_trigger like every other stream) x 6-20 hand-made events: a frame-like object
(`rig.MockFrame`: co_filename, f_lineno, co_name — the repo's unit tests drive `trace_call` the same way) and an event
kind.  co_filename ranges over plain names, absolute / relative / doubled-slash / dot directories, the same name in
several directories, a trailing slash, no slash at all, `<string>` / `<frozen ..>`, non-ASCII names, backslashes; lines
over 0, negative, > 256 (distinct int objects of equal value), > 2**31; kinds over line / call / return / exception /
opcode / c_call / wrong case / empty.

  * run_impl — the real `TriggerHandler.location_from_event` and the real `handler.trace_call(frame, kind, None)` of a
               real handler (rig.Rig) with the triggers installed; observed: the location tuple and the ids of the
               tracepoints that logged at the event;
  * oracle   — the statement: a line tracepoint acts at `line` events of a file with that NAME (the text after the last
               `/` of the code object's file name) on that line, a method tracepoint at `call` events of a function of
               that name in a file of that name; nothing else;
  * model    — `locationFromEvent` (translated) with `PyX.basename`, and `C03.fired (install resp custom) ev`.
"""
import core
import rig
import tracehost as th

KINDS = ['line', 'line', 'line', 'call', 'call', 'return', 'exception', 'opcode', 'c_call', 'LINE', 'Call', '']
NAMES = ['m.py', 'm.py', 'a.py', 'M.py', 'xm.py', 'm.pyc', 'm.py.bak', 'm', '.py', 'mödule.py', '模块.py', 'm.py ',
         '<string>', '<frozen importlib._bootstrap>', 'a b.py', '']
DIRS = ['', '', '/', '/app/', '/app/src/', 'src/', './', '../x/', '/a//b/', '//', '/app/m.py/', 'C:\\x\\', '/x/a.py/',
        'a.py/', '/app/xm.py/', ' /']
LINES = [0, 1, 2, 3, 3, 3, 255, 256, 257, 300, 70001, -1, 2 ** 31 - 1, 2 ** 31, 2 ** 40, 10 ** 20]
FUNCS = ['f', 'f', 'g', 'F', '<module>', '<lambda>', '', 'f ', 'méthode', '__init__']


def name_of(co_filename):
    """the file NAME of a code object's file name (POSIX): the text after the last `/`"""
    return co_filename.rsplit('/', 1)[-1]


def log_tp(n, path, line, via, method=None):
    args = dict(th.UNLIMITED)
    args.update(snapshot='no_collect', log_msg='hit')
    if method is not None:
        args['method_name'] = method
    return {'id': 'tp%d' % n, 'path': path, 'line': line, 'args': args, 'metrics': [], 'via': via}


def unmatchable_tp(n, path, via):
    """a method tracepoint WITHOUT a method name: FunctionLocation(path, None).  On a frame-like object (as on a file
    whose source is not available) its at_location raises at every event of a file with that name — it never acts and
    must not disturb the tracepoints around it"""
    args = dict(th.UNLIMITED)
    args.update(snapshot='no_collect', log_msg='nameless', stage='method_start')
    return {'id': 'tp%d' % n, 'path': path, 'line': 0, 'args': args, 'metrics': [], 'via': via, 'unmatchable': True}


# --------------------------------------------------------------------------------------- implementation
def run_impl(case):
    core.use_repo()
    r = None
    try:
        from deep.processor.trigger_handler import TriggerHandler
        r = rig.Rig(logger=True)
        try:
            r.install(th.build_config(case['tps']))
        except BaseException as e:  # noqa: B902
            return {'raised': 'building the configuration: %s: %s' % (type(e).__name__, e)}
        out = []
        for kind, filename, lineno, func in case['events']:
            frame = rig.MockFrame(filename, func, lineno)
            rec = {}
            try:
                loc = TriggerHandler.location_from_event(kind, frame)
                rec['loc'] = [loc[0], loc[1], loc[2], loc[3]]
            except Exception as e:
                rec['loc'] = {'raised': type(e).__name__}
            before = len(r.logger.logged)
            try:
                ret = r.handler.trace_call(frame, kind, None)
                rec['ret'] = 'none' if ret is None else 'trace' if ret == r.handler.trace_call else 'other'
            except BaseException as e:  # noqa: B902
                rec['ret'] = {'raised': type(e).__name__}
            rec['ids'] = [tp_id for (_m, tp_id, _c) in r.logger.logged[before:]]
            out.append(rec)
        try:
            pending = bool(r.handler._callbacks.is_set)
        except Exception:       # not part of the statement: best effort
            pending = None
        return {'events': out, 'pending': pending}
    except Exception as e:
        return {'raised': '%s: %s' % (type(e).__name__, e)}
    finally:
        if r is not None:
            r.close()
            try:
                r.handler._callbacks.clear()
            except Exception:
                pass


# --------------------------------------------------------------------------------------- the statement
def expected_ids(case, ev):
    kind, filename, lineno, func = ev
    ids = []
    for tp in case['tps']:
        loc = th.tp_location(tp)
        if loc[0] == 'line' and kind == 'line' and name_of(filename) == loc[1] and lineno == loc[2]:
            ids.append(tp['id'])
        elif loc[0] == 'func' and kind == 'call' and name_of(filename) == loc[1] and func == loc[2]:
            ids.append(tp['id'])
    return ids


def oracle(case, obs):
    if 'raised' in obs:
        return ['the agent raised: ' + obs['raised']]
    v = []
    for i, (ev, o) in enumerate(zip(case['events'], obs['events'])):
        want = expected_ids(case, ev)
        if isinstance(o.get('ret'), dict):
            v.append('event %d %s: trace_call raised %s into the program' % (i, ev, o['ret']['raised']))
        if sorted(o['ids']) != sorted(want):
            extra = [x for x in o['ids'] if x not in want]
            missing = [x for x in want if x not in o['ids']]
            v.append('event %d (%s of %r line %s in %s): tracepoints that acted %s, configured for this location %s%s%s' % (
                i, ev[0] or "''", ev[1], ev[2], ev[3] or "''", o['ids'], want,
                ' — spurious: %s' % extra if extra else '', ' — missing: %s' % missing if missing else ''))
    if obs.get('pending'):
        v.append('log tracepoints left callbacks pending')
    return v[:6]


# --------------------------------------------------------------------------------------- model
def lean_tp(i, tp):
    loc = th.tp_location(tp)
    l = {'t': 'line', 'path': loc[1], 'line': loc[2]} if loc[0] == 'line' else \
        {'t': 'nosource', 'path': loc[1]} if loc[0] == 'nosource' else {'t': 'func', 'path': loc[1], 'name': loc[2]}
    return {'loc': l, 'actions': [{'tp': i, 'kind': 'log'}]}


def model_request(case, obs):
    if 'raised' in obs:
        return None
    resp = [lean_tp(i, tp) for i, tp in enumerate(case['tps']) if tp.get('via') != 'custom']
    custom = [lean_tp(i, tp) for i, tp in enumerate(case['tps']) if tp.get('via') == 'custom']
    return {'op': 'loc', 'resp': resp, 'custom': custom, 'events': case['events']}


def compare(case, obs, resp):
    if 'error' in resp:
        return ['model error: ' + str(resp['error'])]
    d = []
    for i, (ev, o, m) in enumerate(zip(case['events'], obs['events'], resp['events'])):
        if o['loc'] != m['loc']:
            d.append('event %d %r: location_from_event gives %s, the model %s' % (i, ev, o['loc'], m['loc']))
        mids = [case['tps'][k]['id'] for k in m['fired']]
        if o['ids'] != mids:
            d.append('event %d %r: tracepoints that acted %s, the model %s' % (i, ev, o['ids'], mids))
        want_ret = 'trace'
        if o.get('ret') != want_ret:
            d.append('event %d %r: trace_call returned %s' % (i, ev, o.get('ret')))
    return d[:6]


# --------------------------------------------------------------------------------------- generation
def gen_err_case(rng, tier):
    """ERROR PATH: a tracepoint whose location check raises (method tracepoint without a name: the frame has no source)
    sits DIRECTLY BEFORE an ordinary tracepoint of the same file in configuration order, and the very first event of
    that file is the ordinary tracepoint's own location — it must act there (and at every later hit), the failing one
    never, whatever else is configured."""
    P = rng.choice(['m.py', 'a.py', 'mod.py'])
    via = rng.choice(['resp', 'custom'])
    tps = []
    for _ in range(rng.randint(0, 3)):
        tps.append(log_tp(len(tps), rng.choice([P, 'other.py']), rng.choice([1, 2, 3, 300]), rng.choice(['resp', 'custom'])))
    pos = len(tps)
    tps.insert(pos, None)
    nfail = rng.choice([1, 1, 2])
    block = [unmatchable_tp(0, P, via) for _ in range(1)]
    if rng.random() < 0.5:
        target = log_tp(0, P, 0, via, method=rng.choice(['f', 'g', '__init__']))
    else:
        target = log_tp(0, P, rng.choice([1, 3, 257]), via)
    block.append(target)
    if nfail == 2:
        # a second pair right behind: failing, ordinary
        block.append(unmatchable_tp(0, P, via) if via == 'custom' else log_tp(0, P, 7, via))
        block.append(log_tp(0, P, 9, via))
    tps[pos:pos + 1] = block
    for _ in range(rng.randint(0, 2)):
        tps.append(log_tp(0, rng.choice([P, 'other.py']), rng.choice([2, 5, 9]), rng.choice(['resp', 'custom'])))
    # configuration order = converted response first, registered ones after: keep the block adjacent in its route
    for i, tp in enumerate(tps):
        tp['id'] = 'tp%d' % i
    loc = th.tp_location(target)
    hit = ['call', rng.choice(DIRS[:9]) + P, rng.choice([1, 10]), loc[2]] if loc[0] == 'func' else \
        ['line', rng.choice(DIRS[:9]) + P, loc[2], rng.choice(FUNCS[:3])]
    events = [[rng.choice(KINDS[:7]), '/app/other.py', rng.choice([1, 2, 3]), 'h'] for _ in range(rng.randint(0, 2))]
    events.append(list(hit))
    for _ in range(rng.randint(2, 8)):
        r = rng.random()
        if r < 0.4:
            events.append(list(hit))
        elif r < 0.7:
            tp = rng.choice([t for t in tps if not t.get('unmatchable')])
            l2 = th.tp_location(tp)
            events.append(['call', '/app/' + l2[1], 1, l2[2]] if l2[0] == 'func' else ['line', '/app/' + l2[1], l2[2], 'f'])
        else:
            events.append([rng.choice(KINDS[:7]), '/app/' + rng.choice([P, 'other.py']), rng.choice([1, 3, 7, 9]),
                           rng.choice(FUNCS[:3])])
    return {'kind': 'loc', 'stream': 'loc-err', 'tps': tps, 'events': events}


def gen_scale_case(rng, tier):
    """SCALE: 20-80 installed tracepoints over several files and many lines, among them same-location groups from
    different sources (polled + registered, registered + registered, polled + polled: the latter merged into one
    trigger by convert_response) — every tracepoint of a location acts there, independently of the others."""
    files = ['m%d.py' % i for i in range(rng.randint(2, 6))]
    n = rng.randint(20, 80)
    tps = []
    locs = []
    while len(tps) < n:
        f = rng.choice(files)
        if rng.random() < 0.25:
            loc = ('func', f, rng.choice(['f', 'g', 'h', 'run', '__init__']))
        else:
            loc = ('line', f, rng.randint(1, 60))
        group = rng.choice([['resp'], ['custom'], ['resp'], ['resp', 'custom'], ['custom', 'custom'], ['resp', 'resp'],
                            ['resp', 'custom', 'custom']])
        locs.append((loc, group))
        for via in group:
            tps.append(log_tp(len(tps), loc[1], loc[2] if loc[0] == 'line' else 0, via,
                              method=loc[2] if loc[0] == 'func' else None))
    rng.shuffle(tps)
    for i, tp in enumerate(tps):
        tp['id'] = 'tp%d' % i
    shared = [l for l, g in locs if len(g) > 1] or [l for l, g in locs]
    events = []
    for _ in range(rng.randint(8, 24)):
        r = rng.random()
        loc = rng.choice(shared) if r < 0.6 else rng.choice(locs)[0]
        ev = ['call', rng.choice(DIRS[:6]) + loc[1], rng.randint(1, 60), loc[2]] if loc[0] == 'func' else \
            ['line', rng.choice(DIRS[:6]) + loc[1], loc[2], rng.choice(FUNCS[:3])]
        if r > 0.9:
            ev[0] = rng.choice(KINDS[:7])
        events.append(ev)
    return {'kind': 'loc', 'stream': 'loc-scale', 'tps': tps, 'events': events}


def gen_case(rng, tier):
    r0 = rng.random()
    if r0 < 0.25:
        return gen_err_case(rng, tier)
    if r0 < 0.4:
        return gen_scale_case(rng, tier)
    ntp = rng.randint(3, 8)
    base = rng.choice(['m.py', 'm.py', 'a.py', 'mödule.py', '<string>', 'm'])
    tps = []
    for n in range(ntp):
        r = rng.random()
        if r < 0.5:
            path = base
        elif r < 0.7:
            path = rng.choice(['x' + base, base[1:] or 'y', base.upper(), base + ' ', base + '.bak', base[:-1] or 'z'])
        elif r < 0.85:
            path = rng.choice(NAMES[:12])
        else:
            path = rng.choice(['/app/', 'src/', './', '/']) + base          # a directory part: never matches
        via = rng.choice(['resp', 'custom'])
        if rng.random() < 0.35:
            tps.append(log_tp(n, path, 0, via, method=rng.choice(FUNCS[:6])))
        else:
            line = rng.choice(LINES[:11]) if via == 'resp' else rng.choice(LINES)
            tps.append(log_tp(n, path, max(line, 0) if via == 'resp' else line, via))
    events = []
    for _ in range(rng.randint(6, 20)):
        r = rng.random()
        if r < 0.55 and tps:
            # aimed at a tracepoint: its own location, then possibly one thing changed
            tp = rng.choice(tps)
            loc = th.tp_location(tp)
            kind = 'line' if loc[0] == 'line' else 'call'
            filename = rng.choice(DIRS) + name_of(loc[1]) if rng.random() < 0.85 else loc[1]
            line = loc[2] if loc[0] == 'line' else rng.choice(LINES)
            func = loc[2] if loc[0] == 'func' else rng.choice(FUNCS)
            m = rng.random()
            if m < 0.15:
                kind = rng.choice(KINDS)
            elif m < 0.3:
                filename = rng.choice(DIRS) + rng.choice(['x', '']) + name_of(loc[1]) + rng.choice(['', '/', ' ', 'c'])
            elif m < 0.4:
                line = line + rng.choice([-1, 1]) if isinstance(line, int) else line
            elif m < 0.5:
                func = rng.choice(FUNCS)
            events.append([kind, filename, line, func])
        else:
            events.append([rng.choice(KINDS), rng.choice(DIRS) + rng.choice(NAMES), rng.choice(LINES),
                           rng.choice(FUNCS)])
    return {'kind': 'loc', 'stream': 'loc', 'tps': tps, 'events': events}


def corpus():
    tps = [log_tp(0, 'm.py', 3, 'resp'), log_tp(1, 'm.py', 3, 'custom'), log_tp(2, 'xm.py', 3, 'resp'),
           log_tp(3, '/app/m.py', 3, 'custom'), log_tp(4, 'm.py', 0, 'resp', method='f'),
           log_tp(5, 'm.py', 300, 'resp'), log_tp(6, 'M.py', 3, 'resp')]
    events = [['line', '/app/m.py', 3, 'f'], ['line', 'm.py', 3, 'f'], ['line', '/other/m.py', 3, 'g'],
              ['line', '/app/xm.py', 3, 'f'], ['line', '/app/m.py/', 3, 'f'], ['line', '/app//m.py', 3, 'f'],
              ['return', '/app/m.py', 3, 'f'], ['exception', '/app/m.py', 3, 'f'], ['call', '/app/m.py', 3, 'f'],
              ['call', '/app/m.py', 1, 'g'], ['line', '/app/m.py', 300, 'f'], ['line', '/app/m.py', 301, 'f'],
              ['LINE', '/app/m.py', 3, 'f'], ['line', 'C:\\app\\m.py', 3, 'f'], ['line', '/app/M.py', 3, 'f'],
              ['line', '/app/m.py', 2 ** 40, 'f'], ['opcode', '/app/m.py', 3, 'f']]
    u = [log_tp(0, 'other.py', 1, 'resp'), unmatchable_tp(1, 'm.py', 'custom'), log_tp(2, 'm.py', 0, 'custom', method='f'),
         unmatchable_tp(3, 'm.py', 'custom'), log_tp(4, 'm.py', 3, 'custom')]
    big = [log_tp(i, 'm%d.py' % (i % 3), 1 + i // 3, 'resp' if i % 2 else 'custom') for i in range(20)] + \
        [log_tp(20, 'm0.py', 1, 'resp'), log_tp(21, 'm0.py', 1, 'custom'), log_tp(22, 'm1.py', 2, 'custom'),
         log_tp(23, 'm1.py', 0, 'custom', method='f'), log_tp(24, 'm1.py', 0, 'resp', method='f')]
    return [{'kind': 'loc', 'stream': 'loc', 'tps': tps, 'events': events},
            # error path: a failing location check directly before an ordinary tracepoint, first event = its location
            {'kind': 'loc', 'stream': 'loc-err', 'tps': u,
             'events': [['call', '/app/m.py', 1, 'f'], ['line', '/app/m.py', 3, 'f'], ['call', '/app/m.py', 1, 'f'],
                        ['line', '/app/m.py', 3, 'f'], ['line', '/app/other.py', 1, 'h']]},
            # scale: 25 installed tracepoints, same-location groups from different sources
            {'kind': 'loc', 'stream': 'loc-scale', 'tps': big,
             'events': [['line', '/app/m0.py', 1, 'f'], ['line', '/app/m1.py', 2, 'f'], ['call', '/app/m1.py', 9, 'f'],
                        ['line', '/app/m2.py', 1, 'g'], ['return', '/app/m0.py', 1, 'f']]}]


def label(case, obs):
    if 'raised' in obs:
        return 'loc/raised'
    n = sum(len(o['ids']) for o in obs['events'])
    if case.get('stream') in ('loc-err', 'loc-scale'):
        return '%s/%s' % (case['stream'], 'none' if n == 0 else 'few' if n < 6 else 'many')
    with_dir = any('/' in tp['path'] for tp in case['tps'])
    return 'loc/%s/%s' % ('dir-path' if with_dir else 'names', 'none' if n == 0 else 'few' if n < 6 else 'many')


def nontrivial(case, obs):
    """some tracepoint acted, and some event that differs from a tracepoint's location in the file name only (same
    kind / line / function, another name ending in or containing that name) produced nothing for it"""
    if 'raised' in obs:
        return False
    if not any(o['ids'] for o in obs['events']):
        return False
    if case.get('stream') in ('loc-err', 'loc-scale'):
        return True
    for ev, o in zip(case['events'], obs['events']):
        for tp in case['tps']:
            loc = th.tp_location(tp)
            near = (loc[0] == 'line' and ev[0] == 'line' and ev[2] == loc[2]) or \
                   (loc[0] == 'func' and ev[0] == 'call' and ev[3] == loc[2])
            if near and name_of(ev[1]) != loc[1] and (loc[1] in ev[1] or name_of(loc[1]) in ev[1]) \
                    and tp['id'] not in o['ids']:
                return True
    return False


def shrink(case):
    for key in ('events', 'tps'):
        xs = case[key]
        for i in range(len(xs)):
            c = dict(case)
            c[key] = xs[:i] + xs[i + 1:]
            if c[key]:
                yield c
