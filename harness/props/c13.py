"""C13 — registering a tracepoint in code returns a handle that removes exactly it.

Drives the REAL `Deep.register_tracepoint` / `TracepointRegistration.unregister` (Deep constructed, never started;
fake grpc channel; the pool inside the real TaskHandler replaced by a step executor) through op sequences with
several registrations per location and service updates in between, apply tasks run in a generated order."""
import core
import svcbench
import svcref

ID = 'C13'
EXTRACT = ['configsvc']
LEAN_TARGETS = ['DeepModel.Props.C13']
AUDIT = 'DeepModel/Audit/C13.lean'
DRIVER = 'DeepModel/Driver/C13.lean'
BUDGET = {'quick': 850, 'thorough': 8000}
RULE = ('[call forms, oracle only (1 in 7): 1..4 registrations through Deep.register_tracepoint with each of args / '
        'watches / metrics omitted, None, empty or given, some unregistered, then every location hit once through the '
        'real trace_call: one snapshot per live registration] [line-granular preemption, oracle only: 6 victim/intruder pairs x the victim parked before its k-th line in '
        'tracepoint_config.py, k = 1..24] op sequences (1..15 ops, thorough ..40): register (3 locations only, so most registrations share file+line '
        'with another; unique watch as the distinguishing tag; varied args; 5% with an unknown stage), unregister (live handle, already '
        'unregistered handle, never issued handle), service answers through LongPoll.poll against a scripted fake '
        'channel (UPDATE with 0..3 tracepoints on the same locations, NO_CHANGE; ts_nanos arbitrary, not monotone), apply tasks run one at a time in a random order (35% of cases: '
        'split into their regions with register/unregister in between), usually drained at the end. Non-trivial = an unregister removes a registration while another live registration shares '
        'its file and line. Distinct = distinct canonical JSON of the case.')
TRUSTED = ['uuid4 handles are unique (modelled as fresh naturals)',
           'build_trigger is a function of (path, line, args, watches, metrics) — the model carries its result as an '
           'opaque tracepoint (path, line, tag)',
           'threading.Lock / Thread / concurrent.futures.Future behave as documented (step executor, gate listener)']
ASSUMPTIONS = ['after-close cases (1 in 11): the handle of a register call that was refused is never used (the caller got an '
               'exception, not a handle); whether the refusal is visible is judged by C09, not here',
               'a registration whose arguments build_trigger cannot interpret (unknown `stage`) is expected to stay '
               'inactive and to leave every other tracepoint alone',
               'register / unregister are not called after TaskHandler.flush (submit is refused then, see C09)']


def gen_case(rng, tier):
    s = svcref.Sched(rng)
    split = rng.random() < 0.35      # also place register / unregister between the regions of a running apply task
    n = rng.randint(1, 15 if tier == 'quick' else rng.choice([15, 25, 40]))
    for _ in range(n):
        r = rng.random()
        if r < 0.36:
            s.register()
        elif r < 0.60 and s.ref.nreg:
            q = rng.random()
            if q < 0.08:
                s.unregister(s.ref.nreg + rng.randint(0, 2))         # never issued
            else:
                s.unregister()                                        # live or already unregistered
        elif r < 0.70:
            s.update()
        elif r < 0.74:
            s.nochange()
        elif split and rng.random() < 0.6:
            s.read() if rng.random() < 0.5 else (s.advance() or s.start())
        elif not s.apply():
            s.advance() or s.register()
    if rng.random() < 0.85:
        s.drain(atomic_only=not split)
    return {'kind': 'seq', 'ops': s.ops}


def gen_closed(rng):
    """registrations (several per location) and service updates while open, all applied; then, after the real
    TaskHandler.flush(), unregister calls (live / already removed / never issued handles, some twice) and late
    register calls"""
    s = svcref.Sched(rng)
    for _ in range(rng.randint(1, 5)):
        rng.choice([s.register, s.register, s.register, s.update, s.unregister])()
    s.drain(atomic_only=True)
    closed = []
    for _ in range(rng.randint(1, 5)):
        r = rng.random()
        if r < 0.7 and s.ref.nreg:
            # a never-issued handle is far beyond the numbers late (refused) register calls use up
            closed.append({'op': 'unregister', 'handle': s.ref.nreg + 50 if rng.random() < 0.1
                           else rng.randrange(s.ref.nreg)})
        else:
            d = s.tp('late', 0.1)
            d['op'] = 'register'
            closed.append(d)
    return {'kind': 'closed', 'ops': s.ops, 'closed': closed}


def gen_many(rng):
    """SCALE: many registrations (most on other lines), two of them on one line, everything applied, then one of the two
    (and a few others) unregistered and applied"""
    n = rng.choice([34, 40, 64, rng.randint(34, 200)])
    ops = []
    twin = sorted(rng.sample(range(n), 2))
    for i in range(n):
        line = 500 if i in twin else 1000 + i
        ops.append({'op': 'register', 'path': 'a.py' if i % 3 else 'b.py', 'line': line, 'tag': 'm%d' % i, 'args': {}})
    ops += [{'op': 'applyTask', 'i': 0}] * n
    gone = [rng.choice(twin)] + rng.sample(range(n), rng.randint(0, 3))
    seen = []
    for h in gone:
        ops.append({'op': 'unregister', 'handle': h})
        if h not in seen:
            ops.append({'op': 'applyTask', 'i': 0})
            seen.append(h)
    return {'kind': 'seq', 'ops': ops}


def gen(rng, tier):
    for c in svcref.preempt_cases():
        yield c
    for c in outside_cases():
        yield c
    k = 0
    while True:
        k += 1
        if k in (9, 209, 409):
            yield svcref.gen_backlog(rng, custom=True)     # SCALE: register / unregister behind 1000..3000 queued tasks
        elif k in (19, 219, 419, 619):
            yield gen_many(rng)                            # SCALE: 34..200 registrations, two on one line, unregister
        else:
            yield svcref.gen_hits(rng) if k % 7 == 0 else gen_closed(rng) if k % 11 == 3 else gen_case(rng, tier)


def corpus():
    minimal = {'kind': 'hits', 'regs': [{'path': 'a.py', 'line': 10, 'form': {}}], 'unregister': []}
    reg = lambda tag, line=10, **a: {'op': 'register', 'path': 'a.py', 'line': line, 'tag': tag, 'args': a}   # noqa: E731
    ap = lambda i: {'op': 'applyTask', 'i': i}   # noqa: E731
    return [
        minimal,     # deep.register_tracepoint(path, line) — nothing else given — must fire
        # D16: two registrations on a.py:10, the second is unregistered
        {'kind': 'seq', 'ops': [reg('w1'), reg('w2'), ap(0), ap(0), {'op': 'unregister', 'handle': 1}, ap(0)]},
        # unregister twice, then the first
        {'kind': 'seq', 'ops': [reg('w1'), reg('w2'), reg('w3', 11), {'op': 'unregister', 'handle': 1},
                                {'op': 'unregister', 'handle': 1}, {'op': 'unregister', 'handle': 0},
                                ap(4), ap(3), ap(2), ap(1), ap(0)]},
        # after TaskHandler.flush(): the second of two registrations on one line goes, again (quiet), a late registration
        {'kind': 'closed', 'ops': [reg('w1'), reg('w2'), ap(0), ap(0)],
         'closed': [{'op': 'unregister', 'handle': 1}, {'op': 'unregister', 'handle': 1}, reg('late'),
                    {'op': 'unregister', 'handle': 0}, {'op': 'unregister', 'handle': 7}]},
        # SCALE: 40 registrations, two of them on one line; the second of the two goes
        {'kind': 'seq', 'ops': [reg('m%d' % i, 500 if i in (7, 21) else 1000 + i) for i in range(40)] + [ap(0)] * 40 +
                               [{'op': 'unregister', 'handle': 21}, ap(0)]},
        {'kind': 'backlog', 'n': 1100, 'ops': [reg('w1'), reg('w2'), {'op': 'unregister', 'handle': 0}]},
        # alongside a service configuration on the same line
        {'kind': 'seq', 'ops': [reg('w1'), {'op': 'poll', 'nc': False, 'rt': 1, 'ts': 5, 'hash': 'h1', 'tps': [
            {'path': 'a.py', 'line': 10, 'tag': 's1', 'args': {}}]}, ap(1), ap(0),
            {'op': 'unregister', 'handle': 0}, ap(0)]},
        # the poll time stamp goes backwards, then a registration and its removal
        {'kind': 'seq', 'ops': [{'op': 'poll', 'nc': False, 'rt': 1, 'ts': 1000, 'hash': 'h1', 'tps': [
            {'path': 'a.py', 'line': 10, 'tag': 's1', 'args': {}}]}, ap(0),
            {'op': 'poll', 'nc': True, 'rt': 0, 'ts': 5, 'hash': '', 'tps': []},
            reg('w1'), ap(0), {'op': 'unregister', 'handle': 0}, ap(0)]},
    ]


def outside_statement(case):
    """two application threads inside add_custom / remove_custom at once: the statement speaks of SEQUENCES of calls, so
    these cases are run and recorded (label 'outside-statement') but not judged"""
    return case.get('kind') == 'preempt' and case['victim']['op'] in ('register', 'unregister') \
        and case['intruder']['op'] in ('register', 'unregister')


def outside_cases():
    ap = {'op': 'applyTask', 'i': 0}
    out = []
    for k in (4, 5, 6):
        out.append({'kind': 'preempt', 'k': k, 'prefix': [svcref._r('a'), ap], 'victim': svcref._r('b', 11),
                    'intruder': svcref._r('c', 12), 'then': [{'op': 'unregister', 'handle': 2}]})
    for k in (3, 4, 5):
        out.append({'kind': 'preempt', 'k': k,
                    'prefix': [svcref._r('a'), svcref._r('b', 11), svcref._r('c', 12), ap, ap, ap],
                    'victim': {'op': 'unregister', 'handle': 1}, 'intruder': {'op': 'unregister', 'handle': 0}})
    return out


def run_impl(case):
    if case['kind'] == 'hits':
        return svcbench.run_hits(case)
    if case['kind'] == 'preempt':
        return svcbench.run_preempt(case)
    if case['kind'] == 'backlog':
        return svcbench.run_backlog(case)
    if case['kind'] == 'closed':
        return svcbench.run_closed(case)
    return svcbench.run_ops(case['ops'])


def oracle(case, obs):
    if outside_statement(case):
        return []
    if case['kind'] == 'hits':
        return svcref.hits_oracle(case, obs)
    if case['kind'] == 'preempt':
        return svcref.preempt_oracle(case, obs)
    if case['kind'] == 'closed':
        return oracle_closed(case, obs)
    if case['kind'] == 'backlog':
        return svcref.backlog_oracle(case, obs)
    v = []
    ref = svcref.Reference()
    for n, (op, t) in enumerate(zip(case['ops'], obs['trace'])):
        if 'raised' in t:
            v.append(f'op {n} {op["op"]} raised {t["raised"]}')
        if op['op'] == 'register' and not t.get('is_registration'):
            v.append(f'op {n}: register_tracepoint did not return a TracepointRegistration')
        ref.apply(op)
        want = sorted(ref.live.values())
        if t.get('custom') is not None and sorted(t['custom']) != want:
            v.append(f'after op {n} ({op["op"]} {op.get("handle", op.get("tag", ""))}): registered in code '
                     f'{sorted(t["custom"])}, the register/unregister history leaves {want}')
        if n and op['op'] in ('register', 'unregister') and t['polled'] != obs['trace'][n - 1]['polled']:
            v.append(f'op {n} {op["op"]} changed the service configuration')
        if t['queued'] == 0 and t['pre'] == 0 and t['holding'] == 0 and sorted(t['installed']) != ref.expected():
            v.append(f'after op {n}, nothing in flight: installed {sorted(t["installed"])}, expected (service '
                     f'configuration + live registrations) {ref.expected()}')
        if len(v) >= 4:
            break
    return v


def oracle_closed(case, obs):
    """after the task handler was closed: a handle still removes exactly its own registration from what the service
    keeps, a handle that is not (or no longer) registered removes nothing and raises nothing, and neither call touches
    the service's configuration.  (Whether the refusal is visible is C09's clause.)"""
    v = []
    if obs.get('bench_error'):
        return v
    ref = svcref.Reference()
    for op in case['ops']:
        ref.apply(op)
    prev = obs.get('at_close') or {}
    late = 0
    for n, (op, t) in enumerate(zip(case['closed'], obs['closed_trace'])):
        what = f'after TaskHandler.flush(), call {n} ({op["op"]} {op.get("handle", op.get("tag", ""))})'
        if op['op'] == 'unregister' and t.get('custom') is not None and prev.get('custom') is not None:
            live = op['handle'] in ref.live
            want = list(prev['custom'])
            if live:
                me = ref.live[op['handle']]
                if me in want:
                    want.remove(me)
            else:
                if 'raised' in t:
                    v.append(f'{what}: the handle is not registered (any more) and unregister raised {t["raised"]}')
            if sorted(t['custom']) != sorted(want):
                v.append(f'{what}: registered in code {sorted(t["custom"])}, expected {sorted(want)} '
                         f'({"its own registration removed" if live else "nothing removed"})')
        if prev and t['polled'] != prev.get('polled'):
            v.append(f'{what} changed the service configuration')
        if t.get('custom_n') is not None and t.get('custom_ids_n') is not None and t['custom_n'] != t['custom_ids_n']:
            v.append(f'{what}: the service now keeps {t["custom_n"]} registered tracepoint(s) under {t["custom_ids_n"]} '
                     f'handle(s) — handles and tracepoints are no longer paired (every handle theorem rests on the pairing)')
        if op['op'] == 'register':
            late += 1
            ref.nreg += 1            # the handle number is used up; the caller holds no handle
        else:
            ref.apply(op)
        prev = t
        if len(v) >= 4:
            break
    return v


def model_request(case, obs):
    if case['kind'] == 'backlog':
        return svcref.backlog_request(case)
    if case['kind'] == 'closed':
        return {'ops': svcref.driver_ops(case['ops']) + [{'op': 'applyTask', 'i': 0}] * 40,
                'closed_ops': svcref.driver_ops(case['closed'])}
    if case['kind'] == 'hits':
        return None          # whether an installed action fires is C02/C03's model, not this one
    if case['kind'] == 'preempt':
        return None          # the model has no regions inside update_new_config / add_custom / remove_custom
    return {'ops': svcref.driver_ops(case['ops'])}


def compare(case, obs, resp):
    if case['kind'] == 'backlog':
        return svcref.backlog_compare(case, obs, resp)
    if case['kind'] == 'closed':
        if 'error' in resp:
            return ['model error: ' + resp['error']]
        if obs.get('bench_error'):
            return ['the bench could not run the case on this implementation: ' + obs['bench_error']]
        d = []
        for n, (op, m, i) in enumerate(zip(case['closed'], resp['closed_trace'], obs['closed_trace'])):
            what = f'after close, call {n} {op["op"]}'
            if i.get('custom') is not None and sorted(m['custom']) != sorted(i['custom']):
                d.append(f'{what}: custom model {sorted(m["custom"])} vs implementation {sorted(i["custom"])}')
            if m['queued'] != i['queued']:
                d.append(f'{what}: queued model {m["queued"]} vs implementation {i["queued"]}')
            for key in ('custom_n', 'custom_ids_n'):
                if i.get(key) is not None and m[key] != i[key]:
                    d.append(f'{what}: {key} model {m[key]} vs implementation {i[key]}')
            # the exception conjuncts (`.2 = (none, some e)` / `.2 = some e`): did the refusal leave the call
            if m['raised'] != ('raised' in i):
                d.append(f'{what}: refusal raised into the caller: model {m["raised"]} vs implementation '
                         f'{i.get("raised", "returned normally")}')
            if svcref.norm_hash(m['hash']) != svcref.norm_hash(i['hash']):
                d.append(f'{what}: hash model {m["hash"]!r} vs implementation {i["hash"]!r}')
            if sorted(m['polled']) != sorted(i['polled']):
                d.append(f'{what}: polled model {sorted(m["polled"])} vs implementation {sorted(i["polled"])}')
        return d[:4]
    return svcref.compare_traces(case['ops'], obs, resp)


def _shared_removals(case):
    """number of unregister ops that remove a registration while another live one shares its file and line"""
    ref = svcref.Reference()
    n = 0
    for op in case['ops']:
        if op['op'] == 'unregister' and op['handle'] in ref.live:
            me = ref.live[op['handle']]
            if any(h != op['handle'] and t[:2] == me[:2] for h, t in ref.live.items()):
                n += 1
        ref.apply(op)
    return n


def label(case, obs):
    if case['kind'] == 'backlog':
        return 'scale/backlog-%s' % ('1000+' if case['n'] >= 1000 else 'small')
    if case['kind'] == 'closed':
        ks = sorted({o['op'] for o in case['closed']})
        return 'after-close/' + '+'.join(ks)
    if case['kind'] == 'hits':
        forms = {r['form'].get('watches', 'omitted') for r in case['regs']}
        return 'hits/watches-' + '+'.join(sorted(forms))
    if outside_statement(case):
        return 'outside-statement/concurrent-%s-vs-%s/%s' % (
            case['victim']['op'], case['intruder']['op'],
            'lists-misaligned' if svcref.preempt_oracle(case, obs) else 'consistent')
    if case['kind'] == 'preempt':
        return 'preempt/%s-vs-%s/%s' % (case['victim']['op'], case['intruder']['op'],
                                        'parked' if obs.get('reached') else 'beyond-last-line')
    ks = [o['op'] for o in case['ops']]
    return ('degraded/' if obs.get('degraded') else '') + ('shared-loc-removal' if _shared_removals(case) else 'removal' if 'unregister' in ks else 'no-removal') + \
        ('/service' if 'poll' in ks else '') + ('/settled' if obs['trace'] and obs['trace'][-1]['queued'] + obs['trace'][-1]['pre'] + obs['trace'][-1]['holding'] == 0 else '/in-flight')


def nontrivial(case, obs):
    if case['kind'] == 'backlog':
        return True
    if case['kind'] == 'closed':
        return any(o['op'] == 'unregister' for o in case['closed'])
    if outside_statement(case):
        return False
    if case['kind'] == 'hits':
        return any(r['form'].get(k, 'omitted') != 'nonempty' for r in case['regs'] for k in ('args', 'watches', 'metrics'))
    if case['kind'] == 'preempt':
        return bool(obs.get('reached'))
    return _shared_removals(case) > 0


def shrink(case):
    if case['kind'] == 'backlog':
        for i in range(len(case['ops']) - 1, -1, -1):
            if len(case['ops']) > 1 and case['ops'][i]['op'] != 'register':
                yield dict(case, ops=case['ops'][:i] + case['ops'][i + 1:])
        return
    if case['kind'] == 'closed':
        for i in range(len(case['closed']) - 1, -1, -1):
            if len(case['closed']) > 1:
                yield dict(case, closed=case['closed'][:i] + case['closed'][i + 1:])
        return
    if case['kind'] == 'hits':
        for i in range(len(case['regs'])):
            if len(case['regs']) > 1:
                un = [j - (j > i) for j in case.get('unregister', []) if j != i]
                yield {'kind': 'hits', 'regs': case['regs'][:i] + case['regs'][i + 1:], 'unregister': un}
        return
    if case['kind'] == 'preempt':
        return
    ops = case['ops']
    for n in range(len(ops) - 1, 0, -1):
        yield {'kind': 'seq', 'ops': ops[:n]}
    for i in range(len(ops)):
        if ops[i]['op'] not in ('register',):
            yield {'kind': 'seq', 'ops': ops[:i] + ops[i + 1:]}
