"""C07 — the snapshot variable table is closed and de-duplicated by object identity."""
import json
import core
from props import collector_common as cc

ID = 'C07'
EXTRACT = ['collector', 'frames', 'collector_time', 'collector_deferred']
LEAN_TARGETS = ['DeepModel.Props.C07']
AUDIT = 'DeepModel/Audit/C07.lean'
DRIVER = 'DeepModel/Driver/C05.lean'
BUDGET = {'quick': 1000, 'thorough': 12000}
TIME = {'quick': 75, 'thorough': 800}
RULE = ('object graphs as for C05 with sharing probability 0-0.5, self- and mutually-referential lists / dicts / objects / '
        'exception args, bound to a real frame; budget hit or not (maxVars from {0,1,3,10,25,default}); watches whose value '
        'is a local, a sub-object of a local, a fresh temporary ({"k": 1} vs {"k": 2}, [a, 1], (a, a)), an equal-but-distinct '
        'object, or an evaluation error; log fields; captured return values / raised exceptions; several frames sharing '
        'objects (MockFrame chain, all_frame). Oracle: closure of every reference, one object one id (identity by `is` on '
        'the live objects), children / frame variables / watch results denote the right live object, temporaries never share '
        'an id; values whose inspection raises and captures after the budget is exhausted are in the judged stream. A separate '
        'labelled stream for the recorded finding (locals dict referenced from the frame or a watch). Non-trivial = some object is reached by two references or the budget was '
        'hit. Distinct = canonical JSON of the case.')
TRUSTED = ['CPython frame.f_locals / eval / id() semantics (the locals dict of a frame is one object per frame in 3.12)',
           'harness/props/collector_common.py: object builder, raw-fact walker (describe_heap), identity bookkeeping']
ASSUMPTIONS = ['distinct live objects have distinct id(); values created by watch expressions stay alive while the action '
               'runs because process_variable holds them (c07_ids_stable re-checks that the code still does)']

D31 = 'C07/locals-dict-self-reference'


def gen(rng, tier):
    big = tier == 'thorough'
    while True:
        r = rng.random()
        n = rng.choice([120, 250, 400]) if big and rng.random() < 0.1 else None
        if r < 0.55:
            yield cc.gen_case(rng, nobj=n, hostile=rng.choice([0, 0, 0.05]))
        elif r < 0.65:
            yield cc.gen_case(rng, nobj=n, small=False)
        elif r < 0.75:
            yield cc.gen_case(rng, capture=rng.choice(['return', 'exception']),
                              lim={'vars': None, 'str': rng.choice([8, None]), 'coll': rng.choice([3, None]),
                                   'depth': rng.choice([3, 5, None])})
        elif r < 0.85:
            yield cc.gen_case(rng, mock_frames=rng.randint(2, 3), frame_type='all_frame')
        elif r < 0.91:
            yield cc.gen_case(rng, nactions=2)
        elif r < 0.917:
            # a log message that cannot be formatted over a value not in the frame, then a deferred capture of that value
            yield cc.gen_log_format(rng)
        elif r < 0.922:
            # a watch whose collection aborts part-way, then watches reaching what it had numbered (recorded finding)
            yield cc.gen_aborted(rng)
        elif r < 0.932:
            # a local of one frame is the f_locals dict of another frame of the chain (recorded finding D31, multi-frame shape)
            yield cc.gen_frame_locals(rng)
        elif r < 0.95:
            # the locals dict of the frame referenced from the frame itself or from a watch (recorded finding D31)
            c = cc.gen_case(rng, nobj=rng.choice([3, 6, 10]), stream='d31')
            k = rng.random()
            if k < 0.5:
                c['locals_self'] = 'loc'
            elif k < 0.8:
                c['actions'][0].setdefault('watches', []).append(rng.choice(['locals()', '[locals()]']))
            else:
                c['locals_self'] = 'loc'
                c['actions'][0].setdefault('watches', []).append('loc')
            yield c
        elif r < 0.955:
            # dict views among the locals, then a watch that creates many new pairs
            c = cc.gen_case(rng, nobj=rng.choice([6, 10]), stream='views', watches=False,
                            lim={'vars': None, 'str': None, 'coll': rng.choice([None, 50]), 'depth': None})
            for k in rng.sample(['dict_items', 'dict_keys', 'dict_values'], rng.randint(1, 3)):
                c['objs'] = c['objs'] + [{'t': 'atom', 'k': k}]
                c['locals'] = [['view_' + k, len(c['objs']) - 1]] + c['locals']
            c['actions'][0]['watches'] = [rng.choice(['[(i, str(i)) for i in range(40)]', '[(i, i * 1000) for i in range(30)]',
                                                      'list(zip(range(1000, 1040), range(2000, 2040)))'])]
            yield c
        elif r < 0.965:
            # a string that is not valid text (lone surrogate, as os.fsdecode gives for undecodable file names): either
            # nothing is sent (the open finding C08/lone-surrogate-dropped) or what is sent is closed
            c = cc.gen_case(rng, nobj=rng.choice([6, 10, 16]), stream='surrogate')
            c['objs'] = c['objs'] + [{'t': 'str', 'v': rng.choice(['report-\udcff.txt', 'v\ud800', '\udfff'])},
                                     {'t': 'list', 'e': [len(c['objs'])]}]
            c['locals'] = c['locals'] + [[rng.choice(['fname', 'path']), len(c['objs']) - rng.choice([1, 2])]]
            yield c
        elif r < 0.975:
            # nothing collected before the log message (no frame variables, no watches), then a capture: log values and
            # the captured value must still be numbered by ONE cache
            c = cc.gen_case(rng, nobj=rng.choice([6, 10, 16]), capture=rng.choice(['return', 'return', 'exception']),
                            watches=False, stream='log-then-capture', frame_type='no_frame',
                            lim={'vars': None, 'str': None, 'coll': rng.choice([None, 3]), 'depth': rng.choice([None, 3])})
            if rng.random() < 0.3:
                c['frame_type'] = 'single_frame'
                c['time_exceeded'] = True
            names = [nm for nm, _ in c['locals']] or ['0']
            fields = [rng.choice(names + ['[%s, 1]' % names[0], '"a" + "b"']) for _ in range(rng.randint(1, 2))]
            fields = [f for f in fields if not any(ch in f for ch in '{}!:')]
            c['actions'][0]['log'] = 'log ' + ' '.join('%d={%s}' % (k, f) for k, f in enumerate(fields))
            if c.get('capture') == 'return' and rng.random() < 0.5:
                c['capture_expr'] = rng.choice(['[%s, 2]' % names[0], names[-1], '(%s, %s)' % (names[0], names[-1])])
            yield c
        elif r < 0.985:
            # the budget runs out while a WATCH is being collected, then a capture yields an object that watch recorded
            c = cc.gen_case(rng, nobj=rng.choice([10, 16, 25]), capture='return', watches=False, stream='watch-cut-capture',
                            frame_type=rng.choice(['no_frame', 'no_frame', 'single_frame']),
                            lim={'vars': rng.choice([1, 2, 3, 5]), 'str': None, 'coll': None,
                                 'depth': rng.choice([None, 1, 2])})
            wide = [(nm, j) for nm, j in c['locals'] if c['objs'][j]['t'] in ('list', 'tuple') and len(c['objs'][j]['e']) >= 2]
            if wide:
                nm, j = rng.choice(wide)
                c['actions'][0]['watches'] = [nm] + ([nm] if rng.random() < 0.3 else [])
                c['capture_expr'] = rng.choice(['%s[0]' % nm, '%s[1]' % nm, nm, '%s[-1]' % nm])
            yield c
        else:
            # a captured return value after the budget is used up
            yield cc.gen_case(rng, nobj=rng.choice([10, 16, 25]), capture='return', watches=False, stream='capture-budget',
                              lim={'vars': rng.choice([0, 1, 3]), 'str': None, 'coll': None, 'depth': None})


def known_replays():
    return [
        (D31, 'x = 1; l = locals(): the frame lists `l` under the id of the locals pseudo-entry, which is deleted',
         {'objs': [{'t': 'int', 'v': 1}], 'locals': [['x', 0]], 'locals_self': 'l', 'frame_type': 'single_frame',
          'stream': 'd31', 'actions': [{'limits': {}}]}),
        (cc.K_ABORT, "watches '[SH, BAD]', 'SH', '[SH]' with str(BAD) raising a BaseException: the first watch is an error, the "
                     "second gets the id the first gave SH, which has no entry",
         {'objs': [{'t': 'int', 'v': 1}, {'t': 'str', 'v': 'shared value'}, {'t': 'aborting', 'k': 'str_stops'}],
          'locals': [['x', 0]], 'globals': [['SH', 1], ['BAD', 2]], 'frame_type': 'single_frame', 'stream': 'aborted-watch',
          'actions': [{'limits': {}, 'watches': ['[SH, BAD]', 'SH', '[SH]']}]}),
        (cc.K_ABORT, "the same with type(BAD).__name__ raising through a metaclass property (an ordinary RuntimeError)",
         {'objs': [{'t': 'int', 'v': 1}, {'t': 'str', 'v': 'shared value'}, {'t': 'aborting', 'k': 'meta_name'}],
          'locals': [['x', 0]], 'globals': [['SH', 1], ['BAD', 2]], 'frame_type': 'single_frame', 'stream': 'aborted-watch',
          'actions': [{'limits': {}, 'watches': ['[SH, BAD]', 'SH']}]}),
        (cc.K_LOGFMT, 'a snapshot tracepoint whose log message has a numeric format spec over a text-interpolated value: '
                      'process_log raises ValueError out of the snapshot action and the due snapshot is not pushed',
         json.loads('{"objs": [{"t": "tuple", "e": []}, {"t": "int", "v": 0}, {"t": "int", "v": 1}, {"t": "str", "v": "0.25"}, {"t": "dict", "k": [[{"s": "eur"}, 3], [{"s": "usd"}, 0]]}], "locals": [["d", 2]], "frame_type": "single_frame", "stream": "log-format", "actions": [{"limits": {"vars": null, "str": null, "coll": null, "depth": null}, "log": "d={d} rate={RATES:.4f}"}], "capture": "return", "capture_expr": "[RATES, 1000]", "globals": [["RATES", 4]], "stage": "line_capture"}')),
        (D31, 'watch `locals()`: the watch result points at the deleted locals pseudo-entry',
         {'objs': [{'t': 'int', 'v': 1}], 'locals': [['x', 0]], 'frame_type': 'single_frame', 'stream': 'd31',
          'actions': [{'limits': {}, 'watches': ['locals()']}]}),
    ]


def corpus():
    return [
        # an int that is also an object (IntEnum member: its attributes are its children) next to plain ints and strings
        {'objs': [{'t': 'atom', 'k': 'intenum'}, {'t': 'int', 'v': 7}, {'t': 'str', 'v': 'plain'}, {'t': 'list', 'e': [1, 0, 2]}],
         'locals': [['level', 0], ['n', 1], ['s', 2], ['xs', 3]], 'frame_type': 'single_frame', 'stream': 'corpus',
         'actions': [{'limits': {}, 'watches': ['n', 'level']}]},
        # a captured return value after the budget is used up must not be attached without id
        {'objs': [{'t': 'list', 'e': [1, 2, 3]}, {'t': 'int', 'v': 1}, {'t': 'int', 'v': 2}, {'t': 'int', 'v': 3},
                  {'t': 'str', 'v': 'bb'}],
         'locals': [['a', 0], ['b', 4]], 'frame_type': 'single_frame', 'stream': 'corpus', 'capture': 'return',
         'capture_expr': '[a, b, 7]', 'actions': [{'limits': {'vars': 2}}]},
        # dict views in the frame, then a watch that creates many new pairs
        {'objs': [{'t': 'atom', 'k': 'dict_items'}, {'t': 'atom', 'k': 'dict_keys'}, {'t': 'atom', 'k': 'dict_values'}],
         'locals': [['items', 0], ['keys', 1], ['values', 2]], 'frame_type': 'single_frame', 'stream': 'corpus',
         'actions': [{'limits': {'coll': 50, 'vars': None}, 'watches': ['[(i, str(i)) for i in range(40)]']}]},
        # a file name that is not valid text, directly and inside a list
        {'objs': [{'t': 'str', 'v': 'report-\udcff.txt'}, {'t': 'list', 'e': [0, 2]}, {'t': 'int', 'v': 7}],
         'locals': [['fname', 0], ['names', 1], ['n', 2]], 'frame_type': 'single_frame', 'stream': 'corpus',
         'actions': [{'limits': {}, 'watches': ['names']}]},
        # nothing collected before the log message, then a capture of another object
        {'objs': [{'t': 'str', 'v': 'alpha'}, {'t': 'list', 'e': [0, 0]}], 'locals': [['a', 0], ['b', 1]],
         'frame_type': 'no_frame', 'stream': 'corpus', 'capture': 'return', 'capture_expr': 'b',
         'actions': [{'limits': {}, 'log': 'value {a}'}]},
        # the budget runs out inside a watch; the return value is an element that watch recorded
        {'objs': [{'t': 'list', 'e': [1, 2, 3, 4]}, {'t': 'str', 'v': 'first'}, {'t': 'str', 'v': 'second'},
                  {'t': 'str', 'v': 'third'}, {'t': 'str', 'v': 'fourth'}],
         'locals': [['reg', 0]], 'frame_type': 'no_frame', 'stream': 'corpus', 'capture': 'return',
         'capture_expr': 'reg[0]', 'actions': [{'limits': {'vars': 2}, 'watches': ['reg']}]},
        # a value whose inspection raises, first seen by a watch, then watched again
        {'objs': [{'t': 'list', 'e': [1, 2]}, {'t': 'int', 'v': 300}, {'t': 'hostile', 'k': 'slots_getattr'}],
         'locals': [['x', 0]], 'frame_type': 'no_frame', 'stream': 'corpus',
         'actions': [{'limits': {}, 'watches': ['x', 'x', 'x[1]']}]},
        # names beginning with '_' + container type name keep their names
        {'objs': [{'t': 'dict', 'k': [[{'s': '_dict_size'}, 1], [{'s': '_list_y'}, 1]]}, {'t': 'int', 'v': 7}],
         'locals': [['_dict_size', 1], ['d', 0]], 'frame_type': 'single_frame', 'stream': 'corpus',
         'actions': [{'limits': {}, 'watches': ['d']}]},
        # D9: two temporaries of the same shape must not share an id
        {'objs': [{'t': 'int', 'v': 1}], 'locals': [['a', 0]], 'frame_type': 'no_frame', 'stream': 'corpus',
         'actions': [{'limits': {}, 'watches': ['{"k": 1}', '{"k": 2}', '{"k": 1000}', '[a, 1]']}]},
        # D10: a watch after the budget is used up
        {'objs': [{'t': 'list', 'e': [1, 2, 3]}, {'t': 'int', 'v': 300}, {'t': 'int', 'v': 301}, {'t': 'int', 'v': 302}],
         'locals': [['a', 0]], 'frame_type': 'single_frame', 'stream': 'corpus',
         'actions': [{'limits': {'vars': 2}, 'watches': ['a[0] + 1000', 'a']}]},
        # a list that contains itself, a dict that contains the list, watched twice
        {'objs': [{'t': 'list', 'e': [0, 1]}, {'t': 'dict', 'k': [[{'s': 'me'}, 1], [{'s': 'lst'}, 0]]}],
         'locals': [['a', 0], ['d', 1]], 'frame_type': 'single_frame', 'stream': 'corpus',
         'actions': [{'limits': {}, 'watches': ['a', 'a[0]', 'd["lst"]']}]},
    ]


def run_impl(case):
    return cc.run_case(case)


def oracle(case, obs):
    live = cc.live_of(obs)
    if live is None:
        raise core.Infra('oracle called without the live objects of its evaluation')
    v = []
    if 'raised' in obs:
        v.append('trace_call raised into the host: ' + obs['raised'])
    got = dict(cc.snapshots_by_action(case, obs))
    for ai, a in enumerate(case['actions']):
        # "in EVERY snapshot ...": a due snapshot that is not produced cannot be closed either — without this a change that
        # loses the snapshot of some object graph would be a mere disagreement with the model
        if obs.get('due', [True] * len(case['actions']))[ai] and ai not in got:
            v.append(f'tracepoint tp{ai}: no snapshot was handed to the push service although it is due')
    for ai, s in got.items():
        v += cc.judge_identity(case, obs, live, ai, s)
    v += cc.judge_wire(case, obs, delivery=False)
    return v


def known_finding(case, obs):
    if cc.log_format_fails(case):
        # the unchanged code loses the whole snapshot when its log message cannot be formatted (candidate finding, C16 / C06
        # territory): the ONLY objection that counts as that finding is the missing snapshot.  A snapshot that IS delivered
        # on such a case is judged like any other (a dangling capture reference is a violation of C07).
        live = cc.live_of(obs)
        if live is not None and 'raised' not in obs and not obs.get('snapshots') and \
                all(x.endswith('although it is due') for x in oracle(case, obs)):
            return cc.K_LOGFMT
        return None
    return known_finding_d31(case, obs)


def known_finding_d31(case, obs):
    """an instance of D31 = the case binds a frame's locals dict to a name / watch AND everything the identity oracle objects to
    is of the one shape the model allows (`C07.c07_dangling_only_locals`): a reference without entry that was made for the
    locals dict of a collected frame.  Anything else on such a case is a violation."""
    if cc.aborted_watch_case(case):
        # an earlier watch / log field of the action aborted: the only objection allowed is a reference without entry
        live = cc.live_of(obs)
        if live is None or 'raised' in obs:
            return None
        for ai, s in cc.snapshots_by_action(case, obs):
            if any('has no entry in the variable table' not in x for x in cc.judge_identity(case, obs, live, ai, s)):
                return None
        return cc.K_ABORT
    if not cc.refers_to_locals(case):
        return None
    live = cc.live_of(obs)
    if live is None or 'raised' in obs:
        return None
    for ai, s in cc.snapshots_by_action(case, obs):
        if any(not x.endswith(cc.D31_TAG) for x in cc.judge_identity(case, obs, live, ai, s)):
            return None
    return D31


def model_request(case, obs):
    if cc.log_format_fails(case):
        return None      # the failure of string formatting is not in the collector model (C16): oracle only
    return cc.model_request(case, obs)


compare = cc.compare
shrink = cc.shrink_case


def shared(case, obs):
    for _, s in cc.snapshots_by_action(case, obs):
        refs = [r[0] for f in s['frames'] for r in f] + [c[0] for e in s['vars'] for c in e['children']] + \
            [w['result'][0] for w in s['watches'] if w['result'] is not None]
        if len(refs) != len(set(refs)):
            return True
    return False


def cut(case, obs):
    for ai, s in cc.snapshots_by_action(case, obs):
        lim = cc.limits_of(case['actions'][ai]['limits'])
        if max(cc.snap_vids(s) | {0}) >= lim['vars'] + 1 or lim['vars'] == 0:
            return True
    return False


def label(case, obs):
    kind = case.get('stream', 'main')
    if kind == 'main':
        kind = 'mock' if case.get('mock') else ('capture' if case.get('capture') else 'frame')
    nw = sum(len(a.get('watches', [])) for a in case['actions'])
    return f"{kind}/{'shared' if shared(case, obs) else 'tree'}/{'cut' if cut(case, obs) else 'full'}/w{min(nw, 3)}"


def nontrivial(case, obs):
    return shared(case, obs) or cut(case, obs)
