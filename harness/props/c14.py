"""C14 — lifecycle: real `Deep` objects with a fake gRPC channel, pre-existing sys/threading trace functions,
NO_TRACE on/off, start/shutdown sequences, failing pending sends / poll calls / plugin shutdowns, threads started
before shutdown."""
import itertools
import sys
import threading
import time
import types

import core
import fc_env
import hostprogs

ID = 'C14'
EXTRACT = ['guards']
LEAN_TARGETS = ['DeepModel.Props.C14']
AUDIT = 'DeepModel/Audit/C14.lean'
DRIVER = 'DeepModel/Driver/C14.lean'
BUDGET = {'quick': 200, 'thorough': 2500}
TIME = {'quick': 70, 'thorough': 840}
EXHAUSTIVE = True
RULE = ('case = pre-existing sys / threading trace functions (none or a host function each) x NO_TRACE x 0-3 custom plugins '
        'x a sequence of 1-11 operations (start, shutdown, hit = run a traced host function with a log tracepoint, late config '
        'update, failing poll, the application installing OTHER trace functions while the agent is shut down followed by a '
        'second start/shutdown cycle; under NO_TRACE also ANOTHER TOOL installing / removing the sys and the threading trace '
        'function separately BETWEEN start and shutdown of one cycle) where every shutdown carries a fault assignment: which plugins raise in shutdown() (Exception or '
        'BaseException class), which of 0-3 pending sends fail, whether the sends are still in flight when shutdown starts (gated '
        'per send: failing ones finish first, the others stay parked beyond the point a non-draining shutdown would return), '
        'whether a thread started before the shutdown keeps running afterwards (SCALE families: 40 tracepoints installed), whether a worker thread of the application was already running before start (with its own sys trace function or none: it reports its own sys.gettrace() after every op and must keep what it had), whether a REAL snapshot upload (real PushService) '
        'failed on the channel just before the shutdown (after shutdown() returned no thread running agent code may be alive '
        'and nothing may reach the channel). The first shutdown of a case enumerates ALL '
        'subsets of its fault points (plugins + sends <= 4) across consecutive cases. Run on a real deep.api.Deep with the '
        'gRPC module replaced by a fake channel. Non-trivial = some fault was active during a shutdown of a started agent, '
        'or a pre-existing trace function was present, or NO_TRACE. start/shutdown of the model are the TRANSLATED method '
        'bodies (Extracted.DeepLC plans run by Lifecycle.execPlan). Separate stream (outside the quantifier, correspondence '
        'only): one service call of the first Deep.start raises (load_plugins / trigger_handler.start / grpc.start / '
        'resource creation / poll.start), retry, shutdown. Labelled known-finding streams: shutdown on another thread; a loaded '
        'plugin whose `shutdown` attribute cannot be read (Deep.shutdown raises before any step).')
TRUSTED = ['sys.settrace / threading.settrace / Thread.join / ThreadPoolExecutor behave as documented (CPython)',
           'the translated TriggerHandler.start/shutdown/new_config (Extracted.TH) — validated by this correspondence run']
ASSUMPTIONS = ['the host does not change the trace functions itself between start and shutdown',
               'no step of Deep.start fails (the statement quantifies over failures during shutdown); a failing start followed '
               'by a retry is exercised in a separate stream and judged only for "a start that returns installs the hooks"']

_G = {}


def G():
    if not _G:
        core.use_repo()
        _G['hosts'] = hostprogs.Hosts()
        _G['grpc'] = fc_env.install_fake_grpc()
        _G['seq'] = itertools.count()
    return _G


class StartFails(Exception):
    pass


def make_plugin_class(name, rec, fail_shutdown, order=0, order_raises=False, unreadable=False):
    """a plugin class `load_plugins` can construct with `plugin(config=config)`"""
    def __init__(self, config=None):
        fc_env.FcPlugin.__init__(self, name, rec, {}, order)
        self.config = config
        rec.add(name, 'construct', None)
        self._shut_fail = fail_shutdown

    def shutdown(self):
        self.rec.add(name, 'shutdown', None)
        if self._shut_fail[0]:
            fc_env._boom(self._shut_fail[0], name + '.shutdown')

    def order_(self):
        if order_raises[0]:
            raise StartFails('order() of ' + name)
        return order

    def log_tracepoint(self, log_msg, tp_id, ctx_id):
        self.rec.add(name, 'log', (tp_id, log_msg))
    if unreadable:
        # the `shutdown` ATTRIBUTE cannot be read (known finding C14/plugin-shutdown-attribute-unreadable)
        def _no_shutdown(self):
            raise AttributeError(name + ' has no usable shutdown')
        shutdown = property(_no_shutdown)
    return type(name, (fc_env.FcPlugin, fc_env.TracepointLogger),
                {'__init__': __init__, 'shutdown': shutdown, 'log_tracepoint': log_tracepoint, 'order': order_,
                 'is_active': lambda self: True})


# ------------------------------------------------------------------------------------------ generation
def agent_threads(before):
    """live threads that were started after `before` was taken and run AGENT code (a threading.Timer's function or a
    Thread's target defined in a deep.* module): after shutdown() returned there must be none — such a thread is a
    delivery / poll / retry the agent still intends to make.  Pool workers (target in concurrent.futures) are idle."""
    out = []
    for t in threading.enumerate():
        if t.ident in before or not t.is_alive():
            continue
        fn = getattr(t, 'function', None) or getattr(t, '_target', None)
        fn = getattr(fn, '__func__', fn)
        mod = getattr(fn, '__module__', None) or ''
        if mod == 'deep' or mod.startswith('deep.'):
            out.append(f'{type(t).__name__} {getattr(fn, "__qualname__", fn)}')
    return sorted(out)


def all_subsets(n):
    for r in range(n + 1):
        for c in itertools.combinations(range(n), r):
            yield list(c)


def gen(rng, tier):
    while True:
        nplug = rng.randint(0, 3)
        ntask = rng.randint(0, 4 - nplug) if nplug < 4 else 0
        ntask = min(ntask, 3)
        base = {'pre_sys': rng.choice([None, 'h']), 'pre_thr': rng.choice([None, 'h']),
                'no_trace': rng.random() < 0.3, 'nplug': nplug, 'update': rng.random() < 0.4}
        # a sequence with at least one shutdown of a started agent; all fault subsets of that shutdown
        tail = []
        tag = [2]

        def host_set():
            tag[0] += 2
            return {'op': 'host_set', 'sys': rng.choice([None, tag[0] - 1]), 'thr': rng.choice([None, tag[0]])}
        if rng.random() < 0.45:
            # the application changes its trace functions while the agent is shut down, then a second cycle
            tail += [host_set(), {'op': 'start'}, {'op': 'hit'},
                     {'op': 'shutdown', 'plugin_faults': [], 'task_faults': [], 'ntask': 0, 'cls': 'exc', 'running': False}]
        for _ in range(rng.randint(0, 4)):
            r = rng.random()
            if r < 0.25:
                tail.append({'op': 'start'})
            elif r < 0.45:
                tail.append({'op': 'shutdown', 'plugin_faults': sorted(rng.sample(range(nplug), rng.randint(0, nplug))),
                             'task_faults': [], 'ntask': 0, 'cls': rng.choice(['exc', 'base']), 'running': False})
            elif r < 0.75:
                tail.append({'op': 'hit'})
            else:
                tail.append({'op': 'late_config'})
        head = [{'op': 'start'}]
        if base['no_trace'] and rng.random() < 0.75:
            # NO_TRACE exists so that ANOTHER tool (debugger, coverage) can use the trace functions while the agent is
            # alive: it installs / removes them between start and shutdown — sys and threading hooks separately
            cur = [1 if base['pre_sys'] else None, 2 if base['pre_thr'] else None]
            for _ in range(rng.randint(1, 2)):
                which = rng.choice(['sys', 'thr', 'both'])
                tag[0] += 2
                if which in ('sys', 'both'):
                    cur[0] = None if (cur[0] is not None and rng.random() < 0.5) else tag[0] - 1
                if which in ('thr', 'both'):
                    cur[1] = None if (cur[1] is not None and rng.random() < 0.5) else tag[0]
                head.append({'op': 'host_set', 'sys': cur[0], 'thr': cur[1]})
                if rng.random() < 0.4:
                    head.append({'op': 'hit'})
        if rng.random() < 0.3:
            head.append({'op': 'start'})
        if rng.random() < 0.7:
            head.append({'op': 'hit'})
        if rng.random() < 0.4:
            head.append({'op': 'poll_fail'})
        if rng.random() < 0.15:
            # shutdown() of an instance that was never started does nothing — in particular a later start() still starts
            head.insert(0, {'op': 'shutdown', 'plugin_faults': [], 'task_faults': [], 'ntask': 0, 'cls': 'exc', 'running': False})
        bg = rng.random() < 0.5
        # SCALE families: 40 tracepoints installed, a thread started before the shutdown keeps running afterwards
        scale = 40 if (not base['update'] and not base['no_trace'] and rng.random() < 0.3) else 0
        if scale:
            bg = True
        # a worker thread of the application that is already running before start (own sys trace function, or none)
        pre_worker = rng.choice(['own', 'none']) if rng.random() < 0.3 else None
        # a real snapshot whose upload fails (once or twice) right before the shutdown
        push_fail = rng.choice([1, 2]) if (not base['no_trace'] and rng.random() < 0.35) else 0
        subsets = list(all_subsets(nplug + ntask))
        if tier == 'quick' and len(subsets) > 6:
            subsets = [subsets[0], subsets[-1]] + rng.sample(subsets[1:-1], 4)
        for sub in subsets:
            tf = [i - nplug for i in sub if i >= nplug]
            # sends still in flight when shutdown starts: always when an earlier send fails and a later one does not
            later_ok = any(j not in tf and any(i < j for i in tf) for j in range(ntask))
            sd = {'op': 'shutdown', 'plugin_faults': [i for i in sub if i < nplug],
                  'task_faults': tf, 'ntask': ntask,
                  'cls': rng.choice(['exc', 'base']), 'running': later_ok or rng.random() < 0.4, 'bg_thread': bg,
                  'late_submit': ntask >= 1 and rng.random() < 0.5}
            if push_fail:
                sd['push_fail'] = push_fail
            c = dict(base)
            if pre_worker:
                c['pre_worker'] = pre_worker
            if scale:
                c['scale'] = scale
            c['ops'] = head + [sd, {'op': 'hit'}] + ([{'op': 'late_config'}] if bg and rng.random() < 0.6 else []) + tail
            yield c
        if rng.random() < 0.5:
            # the trigger handler on its own: start/shutdown cycles with the application changing its hooks in between
            ops, tagn = [], 2
            for _ in range(rng.randint(1, 3)):
                ops += [{'op': 'start'}, {'op': 'shutdown'}]
                if rng.random() < 0.7:
                    tagn += 2
                    ops.append({'op': 'host_set', 'sys': rng.choice([None, tagn - 1]), 'thr': rng.choice([None, tagn])})
            yield {'kind': 'handler', 'pre_sys': base['pre_sys'], 'pre_thr': base['pre_thr'], 'ops': ops}
        if rng.random() < 0.08:
            yield dict(OTHER_THREAD, own_hook=rng.random() < 0.5)       # labelled known-finding stream
        if rng.random() < 0.08:
            k = rng.randint(1, 3)                                       # labelled known-finding stream
            yield dict(UNREADABLE, nplug=k, unreadable=[rng.randrange(k)], pre_sys=rng.choice([None, 'h']),
                       pre_thr=rng.choice([None, 'h']))
        if rng.random() < 0.3:
            # separate stream (outside C14's quantifier, compared with the translated Deep.start only): one service call
            # of the first start raises, the application retries, then shuts down
            c = dict(base)
            c['update'] = False
            c['start_step_fails'] = rng.choice(['load_plugins', 'resource_create', 'th_start', 'grpc_start', 'poll_start'])
            c['ops'] = [{'op': 'start'}, {'op': 'start'}, {'op': 'hit'},
                        {'op': 'shutdown', 'plugin_faults': [], 'task_faults': [], 'ntask': 0, 'cls': 'exc', 'running': False},
                        {'op': 'hit'}]
            yield c
        if rng.random() < 0.25:
            # separate stream: the first start fails while loading plugins, then is retried
            c = dict(base)
            c['nplug'] = max(1, nplug)
            c['start_fails_first'] = True
            c['ops'] = [{'op': 'start'}, {'op': 'start'}, {'op': 'hit'},
                        {'op': 'shutdown', 'plugin_faults': [], 'task_faults': [], 'ntask': 0, 'cls': 'exc', 'running': False}]
            yield c


# known finding C14/shutdown-on-another-thread: sys.settrace is per thread
OTHER_THREAD = {'kind': 'other_thread', 'own_hook': True}
# known finding C14/plugin-shutdown-attribute-unreadable: `steps` is built outside the per-step try of Deep.shutdown
UNREADABLE = {'pre_sys': 'h', 'pre_thr': None, 'no_trace': False, 'nplug': 2, 'unreadable': [1], 'update': False,
              'ops': [{'op': 'start'}, {'op': 'hit'},
                      {'op': 'shutdown', 'plugin_faults': [], 'task_faults': [], 'ntask': 0, 'cls': 'exc', 'running': False}]}


def known_replays():
    return [('C14/shutdown-on-another-thread',
             'start() on thread A and shutdown() on thread B: sys.settrace acts on the calling thread only, so A keeps the '
             'agent\'s trace function after the shutdown and B\'s own trace function is replaced by what A had before start',
             dict(OTHER_THREAD)),
            ('C14/plugin-shutdown-attribute-unreadable',
             'a loaded plugin whose `shutdown` attribute cannot be read: Deep.shutdown builds its list of steps outside the '
             'per-step try, raises before any step, the hooks stay the agent\'s and started stays True',
             dict(UNREADABLE))]


def known_finding(case, obs):
    # structural: shutdown is called on another thread than start / a loaded plugin has an unreadable `shutdown`
    # attribute (labelled streams only)
    if case.get('kind') == 'other_thread':
        return 'C14/shutdown-on-another-thread'
    if case.get('unreadable'):
        return 'C14/plugin-shutdown-attribute-unreadable'
    return None


def corpus():
    sd = {'op': 'shutdown', 'plugin_faults': [], 'task_faults': [], 'ntask': 0, 'cls': 'exc', 'running': False}
    return [
        # D17: NO_TRACE and a pre-existing trace function
        {'pre_sys': 'h', 'pre_thr': 'h', 'no_trace': True, 'nplug': 0, 'ops': [{'op': 'start'}, dict(sd), {'op': 'hit'}]},
        # NO_TRACE, a debugger attaches after start (sys only, then threading too), the agent shuts down: left alone
        {'pre_sys': None, 'pre_thr': None, 'no_trace': True, 'nplug': 0,
         'ops': [{'op': 'start'}, {'op': 'host_set', 'sys': 5, 'thr': None}, {'op': 'host_set', 'sys': 5, 'thr': 6}, dict(sd),
                 {'op': 'hit'}]},
        # NO_TRACE, the functions present at start are removed while the agent is alive: shutdown must not resurrect them
        {'pre_sys': 'h', 'pre_thr': 'h', 'no_trace': True, 'nplug': 1,
         'ops': [{'op': 'start'}, {'op': 'host_set', 'sys': None, 'thr': 2}, {'op': 'host_set', 'sys': None, 'thr': None}, dict(sd)]},
        # shutdown() before the first start() is a no-op: the start that follows starts the agent
        {'pre_sys': 'h', 'pre_thr': None, 'no_trace': False, 'nplug': 1,
         'ops': [dict(sd), {'op': 'start'}, {'op': 'hit'}, dict(sd), {'op': 'hit'}]},
        # a snapshot upload fails just before the shutdown: nothing of the agent may be left running / sending afterwards
        {'pre_sys': None, 'pre_thr': 'h', 'no_trace': False, 'nplug': 1,
         'ops': [{'op': 'start'}, {'op': 'hit'}, dict(sd, push_fail=1), {'op': 'hit'}]},
        # the scenario of notes/probes/c14_failed_start_retry.py (outside the quantifier; compared with the translated
        # Deep.start = c14_failed_start_witness), and the other side of the boundary (c14_failed_start_unchanged_partial)
        {'pre_sys': 'h', 'pre_thr': 'h', 'no_trace': False, 'nplug': 0, 'update': False, 'start_step_fails': 'grpc_start',
         'ops': [{'op': 'start'}, {'op': 'start'}, {'op': 'hit'}, dict(sd), {'op': 'hit'}]},
        {'pre_sys': 'h', 'pre_thr': None, 'no_trace': False, 'nplug': 1, 'update': False, 'start_step_fails': 'load_plugins',
         'ops': [{'op': 'start'}, {'op': 'start'}, {'op': 'hit'}, dict(sd), {'op': 'hit'}]},
        # SCALE: 40 tracepoints installed; a thread started before the shutdown keeps running and must take no action after
        {'pre_sys': None, 'pre_thr': None, 'no_trace': False, 'nplug': 1, 'scale': 40,
         'ops': [{'op': 'start'}, {'op': 'hit'}, dict(sd, bg_thread=True), {'op': 'hit'}, {'op': 'late_config'}, {'op': 'hit'}]},
        # a worker thread that was running BEFORE start keeps its own sys trace function (or none) during the run and after
        {'pre_sys': 'h', 'pre_thr': None, 'no_trace': False, 'nplug': 0, 'pre_worker': 'own',
         'ops': [{'op': 'start'}, {'op': 'hit'}, dict(sd), {'op': 'hit'}]},
        {'pre_sys': None, 'pre_thr': 'h', 'no_trace': False, 'nplug': 1, 'pre_worker': 'none',
         'ops': [{'op': 'start'}, {'op': 'hit'}, dict(sd)]},
        # D18: a thread started before shutdown keeps running
        {'pre_sys': None, 'pre_thr': None, 'no_trace': False, 'nplug': 1,
         'ops': [{'op': 'start'}, {'op': 'hit'}, dict(sd, bg_thread=True), {'op': 'hit'}, {'op': 'late_config'}, {'op': 'hit'}]},
        # an earlier pending send fails while a later one is still in flight: shutdown must wait for both
        {'pre_sys': None, 'pre_thr': None, 'no_trace': False, 'nplug': 0,
         'ops': [{'op': 'start'}, dict(sd, ntask=2, task_faults=[0], running=True)]},
        # a delivery is offered by another thread while flush is blocked on a pending send: refused, or drained too
        {'pre_sys': None, 'pre_thr': None, 'no_trace': False, 'nplug': 1,
         'ops': [{'op': 'start'}, dict(sd, ntask=1, task_faults=[], running=True, late_submit=True)]},
        # second cycle after the application changed its trace functions
        {'pre_sys': 'h', 'pre_thr': 'h', 'no_trace': False, 'nplug': 1,
         'ops': [{'op': 'start'}, dict(sd), {'op': 'host_set', 'sys': 3, 'thr': 4}, {'op': 'start'}, {'op': 'hit'}, dict(sd)]},
        # restart after a shutdown while the service answers UPDATE (audit C14-1): start must not raise, hooks stay restored
        {'pre_sys': 'h', 'pre_thr': None, 'no_trace': False, 'nplug': 1, 'update': True,
         'ops': [{'op': 'start'}, {'op': 'hit'}, dict(sd), {'op': 'start'}, {'op': 'hit'}, dict(sd), {'op': 'hit'}]},
        {'kind': 'handler', 'pre_sys': 'h', 'pre_thr': 'h',
         'ops': [{'op': 'start'}, {'op': 'shutdown'}, {'op': 'host_set', 'sys': 3, 'thr': 4}, {'op': 'start'},
                 {'op': 'shutdown'}]},
        # D19: the first plugin's shutdown raises
        {'pre_sys': 'h', 'pre_thr': None, 'no_trace': False, 'nplug': 3,
         'ops': [{'op': 'start'}, dict(sd, plugin_faults=[0], cls='exc')]},
        {'pre_sys': None, 'pre_thr': 'h', 'no_trace': False, 'nplug': 2,
         'ops': [{'op': 'start'}, {'op': 'poll_fail'}, dict(sd, plugin_faults=[0, 1], cls='base', ntask=2, task_faults=[0, 1], running=True),
                 {'op': 'start'}, dict(sd, plugin_faults=[1])]},
    ]


# ------------------------------------------------------------------------------------------ running
def hook_tag(fn, handler):
    if fn is None:
        return None
    if handler is not None and fn == handler.trace_call:
        return 'agent'
    return getattr(fn, 'tag', 'other:' + getattr(fn, '__qualname__', repr(fn)))


def run_case(case, out):
    from deep.api import Deep
    from deep.config import ConfigService
    from deep.config.tracepoint_config import TracepointConfigService
    from deep.api.tracepoint.trigger import build_trigger
    g = G()
    h = g['hosts']
    rec = fc_env.Recorder()
    uid = next(g['seq'])
    modname = f'verif_c14_plugins_{uid}'
    mod = types.ModuleType(modname)
    fail_flags = []
    order_flags = []
    names = []
    for i in range(case['nplug']):
        ff = [None]
        of = [False]
        cls = make_plugin_class(f'P{i}', rec, ff, 0, of, unreadable=i in case.get('unreadable', []))
        setattr(mod, f'P{i}', cls)
        fail_flags.append(ff)
        order_flags.append(of)
        names.append(f'{modname}.P{i}')
    # a logger plugin that never fails: how actions are observed
    setattr(mod, 'P99', make_plugin_class('P99', rec, [None], 0, [False]))
    names.insert(0, f'{modname}.P99')
    sys.modules[modname] = mod
    pre_sys = fc_env.host_trace_function(1) if case['pre_sys'] else None
    pre_thr = fc_env.host_trace_function(2) if case['pre_thr'] else None
    custom = {'APP_ROOT': h.dir, 'NO_TRACE': case['no_trace'], 'POLL_TIMER': 0.005, 'PLUGINS': names,
              'SERVICE_URL': 'fake:1', 'SERVICE_SECURE': 'False',
              'PLUGIN_OTELPLUGIN': 'False', 'PLUGIN_PYTHONPLUGIN': 'False', 'PLUGIN_PROMETHEUSPLUGIN': 'False',
              'PLUGIN_OTELMETRICS': 'False'}
    old_thr = threading.gettrace()
    sys.settrace(pre_sys)
    threading.settrace(pre_thr)
    states = []
    import deep.api.deep as dmod
    orig_load = dmod.load_plugins
    if case.get('start_fails_first'):
        # the first step of the first start fails (nothing is installed yet); the application retries
        def failing_once(*a, **k):
            dmod.load_plugins = orig_load
            raise StartFails('plugins cannot be loaded')
        dmod.load_plugins = failing_once
    step_fails = case.get('start_step_fails')
    if step_fails == 'load_plugins':
        def failing_once2(*a, **k):
            dmod.load_plugins = orig_load
            raise StartFails('plugins cannot be loaded')
        dmod.load_plugins = failing_once2
    orig_resource = dmod.Resource
    if step_fails == 'resource_create':
        class _FailingOnce:
            @staticmethod
            def create(*a, **k):
                dmod.Resource = orig_resource
                raise StartFails('the resource cannot be created')
        dmod.Resource = _FailingOnce
    # the service: NO_CHANGE, or (part of the cases) an UPDATE that carries the tracepoint
    g['grpc'].update = ([{'id': 'hit', 'path': h.files['probe'], 'line': h.marks['probe']['P'],
                          'args': {'snapshot': 'no_collect', 'log_msg': 'hit {c}', 'fire_count': '-1', 'fire_period': '0'}}]
                        if case.get('update') else None)
    probe = h.modules['probe'].probe
    trig = build_trigger('hit', h.files['probe'], h.marks['probe']['P'],
                         {'snapshot': 'no_collect', 'log_msg': 'hit {c}', 'fire_count': '-1', 'fire_period': '0'}, [], [])
    # SCALE: the config carries `scale` tracepoints (the one that is hit + fillers on other lines / other files), so that
    # whatever the handler does only for large configs (indexes, caches) is in force at shutdown
    cfg_list = [trig]
    for i in range(max(0, case.get('scale', 0) - 1)):
        cfg_list.append(build_trigger(f'fill{i}', h.files['probe'] if i % 3 == 0 else f'verif_other_{i % 7}.py', 1000 + i,
                                      {'snapshot': 'no_collect', 'log_msg': 'fill', 'fire_count': '-1', 'fire_period': '0'},
                                      [], []))
    bg = {}
    # a worker thread of the application that is ALREADY RUNNING before Deep.start (parked, with its own sys trace function
    # or none): it reports its own sys.gettrace() whenever asked.  The agent hooks the calling thread and threads started
    # later; a thread that existed before start keeps the trace function it had, during the run and after shutdown.
    worker = None
    if case.get('pre_worker'):
        worker = {'req': threading.Event(), 'ack': threading.Event(), 'stop': threading.Event(), 'seen': None}
        own = fc_env.host_trace_function(9) if case['pre_worker'] == 'own' else None

        def worker_body():
            sys.settrace(own)
            while not worker['stop'].is_set():
                if worker['req'].wait(0.05):
                    worker['req'].clear()
                    worker['seen'] = sys.gettrace()
                    worker['ack'].set()
        worker['thread'] = threading.Thread(target=worker_body, daemon=True)
        worker['thread'].start()

    def worker_hook(handler_):
        worker['ack'].clear()
        worker['req'].set()
        if not worker['ack'].wait(10):
            raise core.Infra('the pre-existing worker thread did not answer')
        return hook_tag(worker['seen'], handler_)
    threads_before = {t.ident for t in threading.enumerate()}
    snap_trig = build_trigger('snap', h.files['probe'], h.marks['probe']['P'], {'fire_count': '-1', 'fire_period': '0'}, [], [])
    try:
        deep = Deep(ConfigService(custom, tracepoints=TracepointConfigService()))
        handler = deep.trigger_handler
        if step_fails in ('th_start', 'grpc_start', 'poll_start'):
            svc = {'th_start': deep.trigger_handler, 'grpc_start': deep.grpc, 'poll_start': deep.poll}[step_fails]
            real_start = svc.start

            def start_once():
                svc.start = real_start
                raise StartFails(step_fails + ' fails')
            svc.start = start_once

        def nlogs():
            return len([e for e in rec.events if e[1] == 'log'])
        if worker is not None:
            out['worker_before'] = worker_hook(handler)

        def snapshot(op, extra=None):
            st = {'op': op, 'sys': hook_tag(sys.gettrace(), handler), 'thr': hook_tag(threading.gettrace(), handler),
                  'started': bool(deep.started)}
            if worker is not None:
                st['worker'] = worker_hook(handler)
            st.update(extra or {})
            states.append(st)

        for op in case['ops']:
            kind = op['op']
            if kind == 'start':
                timer_before = deep.poll.timer
                constructed = len([e for e in rec.events if e[1] == 'construct'])
                was = bool(deep.started)
                raised = None
                try:
                    deep.start()
                except BaseException as e:      # noqa: B902
                    raised = type(e).__name__
                for of in order_flags:
                    of[0] = False               # only the first start fails
                if deep.started and not was:
                    if case.get('update') and any(st0['op'] == 'shutdown' and st0['was_started'] for st0 in states):
                        pass        # a second life (only possible when start is not refused): nothing to wait for
                    elif case.get('update'):
                        # the first poll answered UPDATE: wait until the update task has installed the tracepoint
                        t0 = time.time()
                        while not handler._tp_config and time.time() - t0 < 20:
                            time.sleep(0.002)
                        if not handler._tp_config:
                            raise core.Infra('the UPDATE of the fake service was not applied within 20 s')
                    else:
                        handler.new_config(list(cfg_list))  # the first config arrives
                snapshot('start', {'raised': raised, 'was_started': was,
                                   'same_timer': deep.poll.timer is timer_before,
                                   'constructed': len([e for e in rec.events if e[1] == 'construct']) - constructed,
                                   'timer_alive': bool(deep.poll.timer and deep.poll.timer.thread.is_alive())})
            elif kind == 'hit':
                before = nlogs()
                ret = probe(3)
                snapshot('hit', {'actions': nlogs() - before, 'ret': ret})
            elif kind == 'host_set':
                hs = fc_env.host_trace_function(op['sys']) if op['sys'] is not None else None
                ht = fc_env.host_trace_function(op['thr']) if op['thr'] is not None else None
                sys.settrace(hs)
                threading.settrace(ht)
                snapshot('host_set')
            elif kind == 'late_config':
                handler.new_config(list(cfg_list))
                extra = {}
                if bg.get('thread') is not None and bg['after_done'].is_set() and not bg['gate2'].is_set():
                    bg['gate2'].set()
                    if not bg['late_done'].wait(20):
                        raise core.Infra('background thread did not finish its late probe')
                    extra['bg_actions'] = bg['res'].get('after_late_config')
                snapshot('late_config', extra)
            elif kind == 'poll_fail':
                chans = G()['grpc'].channels
                ch = deep.grpc.channel
                survived = None
                if deep.started and ch is not None:
                    n0 = len(ch.polls)
                    failed = []

                    def on_poll(n, failed=failed):
                        if not failed:
                            failed.append(n)
                            raise fc_env.PluginError('poll fails')
                    ch.on_poll = on_poll
                    t0 = time.time()
                    while not failed and time.time() - t0 < 5:
                        time.sleep(0.002)
                    if not failed:
                        raise core.Infra('no poll happened within 5 s')
                    t0 = time.time()
                    while len(ch.polls) <= failed[0] and time.time() - t0 < 15:
                        time.sleep(0.002)
                    survived = len(ch.polls) > failed[0]
                    ch.on_poll = None
                snapshot('poll_fail', {'survived': survived})
            elif kind == 'shutdown':
                was = bool(deep.started)
                for i, ff in enumerate(fail_flags):
                    ff[0] = op['cls'] if i in op['plugin_faults'] else None
                timer = deep.poll.timer
                tthread = timer.thread if timer else None
                ch = deep.grpc.channel
                pushed = None
                if op.get('push_fail') and was and not case['no_trace'] and ch is not None and handler._tp_config:
                    # a REAL snapshot (collected at the probe line, handed to the real PushService) whose upload fails
                    # shortly before the shutdown: the first `push_fail` sends on the channel raise
                    left = [op['push_fail']]

                    def on_send(n, left=left):
                        if left[0] > 0:
                            left[0] -= 1
                            raise fc_env.PluginError('service unavailable')
                    sent0 = len(ch.sent)
                    ch.on_send = on_send
                    cfg_now = list(handler._tp_config)
                    handler.new_config(cfg_now + [snap_trig])
                    probe(3)
                    handler.new_config(cfg_now)
                    t1 = time.time()
                    while len(ch.sent) == sent0 and time.time() - t1 < 10:
                        time.sleep(0.002)
                    if len(ch.sent) == sent0:
                        raise core.Infra('the snapshot taken before the shutdown was never handed to the channel')
                    pushed = {'attempts_before': len(ch.sent) - sent0}
                gates = [threading.Event() for _ in range(op.get('ntask', 0))]
                futures = []
                if was:
                    for i in range(op.get('ntask', 0)):
                        def task(i=i):
                            gates[i].wait(8)
                            if i in op['task_faults']:
                                raise fc_env.PluginError('send %d fails' % i)
                            return i
                        futures.append(deep.task_handler.submit_task(task))

                def release_all():
                    for gt in gates:
                        gt.set()
                # another thread hands the agent a delivery WHILE shutdown's flush is blocked on a pending send
                late = {}
                if op.get('late_submit') and was and futures:
                    flush_entered = threading.Event()
                    returned = threading.Event()
                    late_gate = threading.Event()
                    th = deep.task_handler
                    orig_flush = th.flush

                    def flush():
                        flush_entered.set()
                        return orig_flush()
                    th.flush = flush

                    def late_task():
                        late_gate.wait(8)
                        late['ran_after_return'] = returned.is_set()
                        return 'late'

                    def late_submitter():
                        t9 = time.time()
                        while not flush_entered.wait(0.01):
                            if returned.is_set():
                                late['no_flush'] = True         # shutdown returned without ever draining: an observation
                                return
                            if time.time() - t9 > 10:
                                late['error'] = 'flush not entered'
                                return
                        time.sleep(0.005)
                        try:
                            late['future'] = th.submit_task(late_task)
                            late['accepted'] = True
                        except BaseException as e:      # noqa: B902
                            late['accepted'] = False
                            late['refused_with'] = type(e).__name__
                        late['submitted'] = True
                    lt = threading.Thread(target=late_submitter)
                    lt.start()
                if op.get('bg_thread') and was and not bg:
                    # a thread started before the shutdown: it has the agent's trace function (threading.settrace)
                    bg['gate'] = threading.Event()
                    bg['gate2'] = threading.Event()
                    bg['after_done'] = threading.Event()
                    bg['late_done'] = threading.Event()
                    bg['ready'] = threading.Event()
                    bg['res'] = {}

                    def body():
                        bg['res']['trace'] = hook_tag(sys.gettrace(), handler)
                        b0 = nlogs()
                        probe(1)
                        bg['res']['before'] = nlogs() - b0
                        bg['ready'].set()
                        bg['gate'].wait(10)
                        b1 = nlogs()
                        probe(2)
                        probe(5)
                        bg['res']['after'] = nlogs() - b1
                        bg['after_done'].set()
                        # stay alive: a config update that arrives after the shutdown must not re-arm this thread either
                        bg['gate2'].wait(20)
                        b2 = nlogs()
                        probe(6)
                        bg['res']['after_late_config'] = nlogs() - b2
                        bg['late_done'].set()
                    bg['thread'] = threading.Thread(target=body)
                    bg['thread'].start()
                    if not bg['ready'].wait(10):
                        raise core.Infra('background thread did not reach its gate')
                if (op.get('running') or op.get('late_submit')) and futures:
                    # the sends are in flight when shutdown starts: the failing ones finish first (flush is already
                    # waiting), the others stay parked well beyond the moment a non-draining shutdown would return
                    def staged():
                        if op.get('late_submit'):
                            t1 = time.time()
                            while not late.get('submitted') and 'error' not in late and not late.get('no_flush') \
                                    and time.time() - t1 < 10:
                                time.sleep(0.002)       # the pending sends stay parked until the late delivery was offered
                        time.sleep(0.01)
                        for i in op['task_faults']:
                            if i < len(gates):
                                gates[i].set()
                        time.sleep(0.06)
                        release_all()
                    threading.Thread(target=staged).start()
                else:
                    release_all()
                shut_before = len([e for e in rec.events if e[1] == 'shutdown'])
                raised = None
                t0 = time.time()
                try:
                    deep.shutdown()
                except BaseException as e:      # noqa: B902
                    raised = type(e).__name__
                took = time.time() - t0
                done_at_return = all(f.done() for f in futures)     # BEFORE anything else is released
                alive_at_return = agent_threads(threads_before) if was else []
                sends_at_return = len(ch.sent) if ch is not None else 0
                late_obs = None
                if op.get('late_submit') and was and futures:
                    returned.set()
                    lt.join(20)
                    if lt.is_alive() or 'error' in late:
                        raise core.Infra('late submitter: ' + str(late.get('error', 'did not finish')))
                    in_flight = bool(late.get('accepted')) and not late['future'].done()
                    if late.get('no_flush'):
                        late['accepted'] = False
                    late_gate.set()
                    if late.get('accepted'):
                        try:
                            late['future'].result(20)
                        except BaseException:       # noqa: B902
                            pass
                    late_obs = {'accepted': bool(late.get('accepted')), 'in_flight_at_return': in_flight,
                                'ran_after_return': bool(late.get('ran_after_return')),
                                'refused_with': late.get('refused_with'), 'no_flush': bool(late.get('no_flush'))}
                    th.flush = orig_flush
                release_all()
                npolls = len(ch.polls) if ch is not None else 0
                time.sleep(0.02)
                extra = {'raised': raised, 'was_started': was,
                         'timer_alive': bool(tthread and tthread.is_alive()),
                         'polls_after': (len(ch.polls) - npolls) if ch is not None else 0,
                         'pending_done': done_at_return, 'ntask': len(futures),
                         'shut_calls': [e[0] for e in rec.events if e[1] == 'shutdown'][shut_before:],
                         'slow': took > 8, 'late': late_obs, 'agent_threads': alive_at_return, 'pushed': pushed,
                         'sends_after': (len(ch.sent) - sends_at_return) if ch is not None else 0}
                if bg.get('thread') is not None and 'after' not in bg['res'] and was:
                    bg['gate'].set()
                    if not bg['after_done'].wait(20):
                        raise core.Infra('background thread did not finish its probes')
                    extra['bg'] = dict(bg['res'])
                snapshot('shutdown', extra)
        out['states'] = states
    finally:
        try:
            if bg.get('gate'):
                bg['gate'].set()
                bg['gate2'].set()
                if bg.get('thread') is not None:
                    bg['thread'].join(20)
            d = locals().get('deep')
            if d is not None and d.started:
                for ff in fail_flags:
                    ff[0] = None
                d.shutdown()
            elif d is not None and d.poll.timer is not None:
                d.poll.shutdown()
        except BaseException:       # noqa: B902
            pass
        if worker is not None:
            worker['stop'].set()
            worker['thread'].join(5)
        dmod.load_plugins = orig_load
        dmod.Resource = orig_resource
        g['grpc'].update = None
        sys.settrace(None)
        threading.settrace(old_thr)
        sys.modules.pop(modname, None)


def run_handler(case, out):
    """TriggerHandler.start / shutdown driven directly (no Deep around it)"""
    from deep.config import ConfigService
    from deep.config.tracepoint_config import TracepointConfigService
    from deep.processor.trigger_handler import TriggerHandler
    from deep.push.push_service import PushService
    old_thr = threading.gettrace()
    try:
        sys.settrace(fc_env.host_trace_function(1) if case['pre_sys'] else None)
        threading.settrace(fc_env.host_trace_function(2) if case['pre_thr'] else None)
        handler = TriggerHandler(ConfigService({'APP_ROOT': '/app'}, tracepoints=TracepointConfigService()),
                                 PushService(None, None))
        states = []
        for op in case['ops']:
            raised = None
            try:
                if op['op'] == 'start':
                    handler.start()
                elif op['op'] == 'shutdown':
                    handler.shutdown()
                else:
                    sys.settrace(fc_env.host_trace_function(op['sys']) if op['sys'] is not None else None)
                    threading.settrace(fc_env.host_trace_function(op['thr']) if op['thr'] is not None else None)
            except BaseException as e:      # noqa: B902
                raised = type(e).__name__
            states.append({'op': op['op'], 'sys': hook_tag(sys.gettrace(), handler),
                           'thr': hook_tag(threading.gettrace(), handler), 'raised': raised})
        out['states'] = states
    finally:
        sys.settrace(None)
        threading.settrace(old_thr)


def run_other_thread(case, out):
    """start() on thread A, shutdown() on thread B (which may have a trace function of its own)"""
    from deep.api import Deep
    from deep.config import ConfigService
    from deep.config.tracepoint_config import TracepointConfigService
    G()
    custom = {'APP_ROOT': '/app', 'POLL_TIMER': 5, 'PLUGINS': [], 'SERVICE_URL': 'fake:1', 'SERVICE_SECURE': 'False',
              'PLUGIN_OTELPLUGIN': 'False', 'PLUGIN_PYTHONPLUGIN': 'False', 'PLUGIN_PROMETHEUSPLUGIN': 'False',
              'PLUGIN_OTELMETRICS': 'False'}
    old_thr = threading.gettrace()
    deep = Deep(ConfigService(custom, tracepoints=TracepointConfigService()))
    handler = deep.trigger_handler
    go, done = threading.Event(), threading.Event()
    res = {}
    own = fc_env.host_trace_function(7) if case.get('own_hook') else None

    def a():
        try:
            res['a_before'] = hook_tag(sys.gettrace(), handler)
            deep.start()
            res['a_started'] = hook_tag(sys.gettrace(), handler)
            go.set()
            done.wait(30)
            res['a_after'] = hook_tag(sys.gettrace(), handler)
        finally:
            go.set()
            sys.settrace(None)

    def b():
        try:
            go.wait(30)
            sys.settrace(own)
            deep.shutdown()
            res['b_after'] = hook_tag(sys.gettrace(), handler)
            res['started'] = bool(deep.started)
        finally:
            sys.settrace(None)
            done.set()
    try:
        ta, tb = threading.Thread(target=a), threading.Thread(target=b)
        ta.start(); tb.start()
        ta.join(60); tb.join(60)
        if ta.is_alive() or tb.is_alive():
            raise core.Infra('other-thread case did not finish')
    finally:
        threading.settrace(old_thr)
        if deep.started:
            deep.shutdown()
    out['other'] = res


def run_impl(case):
    out = {}

    def body():
        try:
            if case.get('kind') == 'handler':
                run_handler(case, out)
            elif case.get('kind') == 'other_thread':
                run_other_thread(case, out)
            else:
                run_case(case, out)
        except core.Infra as e:
            out['infra'] = str(e)
        except BaseException as e:      # noqa: B902
            import traceback
            out['crash'] = f'{type(e).__name__}: {e}'
            out['tb'] = traceback.format_exc()[-1500:]
    t = threading.Thread(target=body)
    t.start()
    t.join(120)
    if t.is_alive():
        raise core.Infra('C14 case did not finish in 120 s')
    if 'infra' in out:
        raise core.Infra(out['infra'])
    if 'crash' in out:
        return {'raised': out['crash'], 'tb': out.get('tb'), 'states': out.get('states', [])}
    return out


# ------------------------------------------------------------------------------------------ judging
def oracle(case, obs):
    v = []
    if 'raised' in obs:
        return ['the harness could not drive the agent: ' + obs['raised']]
    if case.get('kind') == 'other_thread':
        r = obs['other']
        if r.get('a_after') != r.get('a_before'):
            v.append(f'after shutdown() (called on another thread) the thread that called start() still has trace function '
                     f'{r.get("a_after")}, before start it had {r.get("a_before")}')
        if r.get('b_after') != (7 if case.get('own_hook') else None):
            v.append(f'the trace function of the thread that called shutdown() is now {r.get("b_after")}')
        return v
    pre = (1 if case['pre_sys'] else None, 2 if case['pre_thr'] else None)
    if case.get('kind') == 'handler':
        tracing = False
        for i, (op, st) in enumerate(zip(case['ops'], obs['states'])):
            where = f'after op {i} (handler {st["op"]})'
            if st['raised']:
                v.append(f'{where}: raised {st["raised"]}')
            if op['op'] == 'host_set':
                pre = (op['sys'], op['thr'])
            tracing = {'start': True, 'shutdown': False}.get(op['op'], tracing)
            want = ('agent', 'agent') if tracing else pre
            if (st['sys'], st['thr']) != want:
                v.append(f'{where}: the trace functions are {(st["sys"], st["thr"])}, expected {want}')
        return v
    if case.get('start_step_fails'):
        # failing start steps are not in C14's quantifier: judged only for "the failing start raises, the retry starts"
        starts = [st for st in obs['states'] if st['op'] == 'start']
        if len(starts) >= 2 and (not starts[0]['raised'] or starts[1]['raised'] or not starts[1]['started']):
            v.append(f'start with a failing {case["start_step_fails"]}: first start raised {starts[0]["raised"]}, retry raised '
                     f'{starts[1]["raised"]} started {starts[1]["started"]}')
        v += [f'host function returned {st["ret"]}' for st in obs['states'] if st['op'] == 'hit' and st['ret'] != 11]
        if case['start_step_fails'] in ('load_plugins', 'resource_create', 'th_start'):
            # the boundary of c14_failed_start_unchanged_partial: a start that fails BEFORE the hooks are touched changes
            # nothing, so after the retry and the shutdown the trace functions are the pre-existing ones
            first = starts[0] if starts else None
            if first and (first['sys'], first['thr']) != pre:
                v.append(f'a start that failed in {case["start_step_fails"]} (before the hooks are installed) left the trace '
                         f'functions {(first["sys"], first["thr"])}, before it they were {pre}')
            for i, st in enumerate(obs['states']):
                if st['op'] == 'shutdown' and (st['sys'], st['thr']) != pre:
                    v.append(f'after op {i} (shutdown, after a failed first start in {case["start_step_fails"]} and a retry): '
                             f'the trace functions are {(st["sys"], st["thr"])}, expected {pre}')
        return v
    plugs = ['P99'] + [f'P{i}' for i in range(case['nplug'])]
    stopped_once = False
    if case.get('pre_worker'):
        w0 = obs.get('worker_before')
        want = 9 if case['pre_worker'] == 'own' else None
        if w0 != want:
            v.append(f'harness: the pre-existing worker thread reports trace function {w0} before start, expected {want}')
        for i, st in enumerate(obs['states']):
            if 'worker' in st and st['worker'] != w0:
                v.append(f'after op {i} ({st["op"]}): a thread that was already running before start() now has the sys trace '
                         f'function {st["worker"]!r}; before start it had {w0!r} (the agent hooks the calling thread and threads '
                         f'started later; hooks present before start are put back exactly)')
                break
    for i, st in enumerate(obs['states']):
        where = f'after op {i} ({st["op"]})'
        hooks = (st['sys'], st['thr'])
        if st['op'] == 'host_set':
            pre = (case['ops'][i]['sys'], case['ops'][i]['thr'])       # what the application installed itself
        if case['no_trace']:
            if hooks != pre:
                v.append(f'{where}: NO_TRACE is set but the trace functions are {hooks}, before the agent they were {pre}')
        elif st['started']:
            if hooks != ('agent', 'agent'):
                v.append(f'{where}: agent started but the trace functions are {hooks}')
        else:
            if hooks != pre:
                v.append(f'{where}: agent not started but the trace functions are {hooks}, expected the ones present '
                         f'before the (last) start {pre}')
        if st['op'] == 'start':
            first_fails = case.get('start_fails_first') and not any(s2['op'] == 'start' for s2 in obs['states'][:i])
            if st['raised'] and not first_fails:
                v.append(f'{where}: start() raised {st["raised"]} into the application')
            if not st['raised'] and not st['started'] and not stopped_once:
                v.append(f'{where}: start() returned but the agent is not started')
            if st['was_started'] and (not st['same_timer'] or st['constructed']):
                v.append(f'{where}: a repeated start() did something (new timer: {not st["same_timer"]}, '
                         f'plugins constructed: {st["constructed"]})')
            if st['started'] and not st['timer_alive']:
                v.append(f'{where}: started but the poll timer is not running')
        if st['op'] == 'shutdown':
            if st['raised']:
                v.append(f'{where}: shutdown() raised {st["raised"]}')
            if st['started']:
                v.append(f'{where}: still started after shutdown()')
            if st['was_started']:
                stopped_once = True
                if st['timer_alive'] or st['polls_after']:
                    v.append(f'{where}: polling goes on after shutdown (timer alive {st["timer_alive"]}, '
                             f'{st["polls_after"]} polls)')
                if not st['pending_done']:
                    v.append(f'{where}: {st["ntask"]} pending sends were not all waited for')
                if st.get('agent_threads'):
                    v.append(f'{where}: shutdown() returned but threads started by the agent are still alive and will act '
                             f'later: {st["agent_threads"]}' + (' (a snapshot upload failed just before the shutdown)'
                                                                if st.get('pushed') else ''))
                if st.get('sends_after'):
                    v.append(f'{where}: {st["sends_after"]} sends reached the service after shutdown() had returned')
                lo = st.get('late')
                if lo and lo.get('no_flush'):
                    v.append(f'{where}: shutdown returned without draining delivery (TaskHandler.flush was never called)')
                if lo and (lo['in_flight_at_return'] or lo['ran_after_return']):
                    v.append(f'{where}: a delivery handed over while shutdown was draining was accepted and still in flight '
                             f'when shutdown() returned: it reaches the service after the agent is shut down')
                if st['shut_calls'] != plugs:
                    v.append(f'{where}: plugin shutdown calls {st["shut_calls"]}, expected every plugin once: {plugs}')
                if st.get('bg'):
                    if st['bg'].get('before', 0) < 1 and not case['no_trace']:
                        v.append(f'{where}: the thread started before shutdown never saw the tracepoint fire (harness)')
                    if st['bg'].get('after', 0) != 0:
                        v.append(f'{where}: a thread started before shutdown took {st["bg"]["after"]} actions after it')
            elif st['shut_calls']:
                v.append(f'{where}: shutdown of an agent that is not started called plugins {st["shut_calls"]}')
        if st['op'] == 'hit':
            if st['ret'] != 11:
                v.append(f'{where}: host function returned {st["ret"]}')
            if stopped_once and st['actions']:
                v.append(f'{where}: {st["actions"]} actions after the agent was shut down')
            if not stopped_once and st['started'] and not case['no_trace'] and st['actions'] != 1:
                v.append(f'{where}: started agent took {st["actions"]} actions at the tracepoint, expected 1')
            if (case['no_trace'] or not st['started']) and st['actions']:
                v.append(f'{where}: {st["actions"]} actions without the agent tracing')
        if st['op'] == 'late_config' and st.get('bg_actions'):
            v.append(f'{where}: a config update that arrived after the shutdown re-armed a thread that was started before it: '
                     f'{st["bg_actions"]} actions')
        if st['op'] == 'poll_fail' and st['survived'] is False:
            v.append(f'{where}: the poll timer stopped after one failing poll')
    return v


def model_request(case, obs):
    if 'raised' in obs or case.get('start_fails_first') or case.get('kind') == 'other_thread':
        return None
    if case.get('kind') == 'handler':
        return {'op': 'handler', 'init': {'sys': 1 if case['pre_sys'] else None, 'thr': 2 if case['pre_thr'] else None},
                'ops': case['ops']}
    ops = []
    first = True
    for op in case['ops']:
        k = op['op']
        if k == 'start' and first and case.get('start_step_fails'):
            first = False
            ops.append({'op': 'start', 'fails': case['start_step_fails']})
            ops.append({'op': 'noop'})          # no config arrives: the start failed
        elif k == 'start':
            first = False
            ops.append({'op': 'start'})
            ops.append({'op': 'new_config', 'cfg': [1]})
        elif k == 'shutdown':
            ops.append({'op': 'shutdown', 'plugin_faults': op['plugin_faults'], 'task_faults': op['task_faults'],
                        'base': op['cls'] == 'base', 'tasks': list(range(op.get('ntask', 0))),
                        'attr_unreadable': list(case.get('unreadable', []))})
        elif k == 'host_set':
            ops.append({'op': 'host_set', 'sys': op['sys'], 'thr': op['thr']})
        elif k == 'late_config':
            ops.append({'op': 'new_config', 'cfg': [1]})
        elif k == 'poll_fail':
            ops.append({'op': 'poll_tick', 'fails': 'exc'})
        else:
            ops.append({'op': 'noop'})
    return {'op': 'lifecycle', 'init': {'sys': 1 if case['pre_sys'] else None, 'thr': 2 if case['pre_thr'] else None,
                                        'no_trace': case['no_trace'], 'plugins': [99] + list(range(case['nplug'])), 'pending': []},
            'ops': ops}


def compare(case, obs, resp):
    if 'error' in resp:
        return ['model error: ' + resp['error']]
    if case.get('kind') == 'handler':
        return [f'handler op {i}: hooks model {(m["sys"], m["thr"])} vs implementation {(st["sys"], st["thr"])}'
                for i, (m, st) in enumerate(zip(resp['states'], obs['states'])) if (m['sys'], m['thr']) != (st['sys'], st['thr'])]
    d = []
    ms = resp['states']
    j = 0
    started_new = False
    for i, (op, st) in enumerate(zip(case['ops'], obs['states'])):
        if op['op'] == 'start':
            j += 1                      # the new_config that follows a start in the request
        m = ms[j]
        j += 1
        mh = (m['sys'], m['thr'])
        ih = (st['sys'], st['thr'])
        if mh != ih:
            d.append(f'op {i} {op["op"]}: hooks model {mh} vs implementation {ih}')
        if m['started'] != st['started']:
            d.append(f'op {i} {op["op"]}: started model {m["started"]} vs implementation {st["started"]}')
        if op['op'] == 'start' and ms[j - 2]['raised'] != bool(st['raised']):
            d.append(f'op {i}: start raises: model {ms[j - 2]["raised"]} vs implementation {st["raised"]}')
        if op['op'] == 'shutdown':
            if m['raised'] != bool(st['raised']):
                d.append(f'op {i}: shutdown raises: model {m["raised"]} vs implementation {st["raised"]}')
            if st['was_started']:
                if m['poll_alive'] != st['timer_alive']:
                    d.append(f'op {i}: poll alive model {m["poll_alive"]} vs implementation {st["timer_alive"]}')
                if (m['pending'] == 0) != st['pending_done']:
                    d.append(f'op {i}: pending drained model {m["pending"] == 0} vs implementation {st["pending_done"]}')
        if op['op'] == 'hit':
            want = 1 if (m['armed'] > 0 and m['sys'] == 'agent') else 0
            if want != st['actions']:
                d.append(f'op {i}: actions model {want} vs implementation {st["actions"]}')
        if op['op'] == 'poll_fail' and st['survived'] is not None:
            if m['poll_alive'] != st['survived']:
                d.append(f'op {i}: poll survives model {m["poll_alive"]} vs implementation {st["survived"]}')
    # plugin shutdown calls, cumulative
    impl_calls = []
    for st in obs['states']:
        if st['op'] == 'shutdown':
            impl_calls += [int(n[1:]) for n in st['shut_calls']]
    if ms and ms[-1]['shut_calls'] != impl_calls:
        d.append(f'plugin shutdown calls: model {ms[-1]["shut_calls"]} vs implementation {impl_calls}')
    return d


def label(case, obs):
    if case.get('unreadable'):
        return 'known-finding-stream/unreadable-shutdown-attribute'
    if case.get('kind'):
        return 'known-finding-stream/other-thread' if case['kind'] == 'other_thread' else 'handler-cycles'
    sd = [o for o in case['ops'] if o['op'] == 'shutdown']
    f = sd[0] if sd else {}
    return ('notrace' if case['no_trace'] else 'trace') + ('/update' if case.get('update') else '') + '/' + \
           ('pre' if (case['pre_sys'] or case['pre_thr']) else 'nopre') + '/' + \
           (f'faults{len(f.get("plugin_faults", [])) + len(f.get("task_faults", []))}' if sd else 'noshutdown') + \
           ('/retry' if case.get('start_fails_first') else '') + \
           ('/incycle-hostset' if case['no_trace'] and any(o['op'] == 'host_set' for o in case['ops'][:next(
               (k for k, o in enumerate(case['ops']) if o['op'] == 'shutdown'), 0)]) else '') + \
           (('/startfail-' + case['start_step_fails']) if case.get('start_step_fails') else '') + \
           ('/scale40' if case.get('scale') else '') + (('/preworker-' + case['pre_worker']) if case.get('pre_worker') else '')


def nontrivial(case, obs):
    if case.get('kind'):
        return case['kind'] == 'handler' and any(o['op'] == 'host_set' for o in case['ops'])
    sd = [o for o in case['ops'] if o['op'] == 'shutdown']
    return bool(case['no_trace'] or case['pre_sys'] or case['pre_thr'] or
                any(o.get('plugin_faults') or o.get('task_faults') for o in sd))


def valid(case):
    """the application changes its trace functions only while the agent is not TRACING (assumption of C14): not between
    start and shutdown, unless NO_TRACE is set (then the agent never installs anything and any tool may use them)"""
    if case.get('no_trace'):
        return True
    started = False
    for o in case['ops']:
        if o['op'] == 'start':
            started = True
        elif o['op'] == 'shutdown':
            started = False
        elif o['op'] == 'host_set' and started:
            return False
    return True


def shrink(case):
    if case.get('kind'):
        return
    ops = case['ops']
    for i in range(len(ops)):
        c = dict(case)
        c['ops'] = ops[:i] + ops[i + 1:]
        if c['ops'] and valid(c):
            yield c
    for i, o in enumerate(ops):
        if o['op'] == 'shutdown' and (o.get('plugin_faults') or o.get('task_faults') or o.get('bg_thread')):
            for key, val in (('plugin_faults', []), ('task_faults', []), ('bg_thread', False)):
                if o.get(key):
                    c = dict(case)
                    c['ops'] = ops[:i] + [dict(o, **{key: val})] + ops[i + 1:]
                    yield c
    for k in ('pre_sys', 'pre_thr'):
        if case[k]:
            c = dict(case)
            c[k] = None
            yield c
