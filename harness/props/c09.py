"""C09 — delivery off the application thread, exactly once; failures contained; flush drains and never raises; submit
after close refused visibly.

Drives the REAL TaskHandler and PushService (real EventSnapshot objects, real convert_snapshot, real
SnapshotServiceStub over a fake channel that counts sends per snapshot id and records the sending thread).
Two modes:
  det   the ThreadPoolExecutor inside the real TaskHandler is replaced by a step pool (`handler._pool = StepPool()`):
        one worker thread per task, gated at the start of the body and — through a gate in the pending map's
        `__contains__` — at the done-callback, so the schedule decides every start / finish / callback; flush runs
        on its own thread, its progress is observed at every `future.result()` it enters;
  pool  the real 2-worker ThreadPoolExecutor, tasks gated inside the fake `send` with threading.Events: flush racing
        with the completion of failing tasks that are still running when it starts.
"""
import threading
import time
from concurrent.futures import Future

import core
core.use_repo()

from deep.task import TaskHandler                                        # noqa: E402
from deep.push.push_service import PushService                           # noqa: E402
from deep.api.tracepoint import EventSnapshot                            # noqa: E402
from deep.api.tracepoint.tracepoint_config import TracePointConfig       # noqa: E402
from deep.api.resource import Resource                                   # noqa: E402

ID = 'C09'
EXTRACT = ['tasks']
LEAN_TARGETS = ['DeepModel.Props.C09']
AUDIT = 'DeepModel/Audit/C09.lean'
DRIVER = 'DeepModel/Driver/C09.lean'
BUDGET = {'quick': 900, 'thorough': 8000}
RULE = ('det mode: 1..4 snapshots (thorough ..7), each with an outcome (ok / unconvertible / send raises Exception / '
        'send raises BaseException / body dies before sending with either class); a random interleaving of push, '
        'start (any queued task, any order), finish, callback, pushes also split into their regions (pushBegin = up to '
        'pool.submit, pushStore = the store + callback attachment, with starts/finishes in between), submitters mode (1 in 12): the real Deep object graph; 0..3 ops while open (register / poll UPDATE / push / update_new_config), the real TaskHandler.flush(), then 1..4 ops through EVERY in-tree submitter (push_snapshot; __trigger_update via register_tracepoint, unregister of a live handle, LongPoll.poll answered UPDATE, update_new_config) — the caller must see an exception or a log record at WARNING or above, and nothing may reach the pool. det mode also has one or two flushes started at a random point, pushes that meet an executor refusing new work (pushRejected: the step pool raises RuntimeError from submit, ~7% per choice point), and '
        'pushes after flush began; 90% of schedules run to completion. pool mode (1 in 12): real 2-worker pool, 1..5 '
        'snapshots failing in send or ok, flush started while tasks are still blocked in send, released in random '
        'order. Non-trivial = a task that fails was still unfinished when flush began, or a callback ran after flush '
        'had moved past its task, or a push came after flush began. Distinct = distinct canonical JSON of the case.')
TRUSTED = ['the executor: pool.submit either accepts the callable or raises (RuntimeError after shutdown); a callable accepted by pool.submit runs exactly once on a pool thread; Future.result() blocks '
           'until done and re-raises; done-callbacks run after completion (model semantics, Model/Tasks.lean)',
           'dict.values() / list(view) of the handler\'s own dict do not raise (whitelist of c09_flush_skeleton_guarded)',
           'threading.Event / Semaphore / Thread behave as documented (gates)']
ASSUMPTIONS = ['finding candidate C09/refused-push-still-runs-unwaited: an executor that queues the work item and then raises '
               '(Thread.start failing) refuses the caller but runs the task, and flush does not wait for it (modelled: '
               'pushQueuedRaised; falls outside NoPushOverlapsFlush); generated only in its own labelled stream',
               'known finding C09/flush-gives-up-after-10s: a wait of flush that runs into its 10 s bound leaves the task '
               'unfinished (modelled: flushTimeout; c09_drained_partial names the hypothesis)',
               'known finding C09/flush-misses-task-being-submitted: a flush that begins while a push is between '
               'pool.submit and the store does not see that task (modelled: pushBegin/pushStore; hypothesis named); the '
               'judged stream keeps flushBegin out of that window']

WAIT = 20.0
POOL_STALL = 5.0      # real pool: an accepted task that no worker picks up within this is reported as stalled


class Unusable(Exception):
    """the bench cannot be wired to this implementation at all"""


class Stalled(Exception):
    """the implementation made no progress within a generous bound: reported as an observation, judged by the oracle"""
OUTCOMES = ['ok', 'unconvertible', 'send_exc', 'send_base', 'dies_exc', 'dies_base', 'meta_exc']
# dies_exc: building SnapshotServiceStub(channel) raises (the fake channel's unary_unary); meta_exc: grpc.metadata()
# raises while the arguments of stub.send are evaluated — both after a successful conversion, both without a send


class SendError(Exception):
    pass


class Interrupt(BaseException):
    pass


# --------------------------------------------------------------------------------------- bench
class ObsFuture(Future):
    """a Future that tells the bench when somebody (only flush does) starts waiting for its result"""
    bench = None

    def _maybe_park(self, b):
        """`park_flush` cases: the flush thread stops at the first future it looks at (done() or result()), wherever
        it is in its bookkeeping, until the schedule says `flushGo`"""
        if b.park_flush and not b.flush_parked_once:
            b.flush_parked_once = True
            b.flush_parked = True
            b.flush_event.release()
            b.flush_go.wait(WAIT)
            b.flush_parked = False

    def done(self):
        b = self.bench
        if b is not None and threading.current_thread() is b.flush_thread:
            self._maybe_park(b)
        return super().done()

    def result(self, timeout=None):
        b = self.bench
        if b is not None and threading.current_thread() is b.flush_thread:
            if b.flush1_times_out and b.flush_runs == 1 and not self.done():
                # stands for the 10 s bound of future.result(10) being reached during the FIRST flush
                import concurrent.futures
                raise concurrent.futures.TimeoutError()
            self._maybe_park(b)
            b.flush_at = self
            b.flush_event.release()
        elif b is not None and threading.current_thread() is b.flush2_thread:
            b.flush2_at = self
            b.flush2_event.release()
        return super().result(timeout)


class Job:
    def __init__(self, idx, fn, args, future):
        self.idx, self.fn, self.args, self.future = idx, fn, args, future
        self.launched = False
        self.body_released = False
        self.cb_released = False
        self.finished = False
        self.cb_done = False
        self.escaped = None           # exception that escaped from the done-callbacks on the worker thread
        self.thread = None
        self.go = threading.Event()
        self.cb_go = threading.Event()
        self.event = threading.Semaphore(0)
        self.at = None


class StepPool:
    def __init__(self, bench):
        self.bench = bench
        self.jobs = []
        self.local = threading.local()

    def submit(self, fn, *args, **kw):
        b = self.bench
        if b.reject_next:
            # the executor refuses new work, as a ThreadPoolExecutor does once it (or the interpreter) was shut down
            b.reject_next = False
            raise RuntimeError('cannot schedule new futures after shutdown')
        f = ObsFuture()
        f.bench = b
        self.jobs.append(Job(len(self.jobs) + 1, fn, args, f))
        b.accepted.append(b.pushing_k)
        if b.queue_then_raise:
            # what ThreadPoolExecutor.submit does when it cannot start a worker: the work item is on the queue already
            b.queue_then_raise = False
            raise RuntimeError("can't start new thread")
        if b.park_submit:
            # `pushBegin`: the pool has the task, submit_task has not stored it yet — the caller stops here
            b.park_submit = False
            b.submit_parked.set()
            b.submit_go.wait(WAIT)
        return f

    def shutdown(self, wait=True, **kw):
        pass

    def body(self, job):
        self.local.job = job
        job.future.set_running_or_notify_cancel()
        job.at = 'body'
        job.event.release()
        if not job.go.wait(WAIT):
            job.future.set_exception(TimeoutError('body gate'))
            return
        try:
            try:
                r = job.fn(*job.args)
            except BaseException as e:  # noqa: B902 — what a pool worker does
                job.future.set_exception(e)       # runs the done-callbacks; only Exception is shielded there
            else:
                job.future.set_result(r)
        except BaseException as e:  # noqa: B902 — escaped from a done-callback: a real pool worker dies of this
            job.escaped = f'{type(e).__name__}: {e}'
        finally:
            job.finished = True
            job.at = 'end'
            job.event.release()

    def current_job(self):
        return getattr(self.local, 'job', None)


class GateDict(dict):
    """the pending map; `next_id in self._pending` (only the done-callback asks) is a gate on worker threads"""

    def __init__(self, bench):
        super().__init__()
        self.bench = bench

    def __contains__(self, key):
        b = self.bench
        job = b.pool.current_job() if b.pool is not None else None
        if job is not None and b.gate_callbacks:
            job.at = 'cb'
            job.event.release()
            if not job.cb_go.wait(WAIT):
                raise TimeoutError('callback gate')
            job.cb_done = True
        elif job is None and b.pool is not None:
            # the done-callback run at once by add_done_callback on an already finished future (caller's thread);
            # the job is found by its future (job ids and pool positions differ once the executor refused a push)
            fut = dict.get(self, key)
            for j in b.pool.jobs:
                if fut is not None and j.future is fut:
                    j.cb_done = True
        return super().__contains__(key)

    def values(self):
        b = self.bench
        if threading.current_thread() is b.flush_thread:
            b.flush_snapshot_asked.set()
        return super().values()


class Channel:
    """fake grpc channel for SnapshotServiceStub: counts sends per snapshot, records the thread"""

    def __init__(self, bench):
        self.bench = bench

    def unary_unary(self, method, request_serializer=None, response_deserializer=None, **kw):
        b = self.bench
        k = b.current_snapshot()
        if k is not None and b.outcomes[k] == 'dies_exc':
            raise SendError('channel unusable')          # before any send
        return self.send

    def send(self, converted, metadata=None, **kw):
        b = self.bench
        try:
            k = b.by_id.get(bytes(converted.ID))
        except Exception:  # noqa: BLE001 — something that is not a converted snapshot (None) was handed to send:
            k = b.current_snapshot()     # still a send attempt of the running task (no task known: a stray send)
        with b.lock:
            b.sends.append((k, threading.current_thread()))
        if b.mode == 'pool' and threading.current_thread() not in b.callers:
            b.at_send[k].set()
            if not b.send_go[k].wait(WAIT):
                raise TimeoutError('send gate')
        out = b.outcomes[k] if k is not None else 'ok'
        if out == 'send_exc':
            raise SendError('send failed')
        if out == 'send_base':
            raise Interrupt('send interrupted')
        return None


class Grpc:
    def __init__(self, channel):
        self.channel = channel

    def metadata(self):
        b = getattr(self.channel, 'bench', None)
        k = b.current_snapshot() if b is not None else None
        if k is not None and b.outcomes[k] == 'meta_exc':
            raise SendError('no credentials')            # before `send` is entered
        return []


class Bomb:
    """a frame whose conversion fails: Exception -> convert_snapshot returns None; BaseException -> task dies"""

    def __init__(self, exc, bench):
        self.exc, self.bench = exc, bench

    def __getattr__(self, name):
        raise self.exc


class Bench:
    """Judged through public behaviour: the futures `submit_task` returns (through the pool we hand to the handler),
    the sends seen by the fake channel, what `push_snapshot` / `flush` return or raise.  Private attributes that make
    the bench sharper (`_pool`, `_pending`, `_open`) are probed; without them the bench goes on and says `degraded`."""

    def __init__(self, mode, outcomes, park_flush=False, flush1_times_out=False):
        self.mode = mode
        self.flush1_times_out = flush1_times_out
        self.flush2_thread = None          # a second, concurrent caller of flush()
        self.flush2_at = None
        self.flush2_event = threading.Semaphore(0)
        self.flush2_outcome = None
        self.degraded = []
        self.park_flush = park_flush
        self.flush_parked_once = False
        self.flush_parked = False
        self.flush_go = threading.Event()
        self.outcomes = list(outcomes)
        self.lock = threading.Lock()
        self.sends = []
        self.body_threads = {}
        self.handler = TaskHandler()
        self.flush_thread = None
        self.flush_at = None
        self.flush_event = threading.Semaphore(0)
        self.flush_snapshot_asked = threading.Event()
        self.flush_outcome = None
        self.flush_runs = 0
        self.gate_callbacks = mode == 'det'
        self.pool = None
        if not hasattr(getattr(self.handler, '_pool', None), 'submit'):
            raise Unusable('TaskHandler has no _pool to put the step pool in / to observe')
        if mode == 'det':
            self.handler._pool.shutdown(wait=False)
            self.pool = StepPool(self)
            self.handler._pool = self.pool
        self.has_pending = isinstance(getattr(self.handler, '_pending', None), dict)
        if self.has_pending:
            self.handler._pending = GateDict(self)
        else:
            self.degraded.append('no _pending dict: pending map not observed, done-callbacks not gated')
            self.gate_callbacks = False
        self.push = PushService(Grpc(Channel(self)), self.handler)
        self.snaps = []
        self.by_id = {}
        self.caller = threading.current_thread()
        self.callers = {self.caller}       # threads that call push_snapshot (the application side)
        self.pushing_k = None
        self.reject_next = False
        self.queue_then_raise = False
        self.park_submit = False
        self.submit_parked = threading.Event()
        self.submit_go = threading.Event()
        self.push_thread = None
        self.refused = []
        self.pushed = 0          # push_snapshot calls made
        self.accepted = []       # snapshot index per accepted task (job id - 1 -> k)
        self.at_send = {}
        self.send_go = {}
        self.futures = []
        for k, out in enumerate(self.outcomes):
            tp = TracePointConfig('tp%d' % k, 'a.py', 1, {}, [], [])
            frames = []
            if out == 'unconvertible':
                frames = [Bomb(ValueError('cannot convert'), self)]
            elif out == 'dies_base':
                frames = [Bomb(Interrupt('interrupted'), self)]
            s = EventSnapshot(tp, 1, Resource.get_empty(), frames, {})
            self.snaps.append(s)
            self.by_id[s.id.to_bytes(16, 'big')] = k
            self.at_send[k] = threading.Event()
            self.send_go[k] = threading.Event()
        if mode == 'pool':
            # see the future the real pool makes, and the thread the body runs on
            real_submit = self.handler._pool.submit

            def submit(fn, *args, **kw):
                f = real_submit(self._wrap(fn), *args, **kw)
                self.futures.append(f)
                self.accepted.append(self.pushing_k)
                return f
            self.handler._pool.submit = submit

    def _wrap(self, fn):
        def run(snapshot):
            k = self.snaps.index(snapshot)
            with self.lock:
                self.body_threads.setdefault(k, []).append(threading.current_thread())
            return fn(snapshot)
        return run

    def current_snapshot(self):
        if self.pool is None:
            return None
        job = self.pool.current_job()
        if job is None:
            return None
        return self.accepted[job.idx - 1] if job.idx - 1 < len(self.accepted) else None

    # ---- steps (det mode)
    def do_push(self):
        k = self.pushed
        self.pushed += 1
        if k >= len(self.snaps):
            raise core.Infra('schedule pushes more snapshots than the case has')
        n = len(self.accepted)
        self.pushing_k = k
        try:
            self.push.push_snapshot(self.snaps[k])
        except BaseException as e:  # noqa: B902
            self.refused.append((k, type(e).__name__, isinstance(e, Exception)))
            return
        if len(self.accepted) != n + 1:
            self.refused.append((k, 'silently-not-submitted', False))

    def do_push_rejected(self):
        """push_snapshot while the executor refuses new work (`pool.submit` raises RuntimeError)"""
        self.reject_next = True
        try:
            self.do_push()
        finally:
            self.reject_next = False

    def do_push_queued_raised(self):
        """push_snapshot while the executor queues the work item and then raises (`Thread.start` failing)"""
        self.queue_then_raise = True
        try:
            self.do_push()
        finally:
            self.queue_then_raise = False

    def do_push_begin(self):
        """push_snapshot on an application thread of its own, stopped inside submit_task right after pool.submit"""
        if self.push_thread is not None:
            raise core.Infra('schedule starts a second push while one is inside submit_task')
        self.park_submit = True
        self.submit_parked.clear()
        self.submit_go.clear()
        done = threading.Event()

        def body():
            self.callers.add(threading.current_thread())
            try:
                self.do_push()
            finally:
                self.park_submit = False
                done.set()
                self.submit_parked.set()
        self.push_thread = (threading.Thread(target=body, daemon=True), done)
        self.push_thread[0].start()
        if not self.submit_parked.wait(WAIT):
            raise Stalled('push did not reach pool.submit')
        if done.is_set():                  # refused (or finished) without reaching the pool
            self.push_thread[0].join(WAIT)
            self.push_thread = None

    def do_push_store(self):
        if self.push_thread is None:
            return
        t, done = self.push_thread
        self.submit_go.set()
        if not done.wait(WAIT):
            raise Stalled('push did not return after pool.submit')
        t.join(WAIT)
        self.push_thread = None

    def job(self, jid):
        if self.pool is None or jid < 1 or jid > len(self.pool.jobs):
            return None
        return self.pool.jobs[jid - 1]

    def wait_job(self, job, what):
        if not job.event.acquire(timeout=WAIT):
            raise Stalled(f'task {job.idx}: no progress after {what} in {WAIT} s')

    def do_start(self, jid):
        job = self.job(jid)
        if job is None or job.launched:
            return
        job.launched = True
        job.thread = threading.Thread(target=self.pool.body, args=(job,), daemon=True)
        job.thread.start()
        self.wait_job(job, 'start')
        with self.lock:
            self.body_threads.setdefault(self.accepted[jid - 1], []).append(job.thread)

    def do_finish(self, jid):
        job = self.job(jid)
        if job is None or not job.launched or job.body_released:
            return
        job.body_released = True
        job.go.set()
        self.wait_job(job, 'finish')          # arrives at the callback gate, or at its end
        self.settle_flush()
        self.settle_flush2()

    def do_callback(self, jid):
        job = self.job(jid)
        if job is None or not job.body_released or job.cb_released or job.at != 'cb':
            return
        job.cb_released = True
        job.cb_go.set()
        self.wait_job(job, 'callback')
        job.thread.join(WAIT)

    def do_flush_begin(self):
        if self.flush_thread is not None and self.flush_thread.is_alive():
            return
        if self.flush_thread is not None and self.flush_outcome != 'returned':
            return
        self.flush_outcome = 'waiting'
        self.flush_runs += 1

        def body():
            try:
                self.handler.flush()
                self.flush_outcome = 'returned'
            except Exception as e:
                self.flush_outcome = 'raised_exc'
                self.flush_error = f'{type(e).__name__}: {e}'
            except BaseException as e:  # noqa: B902
                self.flush_outcome = 'raised_base'
                self.flush_error = f'{type(e).__name__}: {e}'
            self.flush_at = None
            self.flush_event.release()
        self.flush_at = None
        self.flush_thread = threading.Thread(target=body, daemon=True)
        self.flush_thread.start()
        self.settle_flush(first=True)

    def settle_flush(self, first=False):
        """wait until the flush thread is blocked on a future that is not done, or has ended"""
        t = self.flush_thread
        if t is None:
            return
        while True:
            if self.flush_parked:
                return
            if not first and (not t.is_alive() or self.flush_outcome != 'waiting'):
                if self.flush_outcome != 'waiting':
                    t.join(WAIT)
                    return
            at = self.flush_at
            if not first and at is not None and not at.done():
                return
            if not self.flush_event.acquire(timeout=WAIT):
                raise Stalled('flush thread made no progress in %s s' % WAIT)
            first = False

    def dead_workers(self):
        if self.pool is not None:
            return 0
        try:
            return len([t for t in self.handler._pool._threads if not t.is_alive()])
        except Exception:
            return 0

    def do_flush2_begin(self):
        """flush() called by another thread while (or after) the first caller's flush"""
        if self.flush2_thread is not None:
            return
        self.flush2_outcome = 'waiting'

        def body():
            try:
                self.handler.flush()
                self.flush2_outcome = 'returned'
            except Exception as e:
                self.flush2_outcome = 'raised_exc'
                self.flush_error = f'second flush: {type(e).__name__}: {e}'
            except BaseException as e:  # noqa: B902
                self.flush2_outcome = 'raised_base'
                self.flush_error = f'second flush: {type(e).__name__}: {e}'
            self.flush2_at = None
            self.flush2_event.release()
        self.flush2_thread = threading.Thread(target=body, daemon=True)
        self.flush2_thread.start()
        self.settle_flush2(first=True)

    def settle_flush2(self, first=False):
        t = self.flush2_thread
        if t is None:
            return
        while True:
            if not first and self.flush2_outcome != 'waiting':
                t.join(WAIT)
                return
            at = self.flush2_at
            if not first and at is not None and not at.done():
                return
            if not self.flush2_event.acquire(timeout=WAIT):
                raise Stalled('second flush thread made no progress in %s s' % WAIT)
            first = False

    def do_flush_go(self):
        if not self.flush_parked:
            return
        self.flush_go.set()
        t0 = time.time()
        while self.flush_parked and time.time() - t0 < WAIT:
            time.sleep(0.0005)
        self.settle_flush(first=True)

    def pending_keys(self):
        if not self.has_pending:
            return None
        return sorted(dict.keys(self.handler._pending))

    def fut_state(self, f):
        return 'done' if f.done() else 'running' if f.running() else 'queued'

    def observe(self):
        with self.lock:
            sends = list(self.sends)
            bodies = {k: list(v) for k, v in self.body_threads.items()}
        tasks = []
        futs = [j.future for j in self.pool.jobs] if self.pool else self.futures
        for n, f in enumerate(futs):
            k = self.accepted[n] if n < len(self.accepted) else None
            job = self.pool.jobs[n] if self.pool else None
            tasks.append({'id': n + 1, 'fut': self.fut_state(f),
                          'cb': bool(job.cb_done) if (job and self.has_pending) else None,
                          'runs': len(bodies.get(k, [])), 'sends': len([1 for kk, _ in sends if kk == k]),
                          'on_caller': any(t in self.callers for t in bodies.get(k, [])) or
                          any(t in self.callers for kk, t in sends if kk == k)})
        escaped = [[j.idx, j.escaped] for j in self.pool.jobs if j.escaped] if self.pool else []
        return {'escaped': escaped, 'dead_workers': self.dead_workers(), 'caller_sends': sorted(kk for kk, t in sends if t in self.callers and kk is not None),
                'degraded': list(self.degraded),
                'open': (bool(self.handler._open) if hasattr(self.handler, '_open') else None),
                'pending': self.pending_keys(),
                'flush': self.flush_outcome or 'idle', 'flush_runs': self.flush_runs,
                'flush2': self.flush2_outcome, 'refused': len(self.refused),
                'refusals': [[k, name, exc] for k, name, exc in self.refused], 'tasks': tasks,
                'stray_sends': len([1 for kk, _ in sends if kk is None])}

    def close(self):
        self.gate_callbacks = False
        self.flush_go.set()
        self.submit_go.set()
        for k in self.send_go:
            self.send_go[k].set()
        if self.pool:
            for j in self.pool.jobs:
                j.go.set()
                j.cb_go.set()
            for j in self.pool.jobs:
                if j.thread is not None:
                    j.thread.join(2)
                elif not j.future.done():
                    # never started by the schedule: end it so that a flush thread still waiting can go
                    try:
                        j.future.set_exception(RuntimeError('bench closed'))
                    except Exception:
                        pass
        else:
            try:
                self.handler._pool.shutdown(wait=False)
            except Exception:
                pass
        if self.flush_thread is not None:
            self.flush_thread.join(2)
        if self.flush2_thread is not None:
            self.flush2_thread.join(2)


def run_det(case):
    b = Bench('det', case['outcomes'], park_flush=bool(case.get('park_flush')),
              flush1_times_out=bool(case.get('flush1_times_out')))
    trace = []
    try:
        for st in case['sched']:
            s = st['s']
            if s == 'push':
                b.do_push()
            elif s == 'pushRejected':
                b.do_push_rejected()
            elif s == 'pushQueuedRaised':
                b.do_push_queued_raised()
            elif s == 'pushBegin':
                b.do_push_begin()
            elif s == 'pushStore':
                b.do_push_store()
            elif s == 'start':
                b.do_start(st['id'])
            elif s == 'finish':
                b.do_finish(st['id'])
            elif s == 'callback':
                b.do_callback(st['id'])
            elif s == 'flushBegin':
                b.do_flush_begin()
            elif s == 'flushGo':
                b.do_flush_go()
            elif s == 'flush2Begin':
                b.do_flush2_begin()
            else:
                raise core.Infra('unknown step ' + s)
            trace.append(b.observe())
        return {'trace': trace, 'flush_error': getattr(b, 'flush_error', None)}
    except Stalled as e:
        return {'trace': trace, 'flush_error': getattr(b, 'flush_error', None), 'stalled': str(e),
                'at_stall': b.observe()}
    finally:
        b.close()


def run_pool(case):
    """real ThreadPoolExecutor(2): tasks block inside send until released"""
    b = Bench('pool', case['outcomes'])
    try:
        gated = lambda k: b.outcomes[k] in ('ok', 'send_exc', 'send_base')   # noqa: E731  (others end at once)
        running = []           # job ids (1-based) whose body is blocked in send
        waiting = []           # accepted, not yet taken by a worker
        done = []

        def admit():
            while waiting and len(running) < 2:
                jid = waiting.pop(0)
                k = b.accepted[jid - 1]
                if gated(k):
                    if not b.at_send[k].wait(POOL_STALL):
                        raise Stalled('task %d was accepted but no pool worker started it within %s s '
                                      '(%d of the pool\'s worker threads are dead)' % (jid, POOL_STALL, b.dead_workers()))
                    running.append(jid)
                else:
                    wait_done(jid)

        def wait_done(jid):
            f = b.futures[jid - 1]
            t0 = time.time()
            while not f.done():
                if time.time() - t0 > POOL_STALL:
                    raise Stalled('task %d did not finish within %s s of being released (%d dead pool workers)'
                                  % (jid, POOL_STALL, b.dead_workers()))
                time.sleep(0.001)
            done.append(jid)

        for st in case['sched']:
            s = st['s']
            if s == 'push':
                n = len(b.accepted)
                b.do_push()
                if len(b.accepted) > n:
                    waiting.append(len(b.accepted))
                    admit()
            elif s == 'finish':
                jid = st['id']
                if jid in running:
                    b.send_go[b.accepted[jid - 1]].set()
                    wait_done(jid)
                    running.remove(jid)
                    admit()
            elif s == 'flushBegin':
                if b.flush_thread is None:
                    b.flush_outcome = 'waiting'

                    def body():
                        try:
                            b.handler.flush()
                            b.flush_outcome = 'returned'
                        except Exception as e:
                            b.flush_outcome = 'raised_exc'
                            b.flush_error = f'{type(e).__name__}: {e}'
                        except BaseException as e:  # noqa: B902
                            b.flush_outcome = 'raised_base'
                            b.flush_error = f'{type(e).__name__}: {e}'
                    b.flush_thread = threading.Thread(target=body, daemon=True)
                    b.flush_thread.start()
                    # flush has begun once it closed the handler or asked for the pending values (or ended)
                    t0 = time.time()
                    while getattr(b.handler, '_open', False) and not b.flush_snapshot_asked.is_set() \
                            and b.flush_thread.is_alive() \
                            and time.time() - t0 < 2:
                        time.sleep(0.001)
            # start / callback steps are the pool's own business in this mode
        all_released = not running and not waiting
        if b.flush_thread is not None and all_released:
            b.flush_thread.join(WAIT)
            if b.flush_thread.is_alive():
                raise Stalled('flush did not return within %s s although every task is finished' % WAIT)
        # let the done-callbacks (run by the pool threads after waiters are woken) finish
        t0 = time.time()
        while all_released and b.pending_keys() and time.time() - t0 < 5:
            time.sleep(0.002)
        if any(b.outcomes[k] in ('send_base', 'dies_base') for k in b.accepted):
            time.sleep(0.05)         # a worker killed by an escaping exception needs a moment to be seen dead
        return {'final': b.observe(), 'flush_error': getattr(b, 'flush_error', None), 'complete': all_released}
    except Stalled as e:
        return {'final': b.observe(), 'flush_error': getattr(b, 'flush_error', None), 'complete': False,
                'stalled': str(e)}
    finally:
        b.close()


ORPHAN = 'C09/refused-push-still-runs-unwaited'
OVERLAP = 'C09/flush-misses-task-being-submitted'
GIVES_UP = 'C09/flush-gives-up-after-10s'


def known_replays():
    P, F = {'s': 'push'}, {'s': 'flushBegin'}
    return [
        (ORPHAN,
         "ThreadPoolExecutor.submit queues the work item and then raises (Thread.start failing: can't start new thread): "
         'push_snapshot raises to its caller, the task is not in the pending map, flush() returns without waiting for '
         'it, and the refused snapshot is sent afterwards (simulated: the step pool queues, then raises RuntimeError)',
         {'mode': 'det', 'outcomes': ['ok', 'ok'],
          'sched': [P, {'s': 'pushQueuedRaised'}, {'s': 'start', 'id': 1, 'w': 0}, {'s': 'finish', 'id': 1}, F,
                    {'s': 'callback', 'id': 1}, {'s': 'start', 'id': 2, 'w': 1}, {'s': 'finish', 'id': 2}]}),
        (OVERLAP,
         'flush() begins while a push is inside submit_task, between pool.submit and the store into the pending map: '
         'flush finds nothing pending and returns at once; the accepted task is still running and was not refused',
         {'mode': 'det', 'outcomes': ['ok'],
          'sched': [{'s': 'pushBegin'}, {'s': 'start', 'id': 1, 'w': 0}, F, {'s': 'pushStore', 'id': 1},
                    {'s': 'finish', 'id': 1}, {'s': 'callback', 'id': 1}]}),
        (GIVES_UP,
         'flush() waits future.result(10) per task and swallows the TimeoutError: a task slower than 10 s is left '
         'unfinished when flush returns (the bound is simulated: the wait raises TimeoutError at once)',
         {'mode': 'det', 'flush1_times_out': True, 'judge_timeout': True, 'outcomes': ['ok'],
          'sched': [P, {'s': 'start', 'id': 1, 'w': 0}, F, {'s': 'finish', 'id': 1}, {'s': 'callback', 'id': 1}]}),
    ]


def known_finding(case, obs):
    if case.get('judge_timeout'):
        return GIVES_UP
    orphan = False
    for st in case.get('sched', []):
        if st['s'] == 'flushBegin' and orphan:
            return ORPHAN
        if st['s'] == 'flushBegin':
            break
        if st['s'] == 'pushQueuedRaised':
            orphan = True
    inside = False
    for st in case.get('sched', []):
        if st['s'] == 'pushBegin':
            inside = True
        elif st['s'] == 'pushStore':
            inside = False
        elif st['s'] == 'flushBegin' and inside:
            return OVERLAP
    return None


# ----------------------------------------------------------------- every in-tree submitter, before and after close
SUBMITTER_OF = {'push': 'PushService.push_snapshot', 'register': 'TracepointConfigService.__trigger_update',
                'unregister': 'TracepointConfigService.__trigger_update',
                'poll_update': 'TracepointConfigService.__trigger_update',
                'update_new_config': 'TracepointConfigService.__trigger_update'}


class _Records:
    """log records at WARNING or above emitted on the calling thread, by the agent's logger or through the root
    logger (task/__init__.py and config/tracepoint_config.py log through the stdlib module functions)"""

    def __init__(self):
        import logging
        self.logging = logging
        self.got = []
        outer = self

        class H(logging.Handler):
            def emit(self, record):
                if record.levelno >= logging.WARNING and record.thread == outer.thread:
                    outer.got.append(record.levelname)
        self.h = H(level=logging.WARNING)

    def __enter__(self):
        lg = self.logging
        self.thread = threading.get_ident()
        self.root, self.deep = lg.getLogger(), lg.getLogger('deep')
        self.saved = (self.root.level, self.root.disabled, self.deep.disabled, lg.root.manager.disable)
        lg.disable(lg.NOTSET)
        self.root.setLevel(lg.DEBUG)
        self.root.disabled = self.deep.disabled = False
        self.root.addHandler(self.h)
        self.deep.addHandler(self.h)
        return self

    def __exit__(self, *a):
        self.root.removeHandler(self.h)
        self.deep.removeHandler(self.h)
        self.root.setLevel(self.saved[0])
        self.root.disabled, self.deep.disabled = self.saved[1], self.saved[2]
        self.logging.disable(self.saved[3])
        return False


def run_submitters(case):
    """the REAL Deep object graph (svcbench: real ConfigService / TracepointConfigService / TaskHandler / PushService /
    LongPoll / TriggerHandler; fake channel; the pool inside the TaskHandler is a step executor).  `before` ops run
    while the handler is open (their tasks are then run), then the real TaskHandler.flush() closes it, then every
    `after` op hands work to the handler through one of the in-tree submitters.  Per op: what the caller saw."""
    import svcbench
    if case.get('no_handler'):
        return run_no_handler(case)
    b = svcbench.SvcBench()
    out = {'before': [], 'after': [], 'degraded': list(b.degraded)}
    try:
        n_snap = [0]

        def one(op):
            k = op['op']
            jobs = len(b.exec.jobs)
            told = [0]
            r = {'op': k}
            with _Records() as rec:
                try:
                    if k == 'push':
                        n_snap[0] += 1
                        tp = TracePointConfig('tp%d' % n_snap[0], 'a.py', 1, {}, [], [])
                        b.deep.push.push_snapshot(EventSnapshot(tp, 1, Resource.get_empty(), [], {}))
                    elif k == 'register':
                        reg = b.deep.register_tracepoint('a.py', op.get('line', 10), {}, [op.get('tag', 'w')])
                        b.handles.append(reg)
                    elif k == 'unregister':
                        h = op['handle']
                        if h < len(b.handles) and b.handles[h] is not None:
                            b.handles[h].unregister()
                        else:
                            r['skipped'] = True
                    elif k == 'poll_update':
                        b.channel.next = ('resp', svcbench.make_response(
                            {'op': 'poll', 'rt': 1, 'ts': op.get('ts', 1), 'hash': op.get('hash', 'h'),
                             'tps': [{'path': 'a.py', 'line': 10, 'tag': op.get('hash', 'h'), 'args': {}}]}))
                        b.deep.poll.poll()
                    elif k == 'update_new_config':
                        b.tps.update_new_config(op.get('ts', 1), op.get('hash', 'h'), [])
                    else:
                        raise core.Infra('unknown submitter op ' + k)
                except core.Infra:
                    raise
                except BaseException as e:  # noqa: B902 — what the submitter's caller sees
                    r['raised'] = type(e).__name__
                    r['raised_is_exception'] = isinstance(e, Exception)
                r['logs'] = list(rec.got)
            r['accepted'] = len(b.exec.jobs) - jobs
            return r
        for op in case['before']:
            out['before'].append(one(op))
        n = 0
        while b.exec.waiting() and n < 100:
            b.do({'op': 'applyTask', 'i': 0})
            n += 1
        try:
            b.deep.task_handler.flush()
        except BaseException as e:  # noqa: B902
            out['flush_raised'] = type(e).__name__
        out['open_after_flush'] = getattr(b.deep.task_handler, '_open', None)
        for op in case['after']:
            out['after'].append(one(op))
        return out
    finally:
        b.close()


def run_no_handler(case):
    """a REAL TracepointConfigService that was never given a task handler (not reachable through Deep): what its
    submitter does with a configuration update — observation, compared with the model, not judged"""
    from deep.config.tracepoint_config import TracepointConfigService, ConfigUpdateListener
    told = []

    class L(ConfigUpdateListener):
        def config_change(self, ts, old_hash, current_hash, old_config, new_config):
            told.append(ts)
    svc = TracepointConfigService()
    svc.add_listener(L())
    out = {'before': [], 'after': []}
    ids = []
    for op in case['after']:
        r = {'op': op['op'], 'accepted': 0}
        n = len(told)
        with _Records() as rec:
            try:
                if op['op'] == 'register':
                    ids.append(svc.add_custom('a.py', 10, {}, [op.get('tag', 'w')], []))
                elif op['op'] == 'unregister':
                    if ids:
                        svc.remove_custom(ids.pop())
                    else:
                        r['skipped'] = True
                else:
                    svc.update_new_config(op.get('ts', 1), op.get('hash', 'h'), [])
            except BaseException as e:  # noqa: B902
                r['raised'] = type(e).__name__
                r['raised_is_exception'] = isinstance(e, Exception)
            r['logs'] = list(rec.got)
        r['told'] = len(told) - n
        out['after'].append(r)
    return out


def gen_submitters(rng):
    if rng.random() < 0.1:
        return {'mode': 'submitters', 'no_handler': True, 'before': [],
                'after': [{'op': rng.choice(['register', 'register', 'unregister', 'update_new_config']),
                           'tag': 'n%d' % i, 'hash': 'n%d' % i, 'ts': i} for i in range(rng.randint(1, 4))]}
    before, after, regs = [], [], 0
    for _ in range(rng.randint(0, 3)):
        k = rng.choice(['register', 'register', 'poll_update', 'push', 'update_new_config'])
        before.append({'op': k, 'tag': 'w%d' % regs, 'hash': 'h%d' % len(before), 'ts': rng.randint(0, 99)})
        regs += k == 'register'
    for _ in range(rng.randint(1, 4)):
        k = rng.choice(['register', 'poll_update', 'push', 'update_new_config'] + (['unregister'] * 2 if regs else []))
        op = {'op': k, 'tag': 'late%d' % len(after), 'hash': 'late%d' % len(after), 'ts': rng.randint(0, 99)}
        if k == 'unregister':
            op['handle'] = rng.randrange(regs)
            regs_live = op['handle']
            if any(a['op'] == 'unregister' and a['handle'] == regs_live for a in after):
                continue          # a second unregister of the same handle finds nothing: it submits no work
        after.append(op)
    if not after:
        after.append({'op': 'register', 'tag': 'late', 'hash': 'late', 'ts': 1})
    return {'mode': 'submitters', 'before': before, 'after': after}


def submit_visibility(r):
    """what the caller of a submitter saw: raised_base / raised_exc / logged / silent"""
    if 'raised' in r:
        return 'raised_exc' if r.get('raised_is_exception') else 'raised_base'
    return 'logged' if r.get('logs') else 'silent'


def oracle_submitters(case, obs):
    v = []
    if obs.get('bench_error') or case.get('no_handler'):
        return v          # no handler at all: not reachable through Deep — observed and compared, not judged
    if 'flush_raised' in obs:
        v.append(f'flush() raised {obs["flush_raised"]}')
    for op, r in zip(case['before'], obs['before']):
        if 'raised' in r:
            v.append(f'before close: {op["op"]} raised {r["raised"]}')
    for n, (op, r) in enumerate(zip(case['after'], obs['after'])):
        if r.get('skipped'):
            continue
        what = f'after TaskHandler.flush() closed the handler, {op["op"]} (submits through {SUBMITTER_OF[op["op"]]})'
        if r['accepted']:
            v.append(f'{what}: {r["accepted"]} task(s) reached the pool — work accepted after closing')
        elif submit_visibility(r) == 'silent':
            v.append(f'{what} returned normally, raised nothing and logged nothing at WARNING or above: the work was '
                     f'dropped silently, not refused visibly')
    return v[:4]


def run_scale(case):
    """SCALE: `backlog` snapshots are pushed and accepted but no task is started (the step pool starts nothing by itself),
    then `extra` more pushes are made behind that backlog; then the extra tasks (and the first few) are run.  One
    observation at the end: who converted / sent what, on which thread, how often."""
    n, extra = case['backlog'], case['extra']
    b = Bench('det', ['ok'] * (n + extra))
    try:
        for _ in range(n + extra):
            b.do_push()
        jobs = len(b.pool.jobs)
        for jid in list(range(n + 1, jobs + 1)) + list(range(1, min(3, jobs) + 1)):
            b.do_start(jid)
            b.do_finish(jid)
            b.do_callback(jid)
        o = b.observe()
        o['jobs'] = jobs
        # keep the observation small: the tasks that ran, plus counts
        ran = [t for t in o['tasks'] if t['runs'] or t['sends'] or t['on_caller']]
        o['tasks_total'] = len(o['tasks'])
        o['tasks'] = ran
        o['pending'] = len(o['pending']) if o['pending'] is not None else None
        return {'final': o}
    except Stalled as e:
        return {'stalled': str(e), 'final': None}
    finally:
        b.close()


def oracle_scale(case, obs):
    v = []
    if obs.get('bench_error'):
        return v
    if obs.get('stalled'):
        return ['no progress: ' + obs['stalled']]
    o = obs['final']
    n, extra = case['backlog'], case['extra']
    where = f'{extra} push(es) made behind a backlog of {n} accepted, not yet started tasks'
    if o['caller_sends']:
        v.append(f'{where}: snapshot(s) {o["caller_sends"]} were converted / sent on the application thread that pushed them')
    for t in o['tasks']:
        if t['on_caller']:
            v.append(f'{where}: task {t["id"]} ran on the thread that pushed it')
        if t['runs'] > 1 or t['sends'] > 1:
            v.append(f'{where}: task {t["id"]} ran {t["runs"]} times / was sent {t["sends"]} times')
    for k, name, is_exc in o['refusals']:
        v.append(f'{where}: push of snapshot {k}: {name} (the handler is open: every push must be accepted for the pool)')
    if o['tasks_total'] != n + extra:
        v.append(f'{where}: {o["tasks_total"]} tasks reached the pool, {n + extra} snapshots were pushed')
    sent = {t['id'] for t in o['tasks'] if t['sends'] == 1 and t['runs'] == 1}
    want = set(range(n + 1, n + extra + 1)) | set(range(1, min(3, n + extra) + 1))
    if not v and sent != want:
        v.append(f'{where}: tasks run and sent exactly once {sorted(sent)}, expected {sorted(want)}')
    return v[:4]


def run_impl(case):
    try:
        if case['mode'] == 'scale':
            return run_scale(case)
        if case['mode'] == 'submitters':
            return run_submitters(case)
        return run_pool(case) if case['mode'] == 'pool' else run_det(case)
    except core.Infra:
        raise
    except BaseException as e:  # noqa: B902 — the bench tripped over the implementation: data, not a crash
        import traceback
        where = ' <- '.join(f'{f.name}:{f.lineno}' for f in reversed(traceback.extract_tb(e.__traceback__)[-3:]))
        return {'bench_error': f'{type(e).__name__}: {e} @ {where}', 'trace': [], 'final': None, 'complete': False}


# --------------------------------------------------------------------------------------- generation
def gen_det(rng, tier):
    n = rng.randint(1, 4 if tier == 'quick' else 7)
    extra = rng.randint(0, 2)                 # pushes kept for after flush began
    outcomes = [rng.choice(OUTCOMES if rng.random() < 0.6 else ['ok', 'send_exc', 'send_base'])
                for _ in range(n + extra)]
    sched = []
    pushed = 0
    queued, running, finished, cbd = [], [], [], []
    flush = 'idle'
    flushes = rng.choice([1, 1, 1, 2])
    open_ = True
    accepted = 0
    window = None                             # job id of a push that is between pool.submit and its store
    complete = rng.random() < 0.9
    steps = 0
    while steps < 80:
        steps += 1
        opts = []
        if window is None:
            if pushed < n and open_:
                opts += ['push'] * 3
                if flush == 'idle':
                    opts += ['pushBegin']
            if not open_ and pushed < n + extra:
                opts += ['push', 'pushBegin']
            if pushed < n + extra and rng.random() < 0.07:
                opts += ['pushRejected']
        else:
            opts += ['pushStore'] * 2
        if queued:
            opts += ['start'] * 2
        if running:
            opts += ['finish'] * 2
        if [j for j in finished if j != window]:
            opts += ['callback'] * 2
        # a flush that begins while a push is inside submit_task is the known finding: separate stream
        if window is None and flush == 'idle' and (pushed > 0 or rng.random() < 0.05):
            opts += ['flushBegin']
        if window is None and flush == 'returned' and flushes > 1:
            opts += ['flushBegin']
        if not opts:
            break
        if not complete and steps > 4 and window is None and rng.random() < 0.12:
            break
        a = rng.choice(opts)
        if a in ('push', 'pushBegin'):
            sched.append({'s': a})
            pushed += 1
            if open_:
                accepted += 1
                queued.append(accepted)
                if a == 'pushBegin':
                    window = accepted
        elif a == 'pushRejected':
            sched.append({'s': 'pushRejected'})
            pushed += 1
        elif a == 'pushStore':
            sched.append({'s': 'pushStore', 'id': window})
            if window in finished:            # the done-callback runs at once when attached to a finished future
                finished.remove(window)
                cbd.append(window)
            window = None
        elif a == 'start':
            j = rng.choice(queued)
            queued.remove(j)
            running.append(j)
            sched.append({'s': 'start', 'id': j, 'w': rng.randint(0, 3)})
        elif a == 'finish':
            j = rng.choice(running)
            running.remove(j)
            finished.append(j)
            sched.append({'s': 'finish', 'id': j})
        elif a == 'callback':
            j = rng.choice([x for x in finished if x != window])
            finished.remove(j)
            cbd.append(j)
            sched.append({'s': 'callback', 'id': j})
        elif a == 'flushBegin':
            sched.append({'s': 'flushBegin'})
            open_ = False
            if flush == 'returned':
                flushes -= 1
            flush = 'waiting'
        if flush == 'waiting' and not queued and not running:
            flush = 'returned'
    if window is not None:
        sched.append({'s': 'pushStore', 'id': window})
    return {'mode': 'det', 'outcomes': outcomes[:max(pushed, 1)], 'sched': sched}


def gen_orphan(rng):
    """labelled stream (known-finding candidate C09/refused-push-still-runs-unwaited): one push meets an executor that
    queues the work item and then raises; the other pushes are ordinary; starts / finishes / callbacks in a random order
    (the orphan task has no done-callback), one flush somewhere after the refused push"""
    n = rng.randint(1, 3)
    at = rng.randrange(n)
    outcomes = [rng.choice(['ok', 'ok', 'send_exc', 'unconvertible']) for _ in range(n)]
    sched = [{'s': 'pushQueuedRaised'} if i == at else {'s': 'push'} for i in range(n)]
    queued, running, finished = list(range(1, n + 1)), [], []
    flushed = False
    for _ in range(40):
        opts = (['start'] * 2 if queued else []) + (['finish'] * 2 if running else []) + \
               (['callback'] if [j for j in finished if j != at + 1] else []) + ([] if flushed else ['flushBegin'])
        if not opts:
            break
        a = rng.choice(opts)
        if a == 'start':
            j = rng.choice(queued)
            queued.remove(j)
            running.append(j)
            sched.append({'s': 'start', 'id': j, 'w': rng.randint(0, 1)})
        elif a == 'finish':
            j = rng.choice(running)
            running.remove(j)
            finished.append(j)
            sched.append({'s': 'finish', 'id': j})
        elif a == 'callback':
            j = rng.choice([x for x in finished if x != at + 1])
            finished.remove(j)
            sched.append({'s': 'callback', 'id': j})
        else:
            sched.append({'s': 'flushBegin'})
            flushed = True
    return {'mode': 'det', 'outcomes': outcomes, 'sched': sched}


def gen_pool(rng, tier, base_first=False):
    n = rng.randint(1, 5)
    outcomes = [rng.choice(['ok', 'send_exc', 'send_base', 'send_base', 'unconvertible', 'dies_base'])
                for _ in range(n + 1)]
    if base_first:
        # two or three BaseException-class failures (in send / in convert) first, then healthy snapshots
        k = rng.randint(2, 3)
        n = k + rng.randint(1, 3)
        outcomes = [rng.choice(['send_base', 'send_base', 'dies_base']) for _ in range(k)] + \
                   [rng.choice(['ok', 'ok', 'send_exc']) for _ in range(n - k + 1)]
    sched = [{'s': 'push'} for _ in range(n)]
    order = list(range(1, n + 1))
    # release order: the pool is FIFO with 2 workers; among the (up to 2) running tasks any may finish first
    running, waiting = [], list(order)
    gated = lambda j: outcomes[j - 1] not in ('unconvertible', 'dies_base')   # noqa: E731
    fin = []

    def admit():
        while waiting and len(running) < 2:
            j = waiting.pop(0)
            if gated(j):
                running.append(j)
    admit()
    while running:
        j = rng.choice(running)
        running.remove(j)
        fin.append({'s': 'finish', 'id': j})
        admit()
    pos = rng.randint(0, len(fin))
    fin.insert(pos, {'s': 'flushBegin'})
    if rng.random() < 0.5:
        fin.insert(rng.randint(pos + 1, len(fin)), {'s': 'push'})
    else:
        outcomes = outcomes[:n]
    return {'mode': 'pool', 'outcomes': outcomes, 'sched': sched + fin}


def gen_park(rng):
    """tasks complete (and their callbacks run) exactly while flush is taking stock: flush is parked at the first
    future it looks at — inside whatever bookkeeping it does — a random non-empty subset of the running tasks ends
    meanwhile, then flush goes on.  Judged by the oracle only (flush returns normally, everything drained)."""
    n = rng.randint(2, 4)
    outcomes = [rng.choice(['ok', 'ok', 'send_exc', 'send_base']) for _ in range(n)]
    sched = [{'s': 'push'} for _ in range(n)]
    order = list(range(1, n + 1))
    rng.shuffle(order)
    started = order[:rng.randint(max(1, n - 1), n)]
    sched += [{'s': 'start', 'id': j, 'w': 0} for j in started]
    sched.append({'s': 'flushBegin'})
    during = [j for j in started if rng.random() < 0.6] or [started[-1]]
    rng.shuffle(during)
    for j in during:
        sched += [{'s': 'finish', 'id': j}, {'s': 'callback', 'id': j}]
    sched.append({'s': 'flushGo'})
    rest = [j for j in order if j not in during]
    for j in rest:
        if j not in started:
            sched.append({'s': 'start', 'id': j, 'w': 1})
        sched += [{'s': 'finish', 'id': j}, {'s': 'callback', 'id': j}]
    return {'mode': 'det', 'park_flush': True, 'outcomes': outcomes, 'sched': sched}


def gen_multiflush(rng):
    """flush called again while tasks are still in flight: by a second thread while the first caller's flush is blocked
    on a running task, or by the same caller after its first flush gave up waiting (the 10 s bound, simulated).
    Every flush call must block until the tasks accepted before it have ended.  Oracle only."""
    n = rng.randint(1, 3)
    outcomes = [rng.choice(['ok', 'ok', 'send_exc', 'send_base']) for _ in range(n)]
    sched = [{'s': 'push'} for _ in range(n)]
    order = list(range(1, n + 1))
    rng.shuffle(order)
    started = order[:rng.randint(1, n)]
    sched += [{'s': 'start', 'id': j, 'w': 0} for j in started]
    case = {'mode': 'det', 'outcomes': outcomes}
    if rng.random() < 0.5:
        sched += [{'s': 'flushBegin'}, {'s': 'flush2Begin'}]
    else:
        case['flush1_times_out'] = True
        sched += [{'s': 'flushBegin'}, {'s': 'flushBegin'}]
        if rng.random() < 0.3:
            sched.append({'s': 'flush2Begin'})
    for j in order:
        if j not in started:
            sched.append({'s': 'start', 'id': j, 'w': 1})
        sched += [{'s': 'finish', 'id': j}, {'s': 'callback', 'id': j}]
    case['sched'] = sched
    return case


def gen(rng, tier):
    k = 0
    while True:
        k += 1
        if k % 10 == 3:
            yield gen_park(rng)
        elif k % 10 == 7:
            yield gen_multiflush(rng)
        elif k % 12 == 0:
            yield gen_pool(rng, tier, base_first=(k % 24 == 0))
        elif k % 12 == 5:
            yield gen_submitters(rng)
        elif k % 24 == 11:
            yield gen_orphan(rng)
        elif k in (17, 317):
            # SCALE: pushes behind 1000..3000 accepted tasks none of which has been started (a few per run)
            yield {'mode': 'scale', 'backlog': rng.choice([1024, 1100, rng.randint(1000, 3000)]), 'extra': rng.randint(1, 4)}
        else:
            yield gen_det(rng, tier)


def corpus():
    P, F = {'s': 'push'}, {'s': 'flushBegin'}
    st = lambda i: {'s': 'start', 'id': i, 'w': 0}   # noqa: E731
    fi = lambda i: {'s': 'finish', 'id': i}   # noqa: E731
    cb = lambda i: {'s': 'callback', 'id': i}   # noqa: E731
    return [
        # D12: a failing task is still running when flush starts
        {'mode': 'det', 'outcomes': ['send_exc'], 'sched': [P, st(1), F, fi(1), cb(1)]},
        {'mode': 'pool', 'outcomes': ['send_exc', 'ok'], 'sched': [P, P, F, fi(1), fi(2)]},
        # two sends fail with a BaseException, then healthy snapshots, then flush: the workers must survive
        {'mode': 'pool', 'outcomes': ['send_base', 'send_base', 'ok', 'ok'],
         'sched': [P, P, P, P, fi(1), fi(2), fi(3), F, fi(4)]},
        {'mode': 'pool', 'outcomes': ['dies_base', 'dies_base', 'dies_base', 'ok'], 'sched': [P, P, P, P, fi(4), F]},
        {'mode': 'det', 'outcomes': ['send_base', 'dies_base', 'ok'],
         'sched': [P, P, P, st(1), fi(1), cb(1), st(2), fi(2), cb(2), st(3), fi(3), cb(3), F]},
        # flush passes a finished task whose callback has not run yet; push after close
        {'mode': 'det', 'outcomes': ['ok', 'send_base', 'unconvertible', 'ok'],
         'sched': [P, P, st(2), st(1), P, fi(1), F, P, fi(2), st(3), cb(2), fi(3), cb(1), cb(3)]},
        # task 2 completes and is forgotten exactly while flush looks at task 1
        {'mode': 'det', 'park_flush': True, 'outcomes': ['ok', 'ok'],
         'sched': [P, P, st(1), st(2), F, fi(2), cb(2), {'s': 'flushGo'}, fi(1), cb(1)]},
        # a second caller of flush while the first is blocked on a running task; flush again after a wait timed out
        {'mode': 'det', 'outcomes': ['ok'], 'sched': [P, st(1), F, {'s': 'flush2Begin'}, fi(1), cb(1)]},
        {'mode': 'det', 'flush1_times_out': True, 'outcomes': ['ok', 'send_exc'],
         'sched': [P, P, st(1), st(2), F, F, fi(2), cb(2), fi(1), cb(1)]},
        # the executor refuses the second push (its id is used up), the others are delivered once; refused again after close
        {'mode': 'det', 'outcomes': ['ok', 'ok', 'send_exc', 'ok'],
         'sched': [P, {'s': 'pushRejected'}, P, st(1), st(2), F, fi(2), fi(1), cb(1), cb(2), {'s': 'pushRejected'}]},
        # a TracepointConfigService without any task handler: updates are dropped silently (observed, not judged)
        {'mode': 'submitters', 'no_handler': True, 'before': [],
         'after': [{'op': 'register', 'tag': 'n0'}, {'op': 'update_new_config', 'hash': 'n1', 'ts': 1},
                   {'op': 'unregister'}]},
        # every in-tree submitter after close: push, register, unregister, a late poll UPDATE, update_new_config
        {'mode': 'submitters', 'before': [{'op': 'register', 'tag': 'w0'}, {'op': 'poll_update', 'hash': 'h1', 'ts': 1}],
         'after': [{'op': 'push'}, {'op': 'register', 'tag': 'late'}, {'op': 'unregister', 'handle': 0},
                   {'op': 'poll_update', 'hash': 'h2', 'ts': 2}, {'op': 'update_new_config', 'hash': 'h3', 'ts': 3}]},
        # SCALE: three pushes behind 1100 accepted, unstarted tasks
        {'mode': 'scale', 'backlog': 1100, 'extra': 3},
        # 20 failing tasks (the suite's test, with the schedule pinned)
        {'mode': 'det', 'outcomes': ['dies_exc', 'dies_base', 'send_exc'],
         'sched': [P, P, P, st(1), st(2), st(3), fi(3), fi(2), fi(1), F, cb(1), cb(2), cb(3)]},
    ]


# --------------------------------------------------------------------------------------- judging
def expected_sends(out):
    return 1 if out in ('ok', 'send_exc', 'send_base') else 0


def accepted_outcomes(case, obs_state):
    """outcome per accepted task: pushes are refused exactly when they come after the first flushBegin"""
    outs, k, closed = [], 0, False
    for st in case['sched']:
        if st['s'] == 'flushBegin':
            closed = True
        elif st['s'] in ('push', 'pushBegin', 'pushQueuedRaised'):
            if not closed and k < len(case['outcomes']):
                outs.append(case['outcomes'][k])
            k += 1
        elif st['s'] == 'pushRejected':
            k += 1                    # the snapshot is used up, no task exists for it
    return outs


def rejected_snapshots(case):
    """indexes of the snapshots whose push met an executor that refuses new work"""
    ks, k = set(), 0
    for st in case['sched']:
        if st['s'] in ('push', 'pushBegin'):
            k += 1
        elif st['s'] in ('pushRejected', 'pushQueuedRaised'):
            ks.add(k)
            k += 1
    return ks


def judge_state(case, o, where, pushes_after_close, outs):
    v = []
    if o['flush'].startswith('raised'):
        v.append(f'{where}: flush() raised ({o["flush"]})')
    for t in o['tasks']:
        out = outs[t['id'] - 1] if t['id'] - 1 < len(outs) else None
        if t['runs'] > 1:
            v.append(f'{where}: task {t["id"]} was executed {t["runs"]} times')
        if t['sends'] > 1:
            v.append(f'{where}: snapshot of task {t["id"]} was sent {t["sends"]} times')
        if t['on_caller']:
            v.append(f'{where}: snapshot of task {t["id"]} was converted/sent on the thread that pushed it')
        if t['fut'] == 'done' and out is not None:
            if t['runs'] != 1:
                v.append(f'{where}: task {t["id"]} is finished but ran {t["runs"]} times')
            if t['sends'] != expected_sends(out):
                v.append(f'{where}: finished task {t["id"]} ({out}): {t["sends"]} send attempts, expected '
                         f'{expected_sends(out)}')
    for jid, what in o.get('escaped', []):
        v.append(f'{where}: {what} escaped from the done-callbacks of task {jid} on its worker thread (a pool worker '
                 f'dies of this: the failure is not contained)')
    if o.get('dead_workers'):
        v.append(f'{where}: {o["dead_workers"]} worker thread(s) of the pool died')
    rej = rejected_snapshots(case)
    for k, name, is_exc in o['refusals']:
        if k in rej and name != 'silently-not-submitted':
            continue                  # the executor's refusal handed to the caller: the visible refusal
        if name not in ('IllegalStateException', 'silently-not-submitted'):
            v.append(f'{where}: push_snapshot of snapshot {k} raised {name} on the application thread')
    if o['caller_sends']:
        v.append(f'{where}: snapshot(s) {o["caller_sends"]} were sent on the application thread that pushed them')
    if o['stray_sends']:
        v.append(f'{where}: {o["stray_sends"]} sends of something that is not one of the pushed snapshots')
    if (o.get('flush2') or '').startswith('raised'):
        v.append(f'{where}: the second flush() raised ({o["flush2"]})')
    if o.get('flush2') == 'returned':
        late = [t['id'] for t in o['tasks'] if t['fut'] != 'done']
        if late:
            v.append(f'{where}: a second flush() (another caller) has returned but tasks {late} accepted before it '
                     f'are not finished')
    if o['flush'] == 'returned' and not (case.get('flush1_times_out') and not case.get('judge_timeout')
                                         and o.get('flush_runs', 0) < 2):
        late = [t['id'] for t in o['tasks'] if t['fut'] != 'done']
        if late:
            v.append(f'{where}: flush() has returned but tasks {late} accepted before it are not finished')
    if len(o['tasks']) > len(outs):
        v.append(f'{where}: {len(o["tasks"]) - len(outs)} task(s) accepted after flush had closed the handler')
    for k, name, is_exc in o['refusals']:
        if name == 'silently-not-submitted':
            v.append(f'{where}: push of snapshot {k} returned normally but nothing was submitted')
    return v


def oracle(case, obs):
    if case['mode'] == 'scale':
        return oracle_scale(case, obs)
    if case['mode'] == 'submitters':
        return oracle_submitters(case, obs)
    outs = accepted_outcomes(case, None)
    v = []
    if obs.get('bench_error'):
        return []
    if obs.get('stalled'):
        v.append('no progress: ' + obs['stalled'])
    if case['mode'] == 'pool':
        o = obs['final']
        v += judge_state(case, o, 'at the end', 0, outs)
        if obs['complete']:
            if o['flush'] not in ('returned', 'idle'):
                v.append(f'every task is finished but flush() is {o["flush"]}')
            if any(t['fut'] != 'done' or t['runs'] != 1 for t in o['tasks']):
                v.append('a task did not run exactly once: %s' % o['tasks'])
            if o['pending']:
                v.append(f'all callbacks ran but the pending map still holds {o["pending"]}')
        want_ref = sum(1 for i, st in enumerate(case['sched']) if st['s'] == 'push'
                       and any(x['s'] == 'flushBegin' for x in case['sched'][:i]))
        if o['refused'] != want_ref and not obs.get('stalled'):
            v.append(f'{want_ref} push(es) came after flush closed the handler, {o["refused"]} were refused visibly')
        return v[:4]
    closed = False
    want_ref = 0
    if obs.get('stalled') and 'at_stall' in obs:
        v += judge_state(case, obs['at_stall'], 'when progress stopped', 0, outs)
    for n, (st, o) in enumerate(zip(case['sched'], obs['trace'])):
        where = f'after step {n} ({st["s"]}{" " + str(st["id"]) if "id" in st else ""})'
        if st['s'] == 'flushBegin':
            closed = True
        if st['s'] in ('pushRejected', 'pushQueuedRaised') and not closed:
            want_ref += 1
            if o['refused'] != want_ref:
                v.append(f'{where}: the executor refused the task and push_snapshot did not hand that to its caller '
                         f'({o["refused"]} refusals so far, {want_ref} expected): the snapshot is dropped silently')
        if st['s'] in ('push', 'pushBegin', 'pushRejected', 'pushQueuedRaised') and closed:
            want_ref += 1
            if o['refused'] != want_ref:
                v.append(f'{where}: a push after flush closed the handler was not refused visibly '
                         f'({o["refused"]} refusals so far, {want_ref} expected)')
        v += judge_state(case, o, where, want_ref, outs)
        if len(v) >= 4:
            break
    if obs['trace']:
        o = obs['trace'][-1]
        if o['tasks'] and all(t['cb'] for t in o['tasks']) and o['pending']:
            v.append(f'every callback has run but the pending map still holds {o["pending"]}')
    return v[:4]


def pool_model_sched(case):
    """explicit schedule for the model: the real pool starts tasks FIFO when one of its 2 workers is free and runs
    the callback right after the task ends"""
    out = []
    outs = case['outcomes']
    running, waiting = [], []
    accepted = 0
    closed = False
    npush = 0

    def admit():
        while waiting and len(running) < 2:
            j = waiting.pop(0)
            out.append({'s': 'start', 'id': j, 'w': len(running)})
            if outs[j - 1] in ('unconvertible', 'dies_base'):
                out.append({'s': 'finish', 'id': j})
                out.append({'s': 'callback', 'id': j})
            else:
                running.append(j)
    for st in case['sched']:
        if st['s'] == 'push':
            out.append({'s': 'push'})
            if not closed:
                accepted += 1
                waiting.append(accepted)
                admit()
            npush += 1
        elif st['s'] == 'finish':
            if st['id'] in running:
                running.remove(st['id'])
                out.append({'s': 'finish', 'id': st['id']})
                out.append({'s': 'callback', 'id': st['id']})
                admit()
        elif st['s'] == 'flushBegin':
            out.append({'s': 'flushBegin'})
            closed = True
    return out


def model_request(case, obs):
    if case['mode'] == 'scale':
        return None          # thousands of tasks: judged by the oracle (the model's per-step trace would be quadratic)
    if case['mode'] == 'submitters':
        return {'submitters': [{'func': SUBMITTER_OF[op['op']], 'open': True} for op in case['before']] +
                              [{'func': SUBMITTER_OF[op['op']], 'open': False, 'no_handler': bool(case.get('no_handler'))}
                               for op in case['after']]}
    if case.get('park_flush') or case.get('flush1_times_out') or any(st['s'] == 'flush2Begin' for st in case['sched']):
        return None      # flush parked inside its own bookkeeping / two callers of flush / a wait that timed out:
        #                  no such region in the model — judged by the oracle
    # outcomes by job id = outcomes of the accepted pushes, in order
    outs = accepted_outcomes(case, None)
    sched = pool_model_sched({'outcomes': outs, 'sched': case['sched']}) if case['mode'] == 'pool' else case['sched']
    if any(st['s'] in ('pushRejected', 'pushQueuedRaised') for st in case['sched']):
        # the schedule names tasks in the order they were accepted; the handler's job ids (which the model uses) skip
        # the ids used up by pushes the executor refused while the handler was open
        job_of, by_job, jid, closed = {}, [], 0, False
        for st in case['sched']:
            if st['s'] == 'flushBegin':
                closed = True
            elif st['s'] in ('push', 'pushBegin', 'pushRejected', 'pushQueuedRaised') and not closed:
                jid += 1
                by_job.append('ok')
                if st['s'] != 'pushRejected':
                    job_of[len(job_of) + 1] = jid
                    by_job[-1] = outs[len(job_of) - 1] if len(job_of) - 1 < len(outs) else 'ok'
        sched = [dict(st, id=job_of.get(st['id'], st['id'])) if 'id' in st else st for st in sched]
        outs = by_job
    return {'outcomes': outs, 'sched': sched, 'eager': True}


def cmp_state(m, o, where, with_cb=True):
    d = []
    for key in ('open', 'pending', 'flush', 'refused'):
        if o[key] is not None and m[key] != o[key]:
            d.append(f'{where}: {key} model {m[key]} vs implementation {o[key]}')
    if m['caller_runs'] != sum(1 for t in o['tasks'] if t['on_caller']) + len(o['caller_sends']):
        d.append(f'{where}: work on the calling thread: model {m["caller_runs"]} vs implementation '
                 f'{len(o["caller_sends"])} sends')
    if len(m['tasks']) != len(o['tasks']):
        d.append(f'{where}: accepted tasks model {len(m["tasks"])} vs implementation {len(o["tasks"])}')
    for a, b in zip(m['tasks'], o['tasks']):
        for key in ('fut', 'runs', 'sends') + (('cb',) if with_cb else ()):
            if b[key] is not None and a[key] != b[key]:
                d.append(f'{where}: task {a["id"]} {key} model {a[key]} vs implementation {b[key]}')
    return d


def compare(case, obs, resp):
    if 'error' in resp:
        return ['model error: ' + resp['error']]
    if obs.get('bench_error'):
        return ['the bench could not run the case on this implementation: ' + obs['bench_error']]
    if obs.get('stalled'):
        return ['implementation stalled: ' + obs['stalled']]
    if case['mode'] == 'submitters':
        d = []
        want = sorted(set(SUBMITTER_OF.values()))
        if sorted(resp.get('sites', [])) != want:
            d.append(f'in-tree submitters: the source has {sorted(resp.get("sites", []))}, the bench drives {want}')
        ops = [('before close', o, r) for o, r in zip(case['before'], obs['before'])] + \
              [('after close', o, r) for o, r in zip(case['after'], obs['after'])]
        for (when, op, r), m in zip(ops, resp['results']):
            if r.get('skipped'):
                continue
            got = 'accepted' if (r['accepted'] and 'raised' not in r) else submit_visibility(r)
            if when == 'before close' and op['op'] == 'unregister':
                continue
            if m != got and not (got == 'raised_exc' and m == 'raised_base' and r.get('raised') == 'RuntimeError'):
                d.append(f'{when}, {op["op"]} through {SUBMITTER_OF[op["op"]]}: model {m} vs implementation {got}')
        return d[:4]
    if case['mode'] == 'pool':
        if not obs['complete']:
            return []
        return cmp_state(resp['final'], obs['final'], 'at the end', with_cb=False)[:4]
    d = []
    for n, (m, o) in enumerate(zip(resp['trace'], obs['trace'])):
        d += cmp_state(m, o, f'after step {n} ({case["sched"][n]["s"]})')
        if len(d) >= 4:
            break
    return d[:4]


def _features(case):
    if case['mode'] == 'scale':
        return {'backlog-%d' % case['backlog']}
    if case['mode'] == 'submitters':
        return {('no-handler/' if case.get('no_handler') else 'after-close/') +
                '+'.join(sorted({op['op'] for op in case['after']}))}
    outs = accepted_outcomes(case, None)
    fails = {i + 1 for i, o in enumerate(outs) if o in ('send_exc', 'send_base', 'dies_exc', 'dies_base', 'meta_exc')}
    closed = False
    fin = set()
    feats = set()
    for st in case['sched']:
        if st['s'] == 'flushBegin':
            if not closed and (fails - fin):
                feats.add('failing-unfinished-at-flush')
            closed = True
        elif st['s'] == 'finish':
            fin.add(st['id'])
        elif st['s'] == 'push' and closed:
            feats.add('push-after-close')
        elif st['s'] == 'pushRejected':
            feats.add('executor-refusal')
        elif st['s'] == 'pushQueuedRaised':
            feats.add('queued-then-raised')
        elif st['s'] == 'callback' and closed:
            feats.add('callback-during-flush')
    return feats


def label(case, obs):
    f = _features(case)
    if case['mode'] == 'scale':
        return 'scale/' + '+'.join(sorted(f))
    if case['mode'] == 'submitters':
        return 'submitters/' + '+'.join(sorted(f))
    deg = 'degraded/' if (obs.get('bench_error') or any(o.get('degraded') for o in obs.get('trace') or [])
                          or (obs.get('final') or {}).get('degraded')) else ''
    multi = '-flush-again-after-timeout' if case.get('flush1_times_out') else \
        '-two-flush-callers' if any(st['s'] == 'flush2Begin' for st in case['sched']) else ''
    return deg + case['mode'] + ('-flush-parked' if case.get('park_flush') else '') + multi + '/' + \
        ('+'.join(sorted(f)) if f else 'plain')


def nontrivial(case, obs):
    return bool(_features(case))


def shrink(case):
    if case['mode'] == 'scale':
        if case['extra'] > 1:
            yield dict(case, extra=1)
        return
    if case['mode'] == 'submitters':
        for i in range(len(case['before']) - 1, -1, -1):
            if case['before'][i]['op'] != 'register':
                yield dict(case, before=case['before'][:i] + case['before'][i + 1:])
        for i in range(len(case['after']) - 1, -1, -1):
            if len(case['after']) > 1:
                yield dict(case, after=case['after'][:i] + case['after'][i + 1:])
        return
    if case.get('park_flush') or case.get('flush1_times_out'):
        return
    sc = case['sched']
    for i in range(len(sc) - 1, -1, -1):
        if sc[i]['s'] != 'push':
            yield {'mode': case['mode'], 'outcomes': case['outcomes'], 'sched': sc[:i] + sc[i + 1:]}
    for n in range(len(sc) - 1, 0, -1):
        yield {'mode': case['mode'], 'outcomes': case['outcomes'], 'sched': sc[:n]}
