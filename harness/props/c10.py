"""C10 — conditions gate firing and use no budget when false / failing; expressions see the paused frame's locals and
its module's globals and nothing of the agent; a failing expression is an error result for that expression only."""
import builtins as _builtins
import itertools
import threading

import core
from props import _exprlib as X
from rig import Rig, MockFrame, run_traced

ID = 'C10'
EXTRACT = ['limiter', 'expr']
LEAN_TARGETS = ['DeepModel.Props.C10']
AUDIT = 'DeepModel/Audit/C10.lean'
DRIVER = 'DeepModel/Driver/C10.lean'
BUDGET = {'quick': 1500, 'thorough': 15000}
RULE = ('histories: action kind (snapshot / log / metric / span and combinations of them on one tracepoint; line and '
        'method-entry tracepoints; span processor present or absent) x fire_count text x fire_period text x condition text '
        '(absent, blank, an expression) x up to 30 hits with a scripted clock (period boundary +-1 ns) whose condition '
        'is True / False / raises one of 15 exception classes (BaseException subclasses included, messages include '
        'the truthy words) — the condition function counts its calls, so "limits first" is observed; a second stream '
        'has non-boolean condition values (ints, text incl. "on", lists, None, exception objects). scope: generated host modules with their own '
        'globals and a generated host function, run on REAL frames (sys.settrace) or as frame-like mocks, with a '
        'condition, watches, a log template and a metric whose expressions name locals, host globals, builtins, '
        'names that exist only in the agent\'s modules (must be NameError), host names that collide with agent names, '
        'attribute / index / call expressions and expressions raising any BaseException subclass; multi: 2-3 '
        'tracepoints on ONE line (merged into one trigger as convert_response does, or installed as separate triggers), '
        'each with its own condition function, limits and action kind, judged per tracepoint; conc: two threads at one '
        'log (or snapshot+log) tracepoint, each in its own frame (own locals, own module globals), each parked inside a '
        '`pause()` field of the message — every field must be evaluated in the frame of its '
        'own hit. What is forced: every pause() of a hit parks its thread until the driver releases it; the case\'s '
        'schedule (one of the 6 orders of two steps per thread) says which thread runs to its next pause / its end at '
        'each of the first four steps, after that thread 0 is run to its end, then thread 1 (further pauses of a hit '
        'are stepped through one by one, not interleaved further). The model side of conc cases (driver op concN) is an '
        'ECHO: it is fed the same reference evaluation of each frame as the oracle and shares no state between hits by '
        'construction — the oracle is the judge of these streams; conc-inner: the same with the thread parked PART-WAY through ONE expression (`pause() and <names>`, '
        '`(pause(), <names>)[1]`) — a field / LOG watch or the CONDITION of the tracepoint (true in one thread\'s frame, '
        'false or failing in the other\'s): the names read after the pause must still be those of the own frame, a hit '
        'whose condition is false in its own frame produces nothing; threads (every 17th case): a history with a finite '
        'fire_count whose hits arrive strictly one after the other on 2-3 persistent (live) host threads, often starting '
        'with a rejected hit (false / raising Exception / raising BaseException) on one thread followed by a true hit on '
        'another — judged like any history (fires iff limits and condition permit); scale (3 cases per quick run + 1 corpus case): '
        '1000-2500 consecutive hits rejected by the condition (failing / false / mixed) on a log or metric action, then true '
        'hits with budget left — they must fire; scope expressions (condition, watches, '
        'log fields, metric value and labels) include string literals with runs of blanks / tabs / line breaks, triple-quoted '
        'literals, expressions laid out over several lines inside brackets and leading / trailing blanks. Non-trivial: a '
        'history with at least one condition-rejected hit followed by a collection, or a scope case with at least one '
        'failing and one succeeding expression. Distinct = distinct canonical JSON of the case.')
TRUSTED = ['Python eval / str on live values is the eval oracle (reference evaluation in a copy of the environment)',
           'Py.parseInt models int(str) for ASCII text; Py.lower / Py.strip model str.lower / str.strip for ASCII']
ASSUMPTIONS = ['conditions are boolean-valued or failing (the statement\'s quantifier); values of other types (second '
               'stream) are judged by the documented rule: text of the value in yes/true/t/1/y, case-insensitive', 'expressions and __str__ of host values have no side effects',
               'time stamps are > 0']

COUNTS = [None, '-1', '1', '2', '3', 'abc', '0']
PERIODS = [None, '0', '1', '1000', 'x']
KINDS = ['snapshot', 'log', 'metric', 'span']
# one tracepoint may carry several actions (each action context class gates on its own): combinations
COMBOS = ['snapshot+metric', 'snapshot+span', 'metric+span', 'log+span', 'log+metric+span', 'snapshot+metric+span']
CONDITIONS = ['cond()'] * 6 + [' cond() ', 'cond( )', None, '', '   ', '\t']
TRUTHY = ['yes', 'true', 't', '1', 'y', 'True', 'YES', 'T', 'Y']
MSGS = ['boom', 'condition fails', '', 'no', '0', 'false'] + TRUTHY
NONBOOL = [1, 0, 2, 'yes', 'no', 'true', 'T', 'y', '', None, [], [1], 1.0, 'True', 'False', 'on', 'ON', ' true',
           {'exc': ['ValueError', 'true']}, {'exc': ['KeyError', '1']}]


def ref_int(text, default):
    if text is None:
        return default
    try:
        return int(text)
    except ValueError:
        return default


def blank(cond):
    return cond is None or cond.strip() == ''


# --------------------------------------------------------------------------------------- generation
def gen_history(rng, nonbool=False):
    cfg = {}
    fc, fp = rng.choice(COUNTS), rng.choice(PERIODS)
    if fc is not None:
        cfg['fire_count'] = fc
    if fp is not None:
        cfg['fire_period'] = fp
    per = ref_int(fp, 1000)
    step = max(abs(per), 1) * 1_000_000
    ts = rng.randint(1, 10 ** 6)
    hits = []
    p_true = rng.choice([0.2, 0.5, 0.8])
    for _ in range(rng.randint(1, 30)):
        r = rng.random()
        if r < 0.3:
            ts += step
        elif r < 0.45:
            ts += step - 1
        elif r < 0.6:
            ts += step + 1
        elif r < 0.75:
            ts += rng.randint(0, step // 2 + 1)
        else:
            ts += rng.randint(step, 3 * step)
        c = rng.random()
        if nonbool and c < 0.5:
            cond = {'k': 'value', 'v': rng.choice(NONBOOL)}
        elif c < p_true:
            cond = {'k': 'true'}
        elif c < p_true + (1 - p_true) * 0.5:
            cond = {'k': 'false'}
        else:
            cls = rng.choice(sorted(X.EXC_CLASSES))
            msg = rng.choice(MSGS)
            if cls == 'KeyError' and rng.random() < 0.5:
                msg = rng.choice([1, 'y', 't', 0])          # str(KeyError(1)) == '1'
            cond = {'k': 'raise', 'cls': cls, 'msg': msg}
        hits.append({'ts': ts, 'cond': cond})
    action = rng.choice(KINDS + KINDS + COMBOS)
    extra = {}
    if rng.random() < 0.25:
        extra['entry'] = True                      # a method-entry tracepoint (`method_name`, fires on the call event)
    if 'span' in action and rng.random() < 0.15:
        extra['span_proc'] = False                 # no span processor active
    return {**extra, 'kind': 'history', 'stream': 'nonbool' if nonbool else 'bool', 'action': action, 'cfg': cfg,
            'condition': rng.choice(CONDITIONS), 'hits': hits}


# the white space of an expression belongs to it: runs of blanks / tabs / line breaks inside string literals are part of the
# value, an expression may be laid out over several lines inside brackets, leading / trailing blanks are allowed
WS_EXPRS = ["'x  y'", "w == 'a  b\tc'", "len('a \t b')", "s + '  ' + s", "w.split('  ')", "'%s  %s' % (a, s)",
            '"""l1\n  l2"""', "w.count('  ') + w.count('\t')", '(a +\n   1)', '  a + 2  ', "[a,\n lst[0],\n 'p\n\nq']",
            "'tab\there'.split('\t')", "d.get('k  k', 'none  found')", "GSTR + '   ' + w"]
WS_CONDS = ["w == 'a  b\tc'", "w.count('  ') == 1", "s + '  ' == 'text  '", "'  ' in w and GNUM == 42",
            "len('a  b') == 4", "w == 'a b c'", "(a > 3 and\n w.startswith('a  b'))", "'\t' in w"]
WS_FIELDS = [e for e in WS_EXPRS if all(ch not in e for ch in '{}!:')]
LOCAL_VALUES = [5, -3, 0, 'text', 'ünï', 2.5, True, None, [1, 2, 3], {'k': 'v', 'n': 7}, {'obj': {'name': 'bob', 'age': 3}},
                {'tuple': [1, 'a']}, '', [[1], [2]]]
BUILTIN_NAMES = ['len', 'abs', 'max', 'print', 'ValueError', 'sorted', 'str']
EXPRS_OK = ['a + 1', 'len(lst)', 'lst[0]', 'd["k"]', "d['n'] * 2", 'o.name', 'o.age + a', 'twice(a)', 'ident(s)',
            'GNUM + a', 'GSTR', 'GSTR.upper()', 'GLIST[-1]', 'abs(-a)', 'str(a) + s', 'a > 3', 'a == 5 and GNUM == 42',
            '[x * 2 for x in lst]', 'max(lst)', 'not a', 's * 2', 'GOBJ.name', 'len(GSTR) + len(s)', "'%s-%s' % (a, s)",
            '(lambda q: q + a)(1)', 'sorted(d)', 'None', '1.5 + a', 'twice(GSTR)'] + WS_EXPRS + X.SHADOW_VALUE_EXPRS + X.SHADOW_TEXT_EXPRS
EXPRS_FAIL = ['nope', 'a / 0', 'd["missing"]', 'd[1]', 'lst[99]', 'o.nothing', 'boom()', "boom('KeyboardInterrupt', 'stop')",
              "boom('HostInterrupt', 'true')", "boom('SystemExit', '1')", "boom('GeneratorExit')", "boom('HostQuit', 'y')",
              'int(s)', 'len(a)', '1 +', 'GSTR + 1', 'undefined_fn(a)', "boom('KeyError', 1)", "boom('BaseException', 'yes')",
              'import os', 'a = 1', "boom('RecursionError', 't')", "boom('MemoryError', 'x')", "boom('StopIteration', 'z')"]


# expressions that use a frame local inside a lambda body / generator expression of their own: at that line of the
# program they have a value; known finding C10/nested-scope-hides-locals — generated only in the `nested` stream
NESTED_EXPRS = ['(lambda q: q + a)(1)', 'any(x < a for x in lst)', 'sum(v * a for v in lst)', '(lambda: s)()',
                'max(x + a for x in lst)', 'list(x for x in lst if x < a)', 'sorted(lst, key=lambda v: v * a)',
                '(lambda: o.name)()', 'sum(1 for _ in lst if s)']
NESTED_FIELDS = [e for e in NESTED_EXPRS if ':' not in e]
FINDING_NESTED = 'C10/nested-scope-hides-locals'
FINDING_FAILWATCH = 'C10/failing-watch-is-a-value'


def field_ok(f):
    """usable as a `{field}` of a log template: no `{ } ! :` outside square brackets, brackets closed"""
    inbr = False
    for ch in f:
        if inbr:
            inbr = ch != ']'
        elif ch in '{}!:':
            return False
        elif ch == '[':
            inbr = True
    return not inbr and f.strip() != ''


def gen_scope(rng, nested=False):
    names = []
    g = {'GNUM': 42, 'GSTR': 'glob', 'GLIST': [7, 8, 9], 'GOBJ': {'obj': {'name': 'gob'}}}
    loc = [['a', 5], ['s', 'text'], ['lst', [3, 1, 2]], ['d', {'k': 'v', 'n': 7}], ['o', {'obj': {'name': 'bob', 'age': 3}}],
           ['w', 'a  b\tc']] + [list(x) for x in X.SHADOW_LOCALS]
    g.update(X.SHADOW_GLOBALS)
    # bare names with sentinel values: where is each bound?
    pool = rng.sample(X.AGENT_ONLY_NAMES, rng.randint(2, 5)) + rng.sample(BUILTIN_NAMES, 2) + \
        ['n_%d' % i for i in range(rng.randint(2, 5))]
    for n in pool:
        in_l = rng.random() < 0.3
        in_g = rng.random() < 0.4
        if n in BUILTIN_NAMES and rng.random() < 0.6:
            in_l = in_g = False
        if in_l:
            loc.append([n, 'L:' + n])
        if in_g:
            g[n] = 'G:' + n
        names.append(n)
    params = [loc.pop(0)] if rng.random() < 0.5 else []
    watches = list(names)
    for _ in range(rng.randint(0, 5)):
        watches.append(rng.choice(EXPRS_OK))
    for _ in range(rng.randint(0, 3)):
        watches.append(rng.choice(EXPRS_FAIL))
    rng.shuffle(watches)
    cond = rng.choice([None, None, 'GNUM == 42', 'a > 3 and GSTR == "glob"', 'GNUM < 0', 'a == 6', 'uuid is not None',
                       'nope', 'd[1]', "boom('HostInterrupt', 'true')", 'len(lst) == 3', 'FrameType is not None',
                       'twice(a) == 10', 'GOBJ.name == "gob"'] + WS_CONDS)
    case = {'kind': 'scope', 'via': rng.choice(['real', 'real', 'mock']), 'globals': g, 'params': params, 'locals': loc,
            'names': names, 'watches': watches, 'condition': cond,
            'frame_type': rng.choice([None, 'no_frame', 'all_frame'])}
    if rng.random() < 0.6:
        fields = [rng.choice(EXPRS_OK + EXPRS_FAIL[:6] + names + WS_FIELDS) for _ in range(rng.randint(1, 3))]
        fields = [f for f in fields if field_ok(f)] or ['a']
        case['log_fields'] = fields
    if rng.random() < 0.6:
        case['metric'] = {'expr': rng.choice(X.SHADOW_VALUE_EXPRS + ["len('a  b\tc')", "w.count('  ') + 2", "float(' 2.5\t')", 'a', 'GNUM', 'GNUM + a', 'len(lst)', 'nope', 'uuid', 'GSTR', 'time_ns()',
                                              "boom('HostInterrupt', 'x')", "boom('SystemExit', 2)", 'a / 0']),
                          'labels': [[k, rng.choice(X.SHADOW_TEXT_EXPRS + ["'x  y'", 'w', "w.replace('  ', '_')", 'GSTR', 's', 'nope', 'uuid', 'o.name', 'FrameType', 'n_0', 'a / 0',
                                                     "boom('KeyboardInterrupt', 'k')", "boom('GeneratorExit', 'g')"])]
                                     for k in rng.sample(['l1', 'l2', 'l3'], rng.randint(0, 3))]}
    if nested:
        # the same kinds of expression, now using frame locals inside a lambda / generator expression: as a watch, as
        # the condition, as a log field, as metric value and label; and sentinel names read through a lambda
        case['stream'] = 'nested'
        have = {k for k, _ in params + loc}
        pick = [e for e in NESTED_EXPRS if set(X.nested_local_uses(e, have))]
        case['nested_names'] = [n for n in names if rng.random() < 0.6]
        case['watches'] += ['(lambda: %s)()' % n for n in case['nested_names']]
        case['watches'] += rng.sample(pick, min(len(pick), rng.randint(1, 3)))
        slot = rng.random()
        if slot < 0.3 and 'a' in have and 'lst' in have:
            case['condition'] = rng.choice(['any(x < a for x in lst)', '(lambda: a > 3)()'])
        elif slot < 0.6:
            fpick = [e for e in pick if e in NESTED_FIELDS]
            if fpick:
                case['log_fields'] = (case.get('log_fields') or []) + [rng.choice(fpick)]
        elif slot < 0.9 and 'a' in have and 'lst' in have:
            case['metric'] = {'expr': 'sum(v * a for v in lst)', 'labels': [['l1', 'max(x + a for x in lst)'], ['l2', 'GSTR']]}
    elif rng.random() < 0.15 and case['via'] == 'mock':
        # the action's variable budget is tiny: the frame and the earlier watches use it up
        case['limits'] = {'MAX_VARIABLES': rng.choice([0, 1, 2, 3, 5])}
    return case


def gen_multi(rng):
    """2-3 tracepoints on ONE line, each with its own condition function, limits and action kind"""
    n = rng.choice([2, 2, 3])
    tps = []
    for i in range(n):
        cfg = {}
        fc, fp = rng.choice([None, '-1', '1', '2']), rng.choice([None, '0', '1000'])
        if fc is not None:
            cfg['fire_count'] = fc
        if fp is not None:
            cfg['fire_period'] = fp
        tps.append({'action': rng.choice(KINDS), 'cfg': cfg,
                    'condition': rng.choice(['c%d()' % i] * 5 + [None, '', ' c%d() ' % i])})
    hits, ts = [], rng.randint(1, 10 ** 6)
    for _ in range(rng.randint(1, 8)):
        ts += rng.choice([1, 999_999, 1_000_000, 1_000_000_000, 1_000_000_001])
        conds = []
        for i in range(n):
            c = rng.random()
            if c < 0.45:
                conds.append({'k': 'true'})
            elif c < 0.75:
                conds.append({'k': 'false'})
            else:
                conds.append({'k': 'raise', 'cls': rng.choice(sorted(X.EXC_CLASSES)), 'msg': rng.choice(MSGS)})
        hits.append({'ts': ts, 'conds': conds})
    return {'kind': 'multi', 'install': rng.choice(['merged', 'separate']), 'tps': tps, 'hits': hits}


SCHEDULES = sorted(set(itertools.permutations([0, 0, 1, 1])))
CONC_FIELDS = ['a', 's', 'GSTR', 'GNUM + a', 'lst[0]', 'd["k"]', 'o.name', 'twice(a)', 'len(s)', 'nope', 'a / 0', 'uuid',
               'GOBJ.name', 'who']


# expressions that park the thread PART-WAY through their own evaluation: `pause()` runs first, the names after it are
# looked up when the thread is released again (by then the other thread has evaluated expressions of its own frame)
CONC_INNER = ['(pause(), a)[1]', 'pause() and s', '[pause(), GSTR][1]', 'pause() and who', '(pause(), GNUM + a)[1]',
              'pause() and o.name', '(pause(), len(s), who)[2]', 'pause() and twice(a)', 'pause() and nope',
              '(pause(), GOBJ.name)[1]']
# conditions of the same kind: boolean in each frame, true in one thread's frame and false in the other's (or the same in
# both), or failing
CONC_CONDS = ['pause() and a < 10', 'pause() and a > 10', "pause() and who == 'T0'", "pause() and who == 'T1'",
              'pause() and GNUM == 42', 'pause() and GNUM != 42', "(pause(), s == 'text1')[1]", 'pause() and a / 0 > 1',
              'pause() and a > 0', 'pause() and nope', "pause() and GSTR.endswith('0')"]


def gen_conc(rng, k):
    """two threads at one log tracepoint, each in its own frame (own locals, own module globals); each is parked
    inside a `pause()` field of the message while the other runs — or (stream `inner`) in the middle of the evaluation
    of ONE expression: a field / LOG watch, or the tracepoint's condition"""
    fields = [rng.choice(CONC_FIELDS) for _ in range(rng.randint(1, 4))]
    case = {'kind': 'conc', 'mode': rng.choice(['log', 'snap']), 'fields': fields,
            'sched': list(SCHEDULES[k % len(SCHEDULES)])}
    if (k // 6) % 2 == 0:
        fields.insert(rng.randint(0, len(fields) - 1), 'pause()')
        return case
    case['stream'] = 'inner'
    r = rng.random()
    if r < 0.6:
        case['condition'] = rng.choice(CONC_CONDS)
    if r > 0.4:
        for _ in range(rng.randint(1, 2)):
            fields.insert(rng.randint(0, len(fields)), rng.choice(CONC_INNER))
    return case


def gen_threads(rng):
    """a history whose hits arrive strictly one after the other on 2-3 persistent host threads (all alive for the whole
    history), finite fire_count: a hit rejected by its condition on one thread must not cost a later true hit on
    another thread its place in the budget"""
    case = gen_history(rng)
    case['stream'] = 'threads'
    case['cfg']['fire_count'] = rng.choice(['1', '1', '2', '3'])
    if rng.random() < 0.7:
        case['cfg']['fire_period'] = '0'
    if blank(case['condition']):
        case['condition'] = 'cond()'
    n = rng.choice([2, 2, 3])
    hits = case['hits'][:rng.randint(2, 10)]
    if len(hits) < 2:
        hits = hits + [{'ts': hits[-1]['ts'] + 5 * 10 ** 9, 'cond': {'k': 'true'}}]
    # start with a rejected hit on one thread, then a true one on another (the rest is random)
    if rng.random() < 0.6:
        hits[0] = dict(hits[0], cond=rng.choice([{'k': 'false'}, {'k': 'raise', 'cls': 'ValueError', 'msg': 'x'},
                                                 {'k': 'raise', 'cls': 'HostInterrupt', 'msg': 'true'}]))
        hits[1] = dict(hits[1], cond={'k': 'true'})
    last = None
    out = []
    for h in hits:
        t = rng.randrange(n)
        if last is not None and rng.random() < 0.6:
            t = (last + 1 + rng.randrange(n - 1)) % n
        last = t
        out.append(dict(h, thread=t))
    case['hits'] = out
    return case


def scale_case(action, fire_count, run_kind, n, tail, rng=None):
    """a long run of rejected hits (failing / false / mixed conditions), then `tail` more hits"""
    fails = [{'k': 'raise', 'cls': 'RuntimeError', 'msg': 'condition is broken'}, {'k': 'raise', 'cls': 'ValueError', 'msg': 'true'},
             {'k': 'raise', 'cls': 'HostInterrupt', 'msg': 'y'}, {'k': 'raise', 'cls': 'KeyError', 'msg': 1}]
    hits, ts = [], 1000
    for i in range(n):
        if run_kind == 'fail':
            cond = fails[0] if rng is None else fails[(i // 97) % len(fails)]
        elif run_kind == 'false':
            cond = {'k': 'false'}
        else:
            cond = {'k': 'false'} if i % 7 == 3 else fails[i % len(fails)]
        hits.append({'ts': ts, 'cond': cond})
        ts += 1_000_000
    for c in tail:
        hits.append({'ts': ts, 'cond': c})
        ts += 1_000_000
    return {'kind': 'history', 'stream': 'scale', 'action': action, 'cfg': {'fire_count': fire_count, 'fire_period': '0'},
            'condition': 'cond()', 'hits': hits}


def gen_scale(rng):
    """SCALE: 1000-2500 consecutive hits rejected by the condition (failing to evaluate / false / mixed) on a cheap
    action, then true hits: a rejected hit uses up none of the budget, however many there were"""
    t, f = {'k': 'true'}, {'k': 'false'}
    tail = rng.choice([[t], [t, t], [t, f, t], [{'k': 'raise', 'cls': 'ValueError', 'msg': 'x'}, t, t]])
    return scale_case(rng.choice(['log', 'metric', 'log', 'log+metric']), rng.choice(['1', '2', '-1', '3']),
                      rng.choice(['fail', 'fail', 'false', 'mixed']), rng.choice([1000, 1001, 1024, rng.randint(1000, 2500)]),
                      tail, rng)


def gen(rng, tier):
    k = 0
    while True:
        k += 1
        if k % 500 == 100:
            yield gen_scale(rng)
        elif k % 17 == 0:
            yield gen_threads(rng)
        elif k % 13 == 0:
            yield gen_conc(rng, k // 13)
        elif k % 20 == 0:
            yield gen_scope(rng, nested=True)
        elif k % 7 == 0:
            yield gen_multi(rng)
        elif k % 4 == 0:
            yield gen_scope(rng)
        elif k % 9 == 0:
            yield gen_history(rng, nonbool=True)
        else:
            yield gen_history(rng)


def corpus():
    t, f = {'k': 'true'}, {'k': 'false'}
    return [
        # the probe notes/probes/c10_truthy_error_text.py: a failing condition whose error text is a truthy word
        {'kind': 'scope', 'via': 'mock', 'globals': {}, 'params': [], 'locals': [['cache', {}]], 'names': [],
         'watches': [], 'condition': 'cache[1]', 'frame_type': 'no_frame'},
        {'kind': 'history', 'stream': 'bool', 'action': 'snapshot', 'cfg': {'fire_count': '1'}, 'condition': 'cond()',
         'hits': [{'ts': 10, 'cond': {'k': 'raise', 'cls': 'KeyError', 'msg': 1}},
                  {'ts': 20, 'cond': {'k': 'raise', 'cls': 'HostInterrupt', 'msg': 'true'}},
                  {'ts': 30, 'cond': f}, {'ts': 40, 'cond': t}, {'ts': 9 * 10 ** 9, 'cond': t}]},
        {'kind': 'history', 'stream': 'bool', 'action': 'log', 'cfg': {'fire_count': '2', 'fire_period': '1'},
         'condition': 'cond()',
         'hits': [{'ts': 5, 'cond': f}, {'ts': 6, 'cond': t}, {'ts': 7, 'cond': t}, {'ts': 1000006, 'cond': f},
                  {'ts': 1000007, 'cond': t}, {'ts': 5000000, 'cond': t}]},
        {'kind': 'history', 'stream': 'bool', 'action': 'metric', 'cfg': {'fire_count': '-1', 'fire_period': '0'},
         'condition': '  ', 'hits': [{'ts': 5, 'cond': f}, {'ts': 6, 'cond': {'k': 'raise', 'cls': 'ValueError', 'msg': 'x'}}]},
        {'kind': 'scope', 'via': 'real', 'globals': {'G': 'G:G', 'uuid': 'G:uuid'}, 'params': [['p', 1]],
         'locals': [['x', 'L:x'], ['G2', 'L:G2']], 'names': ['G', 'uuid', 'FrameType', 'time_ns', 'x', 'len'],
         'watches': ['G', 'uuid', 'FrameType', 'time_ns', 'x', 'len', 'p', 'p + 1', 'nope'],
         'condition': 'G == "G:G"', 'frame_type': None, 'log_fields': ['G', 'FrameType'],
         'metric': {'expr': 'p', 'labels': [['l1', 'G'], ['l2', 'uuid'], ['l3', 'time_ns']]}},
        # a metric value / label expression raising a BaseException that is not an Exception is contained like any other
        {'kind': 'scope', 'via': 'mock', 'globals': {}, 'params': [], 'locals': [['a', 5]], 'names': [], 'watches': ['a'],
         'condition': None, 'frame_type': 'no_frame',
         'metric': {'expr': "boom('SystemExit', 2)", 'labels': [['l1', "boom('KeyboardInterrupt', 'k')"], ['l2', 'a']]}},
        # a span tracepoint (and a method-entry one) is gated by its condition like any other action
        {'kind': 'history', 'stream': 'bool', 'action': 'span', 'cfg': {'fire_count': '-1', 'fire_period': '0'},
         'condition': 'cond()', 'hits': [{'ts': 10, 'cond': f}, {'ts': 20, 'cond': {'k': 'raise', 'cls': 'ValueError', 'msg': 'true'}},
                                         {'ts': 30, 'cond': t}]},
        {'kind': 'history', 'stream': 'bool', 'action': 'snapshot+metric+span', 'entry': True, 'cfg': {'fire_count': '1'},
         'condition': 'cond()', 'hits': [{'ts': 10, 'cond': f}, {'ts': 20, 'cond': t}, {'ts': 9 * 10 ** 9, 'cond': t}]},
        # two threads expanding a log message at once: every field is evaluated in the frame of its own hit
        {'kind': 'conc', 'mode': 'log', 'fields': ['pause()', 'a', 'GSTR', 'who'], 'sched': [0, 1, 1, 0]},
        {'kind': 'conc', 'mode': 'snap', 'fields': ['who', 'pause()', 's', 'GNUM + a'], 'sched': [0, 1, 0, 1]},
        # scale: 1001 consecutive hits whose condition fails to evaluate, then a true hit: it still fires
        scale_case('log', '1', 'fail', 1001, [t, t]),
        # rejected hits on one live thread, then a true hit on another: the budget is still there
        {'kind': 'history', 'stream': 'threads', 'action': 'snapshot', 'cfg': {'fire_count': '1', 'fire_period': '0'},
         'condition': 'cond()', 'hits': [{'ts': 10, 'cond': f, 'thread': 0},
                                         {'ts': 20, 'cond': {'k': 'raise', 'cls': 'HostInterrupt', 'msg': 'true'}, 'thread': 1},
                                         {'ts': 30, 'cond': t, 'thread': 2}, {'ts': 40, 'cond': t, 'thread': 0}]},
        # parked in the MIDDLE of one expression (condition / field) while the other thread's hit is processed
        {'kind': 'conc', 'stream': 'inner', 'mode': 'snap', 'fields': ['who'], 'condition': 'pause() and a > 10',
         'sched': [0, 1, 1, 0]},
        {'kind': 'conc', 'stream': 'inner', 'mode': 'log', 'fields': ['(pause(), a)[1]', 'who'], 'sched': [0, 1, 1, 0]},
        {'kind': 'conc', 'stream': 'inner', 'mode': 'snap', 'fields': ['s', 'pause() and who'],
         'condition': "pause() and who == 'T0'", 'sched': [1, 0, 0, 1]},
        # two tracepoints on one line with different conditions: each is judged on its own condition
        {'kind': 'multi', 'install': 'merged',
         'tps': [{'action': 'snapshot', 'cfg': {'fire_count': '-1', 'fire_period': '0'}, 'condition': 'c0()'},
                 {'action': 'snapshot', 'cfg': {'fire_count': '-1', 'fire_period': '0'}, 'condition': 'c1()'}],
         'hits': [{'ts': 10, 'conds': [t, f]}, {'ts': 20, 'conds': [f, t]},
                  {'ts': 30, 'conds': [{'k': 'raise', 'cls': 'KeyError', 'msg': 1}, t]}]},
        {'kind': 'multi', 'install': 'separate',
         'tps': [{'action': 'log', 'cfg': {'fire_count': '1'}, 'condition': 'c0()'},
                 {'action': 'metric', 'cfg': {'fire_count': '-1', 'fire_period': '0'}, 'condition': 'c1()'},
                 {'action': 'snapshot', 'cfg': {}, 'condition': None}],
         'hits': [{'ts': 10, 'conds': [f, t, f]}, {'ts': 20, 'conds': [t, f, f]}, {'ts': 9 * 10 ** 9, 'conds': [t, t, t]}]},
    ]


# --------------------------------------------------------------------------------------- implementation
def make_exc(cond):
    return X.EXC_CLASSES[cond['cls']](cond['msg'])


def hit_outcome(cond):
    """what evaluating the scripted condition gives, as the model's oracle answer"""
    k = cond['k']
    if k == 'true':
        return X.describe(True)
    if k == 'false':
        return X.describe(False)
    if k == 'raise':
        return X.describe(make_exc(cond), failed=True)
    return X.describe(X.build_value(cond['v']))


def kinds_of(action):
    return action.split('+')


def tp_args(action, cfg, condition, entry=False, idx=''):
    """tracepoint args + metric list for a tracepoint carrying the given action kinds"""
    from deep.api.tracepoint.tracepoint_config import MetricDefinition
    kinds = kinds_of(action)
    args = {}
    if condition is not None:
        args['condition'] = condition
    for k in ('fire_count', 'fire_period'):
        if k in cfg:
            args[k] = cfg[k]
    if 'snapshot' in kinds:
        args['frame_type'] = 'no_frame'
    else:
        args['snapshot'] = 'no_collect'
    if 'log' in kinds:
        args['log_msg'] = 'hit'
    if 'span' in kinds:
        args['span'] = 'method' if entry else 'line'
    if entry:
        args['method_name'] = 'fn'
    metrics = [MetricDefinition('m%s' % idx, 'COUNTER')] if 'metric' in kinds else []
    return args, metrics


def build_history_trigger(case):
    from deep.api.tracepoint.trigger import build_trigger
    args, metrics = tp_args(case['action'], case['cfg'], case['condition'], case.get('entry', False))
    return build_trigger('tp1', 'host.py', 7, args, [], metrics)


def flush_callbacks(rig, loc):
    """give pending span callbacks the following events of the function (next line, return)"""
    rig.handler.trace_call(MockFrame('/app/host.py', 'fn', 8, loc), 'line', None)
    rig.handler.trace_call(MockFrame('/app/host.py', 'fn', 8, loc), 'return', None)


def effect_counts(rig):
    return {'snapshot': len(rig.push.pushed), 'log': len(rig.logger.logged), 'metric': len(rig.metric.calls),
            'span': len([e for e in rig.span.events if e[0] == 'open']) if rig.span else 0}


class Worker:
    """a persistent host thread: runs the calls handed to it one at a time, the caller waits for each to finish
    (strictly sequential hits, on different LIVE threads)"""

    def __init__(self):
        import queue
        self.q, self.done = queue.Queue(), queue.Queue()
        self.thread = threading.Thread(target=self.loop, daemon=True)
        self.thread.start()

    def loop(self):
        while True:
            fn = self.q.get()
            if fn is None:
                return
            try:
                fn()
                self.done.put(None)
            except BaseException as e:  # noqa: B902
                self.done.put(e)

    def call(self, fn):
        import queue
        self.q.put(fn)
        try:
            e = self.done.get(timeout=30)
        except queue.Empty:
            raise core.Infra('worker thread did not finish a hit in 30 s')
        if e is not None:
            raise e

    def close(self):
        self.q.put(None)
        self.thread.join(10)


def run_history(case):
    rig = Rig(metric=True, span=case.get('span_proc', True))
    workers = {}
    try:
        rig.install([build_history_trigger(case)])
        state = {'cond': None, 'calls': 0}

        def cond():
            state['calls'] += 1
            c = state['cond']
            if c['k'] == 'raise':
                raise make_exc(c)
            if c['k'] == 'value':
                return X.build_value(c['v'])
            return c['k'] == 'true'
        kinds = kinds_of(case['action'])
        fired, evals, by_kind = [], [], {k: [] for k in kinds}
        event = 'call' if case.get('entry') else 'line'
        for h in case['hits']:
            state['cond'] = h['cond']
            state['calls'] = 0
            rig.clock = h['ts']
            before = effect_counts(rig)
            loc = {'cond': cond, 'x': 1}
            try:
                def one_hit():
                    rig.handler.trace_call(MockFrame('/app/host.py', 'fn', 7, loc), event, None)
                    state['n_calls'] = state['calls']
                    flush_callbacks(rig, loc)
                if h.get('thread') is None:
                    one_hit()
                else:
                    # the hit happens on one of the host's persistent threads (all alive during the whole history)
                    if h['thread'] not in workers:
                        workers[h['thread']] = Worker()
                    workers[h['thread']].call(one_hit)
                n_calls = state['n_calls']
            except core.Infra:
                raise
            except BaseException as e:  # noqa: B902 — the agent must not raise; report it
                return {'raised': f'{type(e).__name__}: {e}', 'fired': fired, 'evals': evals, 'by_kind': by_kind}
            after = effect_counts(rig)
            for k in by_kind:
                by_kind[k].append(after[k] - before[k])
            stray = {k: after[k] - before[k] for k in after if k not in by_kind and after[k] != before[k]}
            if stray:
                by_kind.setdefault('stray', []).append(stray)
            fired.append(any(after[k] > before[k] for k in after))
            evals.append(n_calls)
        return {'fired': fired, 'evals': evals, 'by_kind': by_kind}
    finally:
        for w in workers.values():
            w.close()
        rig.close()


def run_multi(case):
    from deep.api.tracepoint.trigger import build_trigger
    rig = Rig(metric=True, span=True)
    try:
        trigs = []
        for i, tp in enumerate(case['tps']):
            args, metrics = tp_args(tp['action'], tp['cfg'], tp['condition'], False, i)
            trigs.append(build_trigger('tp%d' % i, 'host.py', 7, args, [], metrics))
        if case['install'] == 'merged':       # what grpc.convert_response does with tracepoints of one location
            for t in trigs[1:]:
                trigs[0].merge_actions(t.actions)
            trigs = trigs[:1]
        rig.install(trigs)
        n = len(case['tps'])
        state = {'conds': None, 'calls': [0] * n}

        def mk(i):
            def c():
                state['calls'][i] += 1
                cd = state['conds'][i]
                if cd['k'] == 'raise':
                    raise make_exc(cd)
                return cd['k'] == 'true'
            return c
        loc = {'c%d' % i: mk(i) for i in range(n)}
        fired, evals = [[] for _ in range(n)], [[] for _ in range(n)]
        for h in case['hits']:
            state['conds'] = h['conds']
            state['calls'] = [0] * n
            rig.clock = h['ts']
            b = (len(rig.push.pushed), len(rig.logger.logged), len(rig.metric.calls), len(rig.span.events))
            try:
                rig.handler.trace_call(MockFrame('/app/host.py', 'fn', 7, dict(loc)), 'line', None)
                calls = list(state['calls'])
                flush_callbacks(rig, dict(loc))
            except BaseException as e:  # noqa: B902
                return {'raised': f'{type(e).__name__}: {e}', 'fired': fired, 'evals': evals}
            who = [s.tracepoint.id for s in rig.push.pushed[b[0]:]] + [l[1] for l in rig.logger.logged[b[1]:]] + \
                  ['tp' + c[1][1:] for c in rig.metric.calls[b[2]:]] + \
                  [e[3] for e in rig.span.events[b[3]:] if e[0] == 'open']
            for i in range(n):
                fired[i].append(who.count('tp%d' % i))
                evals[i].append(calls[i])
        return {'fired': fired, 'evals': evals}
    finally:
        rig.close()


def conc_env(i):
    """(globals spec, locals spec) of thread i: same names, different values"""
    g = {'GNUM': 42 + 100 * i, 'GSTR': 'glob%d' % i, 'GOBJ': {'obj': {'name': 'gob%d' % i}}}
    loc = [['a', 5 + 10 * i], ['s', 'text%d' % i], ['lst', [3 + i, 1, 2]], ['d', {'k': 'v%d' % i}],
           ['o', {'obj': {'name': 'bob%d' % i}}], ['who', 'T%d' % i]]
    return g, loc


class Parked:
    """one hit on its own thread; the `pause()` field parks it until the driver releases it"""

    def __init__(self, idx, run):
        self.idx, self.run = idx, run
        self.arrived = threading.Semaphore(0)
        self.release = threading.Event()
        self.parked = self.finished = False
        self.error = None
        self.thread = None
        self.pauses = 0

    def pause(self):
        # EVERY pause() of a hit parks: the release event is cleared again once the thread has been woken, so the next
        # pause() waits for the driver's next advance() (one arrival is signalled per pause)
        self.pauses += 1
        self.parked = True
        self.arrived.release()
        if not self.release.wait(30):
            raise TimeoutError('pause not released')
        self.release.clear()
        self.parked = False
        return 'p%d' % self.idx

    def body(self):
        try:
            self.run(self)
        except BaseException as e:  # noqa: B902
            self.error = f'{type(e).__name__}: {e}'
        finally:
            self.finished = True
            self.arrived.release()

    def advance(self):
        if self.finished:
            return
        if self.thread is None:
            self.thread = threading.Thread(target=self.body, daemon=True)
            self.thread.start()
        elif self.parked:
            self.release.set()
        else:
            return
        if not self.arrived.acquire(timeout=30):
            raise core.Infra('schedule driver: thread did not reach its pause / finish in 30 s')


def run_conc(case):
    from deep.api.tracepoint.trigger import build_trigger
    from rig import RecLogger

    class ThreadLogger(RecLogger):
        def __init__(self):
            super().__init__()
            self.who = []

        def log_tracepoint(self, log_msg, tp_id, ctx_id):
            self.who.append(threading.current_thread())
            super().log_tracepoint(log_msg, tp_id, ctx_id)
    logger = ThreadLogger()
    rig = Rig(logger=False, plugins=[logger])
    try:
        args = {'log_msg': log_template(case['fields']), 'fire_count': '-1', 'fire_period': '0'}
        if case.get('condition') is not None:
            args['condition'] = case['condition']
        if case['mode'] == 'log':
            args['snapshot'] = 'no_collect'
        else:
            args['frame_type'] = 'no_frame'
        rig.install([build_trigger('tp1', 'host.py', 7, args, [], [])])
        owners, orig_push = [], rig.push.push_snapshot

        def push(snap):
            owners.append(threading.current_thread())
            orig_push(snap)
        rig.push.push_snapshot = push
        mods = [X.make_module(X.unique('verif_host_c10t'), conc_env(i)[0]) for i in range(2)]

        def run(t):
            loc = {k: X.build_value(v) for k, v in conc_env(t.idx)[1]}
            loc['pause'] = t.pause
            rig.handler.trace_call(MockFrame('/app/host.py', 'fn', 7, loc, f_globals=mods[t.idx].__dict__), 'line', None)
        thrs = [Parked(i, run) for i in range(2)]
        for i in case['sched']:
            thrs[i].advance()
        for t in thrs:
            t.advance()
            while not t.finished:
                t.advance()
            t.thread.join(30)
        out = []
        for t in thrs:
            ent = {'messages': [c[0] for c, w in zip(logger.logged, logger.who) if w is t.thread], 'pauses': t.pauses}
            if t.error:
                ent['raised'] = t.error
            snaps = [sn for sn, w in zip(rig.push.pushed, owners) if w is t.thread]
            ent['snapshots'] = len(snaps)
            if snaps:
                ent['log'] = snaps[0].log_msg
                ent['watches'] = X.watch_dump(snaps[0])
            out.append(ent)
        return {'threads': out}
    finally:
        rig.close()


def conc_reference(case, i):
    g, loc = conc_env(i)
    mod = X.make_module('verif_ref_c10t', g)
    env_l = {k: X.build_value(v) for k, v in loc}
    env_l['pause'] = lambda: 'p%d' % i
    return mod.__dict__, env_l


def multi_as_histories(case):
    """each tracepoint of a multi case seen alone"""
    return [{'kind': 'history', 'stream': 'bool', 'action': tp['action'], 'cfg': tp['cfg'], 'condition': tp['condition'],
             'hits': [{'ts': h['ts'], 'cond': h['conds'][i]} for h in case['hits']]}
            for i, tp in enumerate(case['tps'])]


def scope_env(case):
    """(module, function or None, line, param values) — built fresh for every run"""
    name = X.unique('verif_host_c10')
    mod = X.make_module(name, case['globals'])
    fn, line = X.host_function(mod, 'host', [p[0] for p in case['params']], case['locals'], '/app/%s.py' % name)
    return name, mod, fn, line


def expected_locals(case):
    d = {}
    for k, v in case['params'] + case['locals']:
        d[k] = X.build_value(v)
    return d


def log_template(fields):
    return ' | '.join('%d={%s}' % (i, f) for i, f in enumerate(fields))


def run_scope(case):
    from deep.api.tracepoint.trigger import build_trigger
    from deep.api.tracepoint.tracepoint_config import MetricDefinition, LabelExpression
    rig = Rig(metric=True)
    try:
        name, mod, fn, line = scope_env(case)
        args = {}
        if case.get('condition') is not None:
            args['condition'] = case['condition']
        if case.get('frame_type'):
            args['frame_type'] = case['frame_type']
        if case.get('log_fields'):
            args['log_msg'] = log_template(case['log_fields'])
        metrics = []
        if case.get('metric'):
            m = case['metric']
            metrics = [MetricDefinition('m', 'GAUGE', [LabelExpression(k, None, e) for k, e in m['labels']], m['expr'])]
        trig = build_trigger('tp1', name + '.py', line, args, list(case['watches']), metrics)
        if case.get('limits'):
            from deep.api.tracepoint.trigger import LocationAction, Trigger, LineLocation, Location
            acts = []
            for a in trig.actions:
                cfg = dict(a.config)
                if a.action_type == LocationAction.ActionType.Snapshot:
                    cfg.update(case['limits'])
                acts.append(LocationAction(a.id, a.condition, cfg, a.action_type))
            trig = Trigger(LineLocation(name + '.py', line, Location.Position.START), acts)
        rig.install([trig])
        obs = {}
        if case['via'] == 'real':
            res = run_traced(rig.handler, fn, *[X.build_value(p[1]) for p in case['params']])
            if 'exc' in res:
                obs['raised'] = f'{type(res["exc"]).__name__}: {res["exc"]}'
            obs['host_ret'] = res.get('ret')
            obs['trace_kept'] = res.get('trace_after') is not None
        else:
            frame = MockFrame('/app/%s.py' % name, 'host', line, expected_locals(case), f_globals=mod.__dict__)
            try:
                rig.handler.trace_call(frame, 'line', None)
            except BaseException as e:  # noqa: B902
                obs['raised'] = f'{type(e).__name__}: {e}'
        obs['snapshots'] = len(rig.push.pushed)
        obs['watches'] = X.watch_dump(rig.push.pushed[0]) if rig.push.pushed else []
        obs['log'] = rig.push.pushed[0].log_msg if rig.push.pushed else None
        obs['logged'] = [l[0] for l in rig.logger.logged]
        obs['metric_calls'] = [[c[0], c[1], sorted(c[2].items()), repr(float(c[6])) if isinstance(c[6], (int, float)) else repr(c[6])]
                               for c in rig.metric.calls]
        return obs
    finally:
        rig.close()


def run_impl(case):
    if case['kind'] == 'conc':
        return run_conc(case)
    if case['kind'] == 'multi':
        return run_multi(case)
    return run_history(case) if case['kind'] == 'history' else run_scope(case)


# --------------------------------------------------------------------------------------- judging
DOCUMENTED_TRUE = ('yes', 'true', 't', '1', 'y')     # utils.str2bool's documented words, case-insensitive


def cond_truth(cond):
    """does the scripted condition evaluate to true?  A boolean-valued condition: is it True.  Other values
    (second stream): the documented rule — the text of the value is one of the truthy words; a failing condition
    and an exception object are never true."""
    if cond['k'] in ('true', 'false', 'raise'):
        return cond['k'] == 'true'
    v = X.build_value(cond['v'])
    return not isinstance(v, BaseException) and str(v).lower() in DOCUMENTED_TRUE


def reference_history(case):
    """from the statement: a hit collects iff the limits allow it and the condition is absent / blank or evaluates
    to True; only collections use budget; the condition is evaluated only when the limits allow the hit."""
    cnt = ref_int(case['cfg'].get('fire_count'), 1)
    per = ref_int(case['cfg'].get('fire_period'), 1000)
    made, last = 0, None
    fired, evals = [], []
    for h in case['hits']:
        ok = (cnt == -1 or made < cnt) and (last is None or h['ts'] - last >= per * 1_000_000)
        if blank(case['condition']):
            truth, n = True, 0
        else:
            truth, n = cond_truth(h['cond']), (1 if ok else 0)
        f = ok and truth
        if f:
            made += 1
            last = h['ts']
        fired.append(f)
        evals.append(n)
    return fired, evals


def scope_reference(case):
    mod = X.make_module('verif_ref_c10', case['globals'])
    return mod.__dict__, expected_locals(case)


def oracle(case, obs):
    v = []
    if 'raised' in obs:
        return ['the agent raised into the host: ' + obs['raised']]
    if case['kind'] == 'conc':
        for i, t in enumerate(obs['threads']):
            if 'raised' in t:
                return [f'thread {i}: the agent raised into the host: {t["raised"]}']
            g, loc = conc_reference(case, i)
            outs = [X.outcome(f, g, loc) for f in case['fields']]
            exp = '[deep] ' + ' | '.join('%d=%s' % (j, o['text']) for j, o in enumerate(outs))
            if case.get('condition') is not None:
                cv, cfailed = X.at_line(case['condition'], g, loc)
                if cfailed or cv is not True:
                    # the condition is false (or fails) in the frame of THIS hit: nothing may be produced for it
                    if t['messages'] or t['snapshots']:
                        v.append(f'thread {i}: condition {case["condition"]!r} is '
                                 f'{"failing" if cfailed else "false"} in the frame of its own hit, but the hit produced '
                                 f'{t["messages"]!r} and {t["snapshots"]} snapshot(s)')
                    continue
            if t['messages'] != [exp]:
                v.append(f'thread {i}: message {t["messages"]!r}; its fields evaluated in the frame of its own hit give '
                         f'{exp!r}')
            if case['mode'] == 'snap':
                ws = [w for w in t.get('watches', []) if w['source'] == 'LOG']
                if t['snapshots'] != 1 or t.get('log') != exp:
                    v.append(f'thread {i}: {t["snapshots"]} snapshot(s) with log message {t.get("log")!r}, expected {exp!r}')
                elif [(w['expr'], w['type'], w['value']) for w in ws] != \
                        [(f, o['ty'], o['text']) for f, o in zip(case['fields'], outs)]:
                    v.append(f'thread {i}: LOG watches {[(w["expr"], w["value"]) for w in ws]!r} are not the fields of its '
                             f'own message evaluated in its own frame')
        return v[:4]
    if case['kind'] == 'multi':
        for i, hc in enumerate(multi_as_histories(case)):
            fired, evals = reference_history(hc)
            got = [x == 1 for x in obs['fired'][i]]
            if any(x > 1 for x in obs['fired'][i]):
                v.append(f'tracepoint tp{i}: more than one collection at one hit: {obs["fired"][i]}')
            elif got != fired:
                j = next(j for j, (a, b) in enumerate(zip(got, fired)) if a != b)
                v.append(f'tracepoint tp{i} (condition {hc["condition"]!r}) hit {j}: its condition is '
                         f'{hc["hits"][j]["cond"]} but it ' + ('collected' if got[j] else 'did not collect') +
                         f' (the other tracepoints of the line: {[c for k, c in enumerate(case["hits"][j]["conds"]) if k != i]})')
            if obs['evals'][i] != evals:
                j = next(j for j, (a, b) in enumerate(zip(obs['evals'][i], evals)) if a != b)
                v.append(f'tracepoint tp{i} hit {j}: condition evaluated {obs["evals"][i][j]} times, expected {evals[j]}')
        return v[:4]
    if case['kind'] == 'history':
        fired, evals = reference_history(case)
        total = [0] * len(case['hits'])
        for k in kinds_of(case['action']):
            kf, ke = fired, evals
            if k == 'span' and not case.get('span_proc', True):
                kf, ke = [False] * len(fired), [0] * len(fired)       # no processor: the action is skipped altogether
            got = [x == 1 for x in obs['by_kind'][k]]
            if any(x > 1 for x in obs['by_kind'][k]):
                v.append(f'{k} action: more than one effect at one hit: {obs["by_kind"][k]}')
            elif got != kf:
                i = next(i for i, (a, b) in enumerate(zip(got, kf)) if a != b)
                h = case['hits'][i]
                v.append(f'{k} action, hit {i} (ts={h["ts"]}, condition {h["cond"]}) ' +
                         ('fired although its condition did not evaluate to true or its limits forbid it'
                          if got[i] else 'did not fire although limits and condition permit it '
                          '(budget used by an earlier rejected hit?)'))
            total = [a + b for a, b in zip(total, ke)]
        if obs['by_kind'].get('stray'):
            v.append(f'effects of action kinds the tracepoint does not have: {obs["by_kind"]["stray"]}')
        if obs['evals'] != total:
            i = next(i for i, (a, b) in enumerate(zip(obs['evals'], total)) if a != b)
            v.append(f'hit {i}: condition evaluated {obs["evals"][i]} times, expected {total[i]} (once per action whose '
                     f'limits allow the hit; limits are checked first)')
        return v
    g, loc = scope_reference(case)
    have = set(loc)

    def nested(e):
        return bool(e) and bool(X.nested_local_uses(e, have))

    def tag(fid, msg):
        return 'KF[%s] %s' % (fid, msg)
    cond = case.get('condition')
    should = True
    if cond is not None and cond.strip():
        o = X.outcome(cond, g, loc)
        should = (not o['failed']) and o['val'] == {'k': 'bool', 'v': True}
    if case['via'] == 'real' and (obs.get('host_ret') != 0 or not obs.get('trace_kept')):
        v.append(f'host disturbed: returned {obs.get("host_ret")!r}, trace kept {obs.get("trace_kept")}')
    if (obs['snapshots'] == 1) != should:
        msg = f'condition {cond!r}: collected {obs["snapshots"]} snapshot(s), expected {1 if should else 0}'
        v.append(tag(FINDING_NESTED, msg + ' (the condition uses a frame local inside a lambda / generator expression)')
                 if nested(cond) else msg)
        return v
    if not should:
        if obs['logged'] or obs['metric_calls']:
            v.append('rejected hit produced output: %s %s' % (obs['logged'], obs['metric_calls']))
        return v
    # watches then log fields, in order
    exprs = [(e, 'WATCH') for e in case['watches']] + [(e, 'LOG') for e in case.get('log_fields', [])]
    if len(obs['watches']) != len(exprs):
        v.append(f'{len(obs["watches"])} watch results for {len(exprs)} expressions')
        return v
    for (e, src), w in zip(exprs, obs['watches']):
        o = X.outcome(e, g, loc)          # what the expression gives at that line of the program
        if w['expr'] != e or w['source'] != src:
            v.append(f'watch result for {w["expr"]!r}/{w["source"]} where {e!r}/{src} was expected')
            continue
        if case.get('limits') and w['error'] == 'variable limit reached' and w['type'] is None:
            continue                       # the collection bound (C05), reported on the expression it hits
        if w.get('dangling'):
            v.append(f'expression {e!r}: result points to a variable that is not in the snapshot')
            continue
        if o['failed']:
            # the statement: a failing expression yields an ERROR result (error text = its error, no value)
            if w['error'] == o['text'] and w['type'] is None:
                continue
            msg = (f'failing expression {e!r} ({o["ty"]}: {o["text"]!r}) is reported as error={w["error"]!r} '
                   f'value={w["type"]} {w["value"]!r}; expected an error result carrying {o["text"]!r}')
            if w['error'] is None and w['type'] == o['ty'] and w['value'] == o['text']:
                v.append(tag(FINDING_FAILWATCH, msg + ' (the error is there, but as a good result whose variable is '
                                                      'the exception object)'))
            else:
                v.append(msg)
            continue
        bad = None
        if w['error'] is not None:
            bad = f'expression {e!r}: result has error {w["error"]!r}, at that line it is {o["ty"]} {o["text"]!r}'
        elif w['type'] != o['ty']:
            bad = (f'expression {e!r} at that line is {o["ty"]} ({o["text"]!r}) but the agent reports {w["type"]} '
                   f'({w["value"]!r})')
        elif o['ty'] in X.SIMPLE_TYPES and w['value'] != o['text']:
            bad = f'expression {e!r}: value {w["value"]!r}, expected {o["text"]!r}'
        if bad:
            v.append(tag(FINDING_NESTED, bad + ' (it uses a frame local inside a lambda / generator expression)')
                     if nested(e) else bad)
    if case.get('log_fields'):
        exp = '[deep] ' + ' | '.join('%d=%s' % (i, X.outcome(f, g, loc)['text']) for i, f in enumerate(case['log_fields']))
        if obs['logged'] != [exp] or obs['log'] != exp:
            msg = f'log message {obs["logged"]!r} / snapshot {obs["log"]!r}, expected {exp!r}'
            v.append(tag(FINDING_NESTED, msg) if any(nested(f) for f in case['log_fields']) else msg)
    if case.get('metric'):
        m = case['metric']
        val, failed = X.at_line(m['expr'], g, loc)
        try:
            val = 1.0 if failed else float(val)
        except Exception:   # noqa: B902
            val = 1.0
        labels = sorted({k: X.outcome(e, g, loc)['text'] for k, e in m['labels']}.items())
        exp = [['gauge', 'm', labels, repr(val)]]
        if obs['metric_calls'] != exp:
            msg = f'metric calls {obs["metric_calls"]!r}, expected {exp!r}'
            v.append(tag(FINDING_NESTED, msg) if nested(m['expr']) or any(nested(e) for _, e in m['labels']) else msg)
    return v


def known_finding(case, obs):
    """the case is an instance of a recorded finding iff it has the finding's STRUCTURE (a frame local used inside a
    nested scope of an expression / a watch or log field that fails) and every violation the oracle reports on it is of
    that finding's kind — any other violation on the same case stays a violation."""
    if case.get('kind') != 'scope':
        return None
    v = oracle(case, obs)
    ids = []
    for m in v:
        if not m.startswith('KF['):
            return None
        ids.append(m[3:m.index(']')])
    g, loc = scope_reference(case)
    have = set(loc)
    allx = list(case['watches']) + list(case.get('log_fields') or []) + [case.get('condition') or ''] + \
        ([case['metric']['expr']] + [e for _, e in case['metric']['labels']] if case.get('metric') else [])
    struct = set()
    if any(X.nested_local_uses(e, have) for e in allx if e):
        struct.add(FINDING_NESTED)
    if any(X.outcome(e, g, loc)['failed'] for e in list(case['watches']) + list(case.get('log_fields') or [])):
        struct.add(FINDING_FAILWATCH)
    ids = [i for i in ids if i in struct]
    if not ids or len(ids) != len(v):
        return None
    return FINDING_NESTED if FINDING_NESTED in ids else ids[0]


def known_replays():
    return [
        (FINDING_NESTED,
         'a frame local used inside a lambda / generator expression of a watch, condition, log field or metric expression '
         'is a NameError (or the global of the same name) although it is visible at that line',
         {'kind': 'scope', 'stream': 'nested', 'via': 'real', 'globals': {'a': 'G:a'}, 'params': [],
          'locals': [['a', 5], ['lst', [3, 1, 2]], ['s', 'text']], 'names': [], 'nested_names': [],
          'watches': ['(lambda q: q + a)(1)', 'any(x < a for x in lst)', '(lambda: s)()', 'a + 1'],
          'condition': None, 'frame_type': None, 'log_fields': ['sum(v * 2 for v in lst if s)'],
          'metric': {'expr': 'sum(len(s) for _ in lst)', 'labels': [['l1', 'max(x for x in lst if s)']]}}),
        (FINDING_FAILWATCH,
         'a watch that fails to evaluate is reported as a good result whose variable is the exception object '
         '(WatchResult.error empty), not as an error result',
         {'kind': 'scope', 'via': 'mock', 'globals': {}, 'params': [], 'locals': [['a', 5]], 'names': [],
          'watches': ['a + 1', 'nope', 'a / 0'], 'condition': None, 'frame_type': 'no_frame'}),
    ]


def name_bindings(case):
    """for each bare name of the case: where it is bound (independently of the agent)"""
    import deep.processor.context.trigger_context as tc
    loc = {k for k, _ in case['params'] + case['locals']}
    rows = []
    for n in case['names']:
        rows.append({'n': n, 'locals': n in loc, 'globals': n in case['globals'], 'builtins': hasattr(_builtins, n),
                     'agent': hasattr(tc, n)})
    for n in case.get('nested_names') or []:
        rows.append(dict(rows[case['names'].index(n)], nested=True))
    return rows


def model_request(case, obs):
    if 'raised' in obs:
        return None
    if case['kind'] == 'conc':
        reqs = []
        for i in range(2):
            g, loc = conc_reference(case, i)
            exprs = set(case['fields']) | ({case['condition']} if case.get('condition') is not None else set())
            reqs.append({'exprs': case['fields'], 'source': 'LOG', 'condition': case.get('condition'),
                         'oracle': [{'e': f, 'o': X.eval_outcome(f, g, loc)} for f in sorted(exprs)]})
        return {'op': 'concN', 'threads': reqs}
    if case['kind'] == 'multi':
        return {'op': 'runN', 'runs': [model_request(hc, obs)['runs'][0] for hc in multi_as_histories(case)]}
    if case['kind'] == 'history':
        cfg = dict(case['cfg'])
        if case['condition'] is not None:
            cfg['condition'] = case['condition']
        hits = [{'ts': h['ts'], 'cond': hit_outcome(h['cond'])} for h in case['hits']]
        return {'op': 'runN', 'runs': [{'cfg': cfg, 'hits': hits, 'action': k,
                                        'has_proc': case.get('span_proc', True) if k == 'span' else True}
                                       for k in kinds_of(case['action'])]}
    if case['names'] and obs.get('snapshots'):
        return {'op': 'resolve', 'names': name_bindings(case)}
    return None


def observed_binding(case, n, w):
    """which binding of name n the agent's result shows"""
    import deep.processor.context.trigger_context as tc
    if w['type'] == 'NameError':
        return 'NameError'
    if w['type'] == 'str' and w['value'] == 'L:' + n:
        return 'locals'
    if w['type'] == 'str' and w['value'] == 'G:' + n:
        return 'globals'
    if hasattr(_builtins, n) and w['type'] == type(getattr(_builtins, n)).__name__:
        return 'builtins'
    if hasattr(tc, n) and w['type'] == type(getattr(tc, n)).__name__:
        return 'agent'
    return 'other:%s' % w['type']


def compare(case, obs, resp):
    if 'error' in resp:
        return ['model error: ' + resp['error']]
    if case['kind'] == 'conc':
        # in the model every hit evaluates its expressions with its own oracle: no state is shared between hits
        d = []
        for i, (t, r) in enumerate(zip(obs['threads'], resp['threads'])):
            exp = ['[deep] ' + ' | '.join('%d=%s' % (j, x['value']) for j, x in enumerate(r['fields']))] if r['fired'] else []
            if t['messages'] != exp:
                d.append(f'thread {i}: model {exp!r} vs implementation {t["messages"]!r}')
            if case['mode'] == 'snap' and t['snapshots'] != (1 if r['fired'] else 0):
                d.append(f'thread {i}: model fired={r["fired"]} vs implementation {t["snapshots"]} snapshot(s)')
        return d
    if case['kind'] == 'multi':
        d = []
        for i, r in enumerate(resp['runs']):
            got = [x == 1 for x in obs['fired'][i]]
            if r['fired'] != got or r['evals'] != obs['evals'][i]:
                d.append(f'tp{i}: model fired {r["fired"]} evals {r["evals"]} vs implementation {obs["fired"][i]} '
                         f'{obs["evals"][i]}')
        return d
    if case['kind'] == 'history':
        d = []
        total = [0] * len(case['hits'])
        for k, r in zip(kinds_of(case['action']), resp['runs']):
            got = [x == 1 for x in obs['by_kind'][k]]
            if r['fired'] != got:
                d.append(f'{k} action fired: model {r["fired"]} vs implementation {obs["by_kind"][k]}')
            total = [a + b for a, b in zip(total, r['evals'])]
        if total != obs['evals']:
            d.append(f'condition evaluations: model {total} vs implementation {obs["evals"]}')
        return d
    d = []
    by_expr = {}
    for w in obs['watches']:
        by_expr.setdefault(w['expr'], w)
    occurrences = [(n, n) for n in case['names']] + [(n, '(lambda: %s)()' % n) for n in case.get('nested_names') or []]
    for (n, expr), r in zip(occurrences, resp['resolved']):
        w = by_expr.get(expr)
        if w is None or (w['type'] is None and w['error'] == 'variable limit reached'):
            continue                     # not evaluated / its value could not be recorded (budget)
        got = observed_binding(case, n, w)
        if got != r:
            d.append(f'name {n}: model resolves to {r}, implementation shows {got} ({w["type"]} {w["value"]!r})')
    return d


def label(case, obs):
    if case['kind'] == 'conc':
        return 'conc%s/%s/%s/parks%d' % ('-inner' if case.get('stream') == 'inner' else '', case['mode'],
                                          ''.join(map(str, case['sched'])),
                                          min(sum(t.get('pauses', 0) for t in obs.get('threads', [])), 6))
    if case['kind'] == 'multi':
        return f"multi/{case['install']}/{len(case['tps'])}"
    if case['kind'] == 'history':
        f = obs.get('fired', [])
        n = sum(1 for x in f if x)
        return f"history/{case['stream']}/{case['action']}{'@entry' if case.get('entry') else ''}/" + \
            ('blank' if blank(case['condition']) else 'cond') + \
            '/' + ('none' if n == 0 else 'all' if n == len(f) else 'some')
    return f"scope/{case.get('stream', 'limits' if case.get('limits') else 'main')}/{case['via']}/" + \
        ('fired' if obs.get('snapshots') else 'rejected')


def nontrivial(case, obs):
    if case['kind'] == 'conc':
        return case['sched'] not in ([0, 0, 1, 1], [1, 1, 0, 0]) and \
            (len(case['fields']) > 1 or case.get('condition') is not None)
    if case['kind'] == 'multi':
        # some hit at which two tracepoints with conditions disagree
        return any(len({c['k'] == 'true' for c, tp in zip(h['conds'], case['tps']) if not blank(tp['condition'])}) > 1
                   for h in case['hits'])
    if case['kind'] == 'history':
        if blank(case['condition']):
            return False
        seen_reject = False
        for h, f in zip(case['hits'], obs.get('fired', [])):
            if h['cond']['k'] != 'true':
                seen_reject = True
            elif f and seen_reject:
                return True
        return False
    ws = obs.get('watches', [])
    kinds = {w['type'] for w in ws}
    return bool(ws) and any(k and k.endswith('Error') or k in X.EXC_CLASSES for k in kinds) and \
        any(k in X.SIMPLE_TYPES for k in kinds)


def shrink(case):
    if case['kind'] == 'conc':
        for i, f in enumerate(case['fields']):
            if f != 'pause()' and len(case['fields']) > 1:
                c = dict(case)
                c['fields'] = case['fields'][:i] + case['fields'][i + 1:]
                if any('pause()' in x for x in c['fields']) or 'pause()' in (c.get('condition') or ''):
                    yield c
        if case.get('condition') is not None and any('pause()' in x for x in case['fields']):
            c = dict(case)
            del c['condition']
            yield c
        return
    if case['kind'] == 'multi':
        for i in range(len(case['hits'])):
            c = dict(case)
            c['hits'] = case['hits'][:i] + case['hits'][i + 1:]
            if c['hits']:
                yield c
        if len(case['tps']) > 2:
            for i in range(len(case['tps'])):
                c = dict(case)
                c['tps'] = case['tps'][:i] + case['tps'][i + 1:]
                c['hits'] = [{'ts': h['ts'], 'conds': h['conds'][:i] + h['conds'][i + 1:]} for h in case['hits']]
                # conditions are named after their position: rename
                c['tps'] = [dict(tp, condition=(tp['condition'] if tp['condition'] is None or 'c' not in tp['condition']
                                                else tp['condition'].replace('c%d' % (j if j < i else j + 1), 'c%d' % j)))
                            for j, tp in enumerate(c['tps'])]
                yield c
        return
    if case['kind'] == 'history' and case.get('stream') == 'scale':
        # a long run: only a handful of candidates (halve the run, drop the last hit) — never one candidate per hit
        hs = case['hits']
        n = next((i for i, h in enumerate(hs) if h['cond'].get('k') == 'true'), len(hs))
        for m in (n // 2, n - 1):
            if 0 < m < n:
                yield dict(case, hits=hs[:m] + hs[n:])
        if len(hs) - n > 1:
            yield dict(case, hits=hs[:-1])
        return
    if case['kind'] == 'history':
        hs = case['hits']
        for i in range(len(hs)):
            c = dict(case)
            c['hits'] = hs[:i] + hs[i + 1:]
            if c['hits']:
                yield c
        return
    for key in ('watches', 'log_fields'):
        xs = case.get(key) or []
        for i in range(len(xs)):
            c = dict(case)
            c[key] = xs[:i] + xs[i + 1:]
            if key == 'watches':
                c['names'] = [n for n in case['names'] if n in c[key]]
            yield c
    if case.get('metric'):
        c = dict(case)
        c.pop('metric')
        yield c
    if case.get('log_fields'):
        c = dict(case)
        c.pop('log_fields')
        yield c
