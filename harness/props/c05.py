"""C05 — collection is bounded (count, string length, collection size, depth) and spends its budget breadth-first."""
import core
from props import collector_common as cc

ID = 'C05'
EXTRACT = ['collector', 'frames', 'collector_time', 'collector_deferred']
LEAN_TARGETS = ['DeepModel.Props.C05']
AUDIT = 'DeepModel/Audit/C05.lean'
DRIVER = 'DeepModel/Driver/C05.lean'
BUDGET = {'quick': 1000, 'thorough': 12000}
TIME = {'quick': 75, 'thorough': 800}
RULE = ('generated object graphs (3-70 objects, thorough up to 400; ints, floats, bools, None, strs around the string limit '
        'incl. non-BMP and lone surrogates, lists/tuples/sets/frozensets around the collection limit, dicts with str/int/'
        'tuple/float/None keys, user objects with __dict__ incl. private names, exceptions with args, iterators, atoms '
        'like bytes/datetime/deque/enum/generator/module; sharing probability 0-0.5, cycles, chains deeper than the depth '
        'limit) bound to the parameters of a generated host function in a random declaration order; limits from '
        'maxVars{0,1,3,10,25,default} x maxStr{0,4,8,default} x maxColl{0,2,3,default} x maxDepth{0,1,2,3,5,default} set '
        'through directly constructed LocationAction config keys; watches / log fields over the locals and fresh '
        'temporaries (so the limits of the action are checked on every source of values, D28); line-capture of return '
        'values and raised exceptions; MockFrame chains for all_frame / no_frame; a forced 2-thread stream (two tracepoints '
        'with different limits, thread 2 runs its tracepoint to the end while thread 1 is stopped by events inside the str() of '
        'its first local: each snapshot must obey its OWN limits). Driven through the real '
        'TriggerHandler.trace_call on a real frame (rig.run_traced). Non-trivial = at least one limit was hit (a value '
        'cut, a collection capped, the budget exhausted or the depth limit reached). Distinct = canonical JSON of the case.')
TRUSTED = ['CPython frame.f_locals / eval / id() semantics; str()/len()/tuple() of built-in types',
           'harness/props/collector_common.py: object builder, raw-fact walker (describe_heap), reference levels']
ASSUMPTIONS = ['limits are non-negative integers; negative ints (search stops before the root / text sliced from the end) and '
               'non-integers (the comparison raises, no snapshot) are outside the statement: labelled stream limits-outside, recorded only',
               'the time budget MAX_TP_PROCESS_TIME is an int of magnitude below 2^32 ms (C05.BudgetInRange: where the exact division of the '
               'model stands for float division — argued on paper, not machine-checked); other budgets a directly constructed config can '
               'hold (0.5, True, nan, inf: other arithmetic; a str or None: TypeError out of _process_frame, no snapshot; 10^13: float '
               'rounding) are outside the model: labelled stream budget-outside, recorded only',
               'the per-trigger time budget (MAX_TP_PROCESS_TIME): the clock the frame collector reads is scripted (value per read); '
               'the model decides from the same script which frames are collected and how often the clock is read; time spent '
               'inside one frame is never checked by the code (not a claim)',
               'str() of the whole locals dict (log text of process_variable) is kept affordable: graphs whose repr '
               'expands to more than 20000 nodes are not generated (the agent computes it; exponential in DAG-shaped data)']


def gen(rng, tier):
    big = tier == 'thorough'
    k = 0
    while True:
        k += 1
        r = rng.random()
        n = rng.choice([120, 250, 400]) if big and rng.random() < 0.1 else None
        if k % 331 == 0:
            # a HUGE mapping (10 001 ... 30 000 entries) while sibling locals wait in the work list: everything at one depth
            # before anything deeper, the frame's locals are never crowded out (oracle only: the interpreted driver needs
            # minutes for such a case)
            yield cc.gen_huge(rng)
        elif k % 61 == 0:
            # __str__ raising a non-Exception BaseException + a string limit below any placeholder: what is delivered obeys it
            yield cc.gen_base_exc(rng)
        elif k % 89 == 0:
            # time budgets outside the domain of the model (not an int of magnitude < 2^32): what the code does is recorded
            c = cc.gen_clock(rng)
            c['stream'] = 'budget-outside'
            c['actions'] = c['actions'][:1]
            c['actions'][0].pop('max_ms', None)
            c['actions'][0]['raw_max_ms'] = rng.choice([0.5, 99.9999995, True, 'float:nan', 'float:inf', 'str:100', 'none', [100],
                                                        10 ** 13])
            yield c
        elif k % 97 == 0:
            # limit values outside the domain (negative ints, text): what the code does is recorded, not judged
            c = cc.gen_case(rng, nobj=rng.choice([6, 10]), watches=False, stream='limits-outside')
            key = rng.choice(['MAX_VARIABLES', 'MAX_STRING_LENGTH', 'MAX_COLLECTION_SIZE', 'MAX_VAR_DEPTH'])
            c['actions'][0]['raw_limits'] = {key: rng.choice([-1, -5, '8', '-1', 2.5])}
            yield c
        elif k % 25 == 0:
            # two tracepoints with different limits, the second one runs while the first is in the middle of its collection
            yield cc.gen_race(rng)
        elif r < 0.62:
            yield cc.gen_case(rng, nobj=n)
        elif r < 0.72:
            yield cc.gen_case(rng, nobj=n, capture=rng.choice(['return', 'exception']),
                              lim={'vars': rng.choice([None, 200]), 'str': rng.choice([4, 8, None]),
                                   'coll': rng.choice([2, 3, None]), 'depth': rng.choice([2, 3, 5, None])})
        elif r < 0.84:
            yield cc.gen_case(rng, mock_frames=rng.randint(1, 3),
                              frame_type=rng.choice(['all_frame', 'all_frame', 'single_frame', 'no_frame']))
        elif r < 0.85:
            # the host changes a recorded local between the line and the return event (recorded finding; two-heap model)
            yield cc.gen_stale(rng)
        elif r < 0.86:
            # deferred snapshots completed by the callback with a large returned / raised value after the frame used the budget
            yield cc.gen_deferred(rng)
        elif r < 0.90:
            yield cc.gen_case(rng, nactions=2)
        elif r < 0.96:
            # the processing-time budget against a scripted clock (boundary readings, clocks that go back)
            yield cc.gen_clock(rng)
        else:
            yield cc.gen_case(rng, small=False)


def corpus():
    nested = [{'t': 'list', 'e': [1, 2, 3]}, {'t': 'list', 'e': [4, 5, 6]}, {'t': 'list', 'e': [7, 8, 9]},
              {'t': 'list', 'e': [10, 11, 12]}] + [{'t': 'int', 'v': 300 + i} for i in range(9)] + [{'t': 'int', 'v': 7}]
    return [
        # two tracepoints with different limits hit by two threads, the loose one while the tight one is collecting
        {'kind': 'race', 'stream': 'race', 'frame_type': 'single_frame',
         'objs': [{'t': 'str', 'v': 'abcdefghijklmnopqrstuvwxyz'}, {'t': 'list', 'e': [2, 2, 2, 2, 2]}, {'t': 'int', 'v': 7},
                  {'t': 'list', 'e': [1]}],
         'locals': [['s', 0], ['xs', 1], ['deep', 3]],
         'actions': [{'limits': {'str': 8, 'coll': 2, 'depth': 2}}, {'limits': {'str': 64, 'coll': 20, 'depth': 8}}]},
        # D4: z = [[1,2,3],[4,5,6],[7,8,9]]; y = 7 with a budget of 3
        {'objs': nested, 'locals': [['z', 0], ['y', 13]], 'frame_type': 'single_frame', 'stream': 'corpus',
         'actions': [{'limits': {'vars': 3, 'str': None, 'coll': None, 'depth': None}}]},
        # D28: the limits of the action apply to watch values
        {'objs': [{'t': 'int', 'v': 1}], 'locals': [['a', 0]], 'frame_type': 'single_frame', 'stream': 'corpus',
         'actions': [{'limits': {'vars': None, 'str': 8, 'coll': 2, 'depth': None},
                      'watches': ['"x" * 50', 'list(range(30))']}]},
        {'objs': [{'t': 'str', 'v': 'abcdefgh'}, {'t': 'str', 'v': 'abcdefghi'}, {'t': 'list', 'e': [0, 1, 0]}],
         'locals': [['s', 0], ['t', 1], ['u', 2]], 'frame_type': 'single_frame', 'stream': 'corpus',
         'actions': [{'limits': {'vars': 10, 'str': 8, 'coll': 3, 'depth': 3}}]},
    ]


def known_finding(case, obs):
    """structural: the host mutates a local the snapshot recorded at the line and returns that object (deferred capture)"""
    if case.get('mutate') and case.get('capture') and 'raised' not in obs:
        return cc.K_STALE
    return None


def known_replays():
    return [(cc.K_STALE, "r = []; tracepoint (line_capture) on `return fill(r)`: the function returns a 2-element list, the pushed "
                         "snapshot says CAPTURE return -> list 'Size: 0' (the entry made at the line)",
             {'objs': [{'t': 'int', 'v': 1}, {'t': 'list', 'e': []}], 'locals': [['a', 0], ['acc', 1]], 'mutate': 'acc',
              'capture': 'return', 'capture_expr': 'fill(acc)', 'stage': 'line_capture', 'frame_type': 'single_frame',
              'stream': 'stale-capture', 'actions': [{'limits': {}}]})]


def run_impl(case):
    if case.get('kind') == 'race':
        return cc.run_race(case)
    return cc.run_case(case)


def oracle(case, obs):
    live = cc.live_of(obs)
    if live is None:
        raise core.Infra('oracle called without the live objects of its evaluation')
    if case.get('kind') == 'race':
        return cc.judge_race(case, obs, live)
    if any(a.get('raw_limits') or 'raw_max_ms' in a for a in case['actions']):
        return ['trace_call raised into the host: ' + obs['raised']] if 'raised' in obs else []
    v = []
    if 'raised' in obs:
        v.append('trace_call raised into the host: ' + obs['raised'])
    for ai, s in cc.snapshots_by_action(case, obs):
        v += cc.judge_bounds(case, obs, live, ai, s)
        if case.get('stream') == 'huge':
            v += cc.judge_frames(case, obs, live, ai, s)     # the later locals are still on the frame
        if cc.clock_of(case) is not None:
            # the time budget: which frames carry variables, and that they carry all of them (never cut half-way)
            v += cc.judge_frames(case, obs, live, ai, s)
    return v


def model_request(case, obs):
    if any(a.get('raw_limits') or 'raw_max_ms' in a for a in case.get('actions', [])):
        return None           # limits / time budget outside the domain of the model
    if case.get('stream') == 'huge':
        return None           # oracle only (driver too slow for 10 000-entry mappings)
    if case.get('kind') == 'race':
        return None           # a schedule of two threads: judged by the oracle (each snapshot against its own limits)
    return cc.model_request(case, obs)


compare = cc.compare
shrink = cc.shrink_case


def hit(case, obs):
    flags = set()
    for ai, s in cc.snapshots_by_action(case, obs):
        lim = cc.limits_of(case['actions'][ai]['limits'])
        if any(e['truncated'] for e in s['vars']):
            flags.add('cut')
        if any(len(e['children']) == lim['coll'] and e['type'] in cc.LIST_NAMES for e in s['vars']):
            flags.add('cap')
        if max(cc.snap_vids(s) | {0}) >= lim['vars'] + 1 or (lim['vars'] == 0):
            flags.add('budget')
        if lim['depth'] <= 3:
            flags.add('depth')
    return flags


def label(case, obs):
    if case.get('kind') == 'race':
        return 'race/' + ('overlap' if obs.get('overlapped') else 'serial')
    if any('raw_max_ms' in a for a in case['actions']):
        return 'budget-outside/%r/snap%d' % (case['actions'][0]['raw_max_ms'], len(obs.get('snapshots', [])))
    if any(a.get('raw_limits') for a in case['actions']):
        rl = case['actions'][0]['raw_limits']
        return 'limits-outside/%s=%r/snap%d' % (list(rl)[0], list(rl.values())[0], len(obs.get('snapshots', [])))
    if case.get('clock'):
        return 'clock/%s/%s' % (case.get('frame_type', ''), cc.clock_label(case, obs))
    if case.get('stream') == 'base-exc':
        return 'base-exc/%s/snap%d' % ('watch' if case.get('globals') else 'local', len(obs.get('snapshots', [])))
    if case.get('stream') == 'huge':
        return 'huge/%s' % case.get('huge')
    if case.get('stream') == 'stale-capture':
        return 'stale-capture/%s/%s' % (case.get('stage'), obs.get('capture_event', 'no-event'))
    if case.get('stream') == 'deferred':
        return 'deferred/%s/%s/%s' % (case.get('stage'), obs.get('capture_event', 'no-event'), '+'.join(sorted(hit(case, obs)) or ['none']))
    kind = 'mock/' + case.get('frame_type', '') if case.get('mock') else ('capture' if case.get('capture') else 'frame')
    return kind + '/' + '+'.join(sorted(hit(case, obs)) or ['none'])


def nontrivial(case, obs):
    if case.get('kind') == 'race':
        return bool(obs.get('overlapped'))
    if any(a.get('raw_limits') or 'raw_max_ms' in a for a in case['actions']):
        return False
    if case.get('clock'):
        return cc.clock_label(case, obs) in ('cut', 'none')
    return bool(hit(case, obs) - {'depth'})
