"""C15, stream `tl` — the per-thread store itself: `deep.thread_local.ThreadLocal` driven directly by REAL threads.

A case = 1-2 ThreadLocal instances (each with its own default provider) x 2-6 thread objects x a global schedule of
operations `[thread, instance, op, arg]`, op in get / set / clear / is_set / value / set_value / push (= the handler's
idiom `tl.get().append(x)`).  Every thread is a real `threading.Thread`, started right before its first operation and
joined right after its last one; the schedule is forced (one operation at a time, handed over through queues), so a
thread whose operations all come after the end of another one normally receives the ident of the finished thread
(recorded: label `ident-reused`).

  * run_impl  — the real class from /repo/src on real threads; results of every operation, in schedule order;
  * oracle    — the statement, independent of the Lean model: one cell per (instance, thread OBJECT); what a thread
                reads is what IT stored / pushed / was given by the provider, a thread that has not stored anything
                finds nothing (`is_set` False) whatever earlier threads left, instances do not see each other, the
                provider is called exactly when a `get` finds no value;
  * model     — `TLocal.runT` over the translated methods (Extracted/ThreadLocal.lean), one machine per instance.
Values are lists of ints or None; a provider is a finite list of values (the k-th call returns a fresh copy of entry
min(k, last), the entry 'raise' makes that call raise): `[[]]` is the handler's `lambda: deque()`, `[None]` the class
default `lambda: None`.
"""
import copy
import queue
import threading

import core

OPS0 = ('get', 'clear', 'is_set', 'value')
OPS1 = ('set', 'set_value', 'push')
TIMEOUT = 20


# --------------------------------------------------------------------------------------- implementation
class _Provider:
    def __init__(self, values):
        self.values = values
        self.calls = 0

    def __call__(self):
        v = self.values[min(self.calls, len(self.values) - 1)]
        self.calls += 1
        if v == 'raise':
            raise RuntimeError('provider failed')
        return copy.deepcopy(v)


def _canon_val(v):
    if v is None:
        return None
    if isinstance(v, list) and all(isinstance(x, int) for x in v):
        return list(v)
    return {'other': type(v).__name__}


def _do(tl, op, arg):
    try:
        if op == 'get':
            return ['val', _canon_val(tl.get())]
        if op == 'value':
            return ['val', _canon_val(tl.value)]
        if op == 'is_set':
            r = tl.is_set
            return ['flag', r] if isinstance(r, bool) else ['flag', {'other': repr(r)[:40]}]
        if op == 'clear':
            r = tl.clear()
            return ['unit'] if r is None else ['other', repr(r)[:40]]
        if op == 'set':
            r = tl.set(copy.deepcopy(arg))
            return ['unit'] if r is None else ['other', repr(r)[:40]]
        if op == 'set_value':
            tl.value = copy.deepcopy(arg)
            return ['unit']
        if op == 'push':
            tl.get().append(arg)
            return ['unit']
        return ['other', 'unknown op']
    except Exception as e:  # the class's exceptions are data
        return ['raised', type(e).__name__]


def _worker(inbox, outbox, tls):
    outbox.put(threading.get_ident())
    while True:
        m = inbox.get()
        if m is None:
            return
        inst, op, arg = m
        outbox.put(_do(tls[inst], op, arg))


def run_impl(case):
    core.use_repo()
    try:
        from deep.thread_local import ThreadLocal
        shared = getattr(ThreadLocal, '_ThreadLocal__store', None)
        if isinstance(shared, dict):        # hermetic cases should the store ever be class level again
            shared.clear()
        provs = [_Provider(p) for p in case['providers']]
        tls = [ThreadLocal() if case.get('default_ctor', {}).get(str(i)) else ThreadLocal(p)
               for i, p in enumerate(provs)]
    except Exception as e:
        return {'raised': 'constructing ThreadLocal: %s: %s' % (type(e).__name__, e)}
    sched = case['sched']
    last = {}
    for i, (t, _inst, _op, _arg) in enumerate(sched):
        last[t] = i
    threads, results, idents, alive_idents = {}, [], {}, []
    try:
        for i, (t, inst, op, arg) in enumerate(sched):
            if t not in threads:
                inbox, outbox = queue.Queue(), queue.Queue()
                th = threading.Thread(target=_worker, args=(inbox, outbox, tls), daemon=True)
                th.start()
                try:
                    idents[t] = outbox.get(timeout=TIMEOUT)
                except queue.Empty:
                    raise core.Infra('tl worker did not start')
                threads[t] = (th, inbox, outbox)
            th, inbox, outbox = threads[t]
            inbox.put((inst, op, arg))
            try:
                results.append(outbox.get(timeout=TIMEOUT))
            except queue.Empty:
                raise core.Infra('tl operation timed out')
            if last[t] == i:
                inbox.put(None)
                th.join(TIMEOUT)
                if th.is_alive():
                    raise core.Infra('tl worker did not end')
    finally:
        for th, inbox, _ in threads.values():
            if th.is_alive():
                inbox.put(None)
    order = sorted(idents, key=lambda t: [x[0] for x in sched].index(t))
    ids = [idents[t] for t in order]
    return {'results': results, 'ident_reused': len(set(ids)) < len(ids), 'nthreads': len(ids),
            # an instance built with the class's own default provider has no counting provider
            'provider_calls': [None if case.get('default_ctor', {}).get(str(i)) else p.calls
                               for i, p in enumerate(provs)]}


# --------------------------------------------------------------------------------------- the statement
def reference(case):
    """expected result of every operation + provider calls, from the statement (one cell per instance and thread)"""
    cells = {}            # (inst, thread) -> ['v', value]   (absent = nothing stored)
    calls = [0] * len(case['providers'])
    out = []

    class Failed(Exception):
        pass

    def provide(inst):
        vals = case['providers'][inst]
        v = copy.deepcopy(vals[min(calls[inst], len(vals) - 1)])
        calls[inst] += 1
        if v == 'raise':
            raise Failed()         # the provider's exception leaves get(): nothing is stored
        return v

    def get(key, inst):
        if key in cells and cells[key] is not None:
            return cells[key]
        cells[key] = provide(inst)
        return cells[key]

    for t, inst, op, arg in case['sched']:
        key = (inst, t)
        if op in ('get', 'value', 'push'):
            try:
                v = get(key, inst)
            except Failed:
                out.append(['raised', 'RuntimeError'])
                continue
            if op != 'push':
                out.append(['val', copy.deepcopy(v)])
            elif v is None:
                out.append(['raised', 'AttributeError'])
            else:
                v.append(arg)
                out.append(['unit'])
        elif op == 'is_set':
            out.append(['flag', key in cells])
        elif op == 'clear':
            cells.pop(key, None)
            out.append(['unit'])
        elif op in ('set', 'set_value'):
            cells[key] = copy.deepcopy(arg)
            out.append(['unit'])
    return out, calls


def oracle(case, obs):
    if 'raised' in obs:
        return ['ThreadLocal: ' + obs['raised']]
    want, calls = reference(case)
    v = []
    seen = set()
    for i, ((t, inst, op, arg), w, g) in enumerate(zip(case['sched'], want, obs['results'])):
        first = (inst, t) not in seen
        seen.add((inst, t))
        if w != g:
            what = 'operation %d: thread T%d %s%s on instance %d returned %s, expected %s' % (
                i, t, op, '' if arg is None and op not in OPS1 else '(%s)' % (arg,), inst, g, w)
            if first and op in ('is_set', 'get', 'value', 'push'):
                what += ' — the first operation of this thread on this instance: it found something it never stored ' \
                        '(left by another thread / another instance%s)' % (
                            '; thread idents were reused' if obs.get('ident_reused') else '')
            v.append(what)
    calls = [None if g is None else c for c, g in zip(calls, obs.get('provider_calls') or [])]
    if not v and obs.get('provider_calls') != calls:
        v.append('default providers were called %s times, expected %s (exactly when a get finds no value)' % (
            obs.get('provider_calls'), calls))
    return v[:6]


# --------------------------------------------------------------------------------------- model
def model_request(case, obs):
    if 'raised' in obs:
        return None
    insts = []
    for i, p in enumerate(case['providers']):
        insts.append({'prov': p, 'ops': [[t, op, arg] for t, inst, op, arg in case['sched'] if inst == i]})
    return {'op': 'tl', 'insts': insts}


def compare(case, obs, resp):
    if 'error' in resp:
        return ['model error: ' + str(resp['error'])]
    d = []
    pos = [0] * len(case['providers'])
    for i, ((t, inst, op, arg), g) in enumerate(zip(case['sched'], obs['results'])):
        rs = resp['insts'][inst]['results']
        m = rs[pos[inst]] if pos[inst] < len(rs) else None
        pos[inst] += 1
        if m is None or m[0] != t or (m[1] != g and not (m[1][0] == 'raised' and g[0] == 'raised')):
            d.append('operation %d (T%d %s on instance %d): implementation %s, model %s' % (i, t, op, inst, g, m))
    mc = [None if g is None else x['calls'] for x, g in zip(resp['insts'], obs.get('provider_calls') or [])]
    if mc != obs.get('provider_calls'):
        d.append('provider calls: implementation %s, model %s' % (obs.get('provider_calls'), mc))
    for inst, x in enumerate(resp['insts']):
        if not x.get('solo_agrees'):
            d.append('instance %d: the machine of all threads disagrees with the threads\' solo runs '
                     '(c15_tl_interleaved)' % inst)
    return d[:6]


# --------------------------------------------------------------------------------------- generation
def gen_value(rng, none_p=0.15):
    if rng.random() < none_p:
        return None
    return [rng.randint(-3, 9) for _ in range(rng.choice([0, 0, 1, 2, 3]))]


def gen_op(rng, t, inst, first):
    r = rng.random()
    if first and r < 0.5:
        return [t, inst, rng.choice(['is_set', 'is_set', 'get', 'value']), None]
    if r < 0.28:
        return [t, inst, 'push', rng.randint(0, 99)]
    if r < 0.48:
        return [t, inst, 'is_set', None]
    if r < 0.62:
        return [t, inst, rng.choice(['get', 'value']), None]
    if r < 0.76:
        return [t, inst, 'clear', None]
    return [t, inst, rng.choice(['set', 'set_value']), gen_value(rng)]


def gen_case(rng, tier):
    ninst = rng.choice([1, 1, 2])
    providers, default_ctor = [], {}
    for i in range(ninst):
        r = rng.random()
        if r < 0.45:
            providers.append([[]])                                   # the handler's lambda: deque()
        elif r < 0.6:
            providers.append([None])                                 # the class default
            if rng.random() < 0.5:
                default_ctor[str(i)] = True
        elif r < 0.85:
            providers.append([[100 + k] for k in range(rng.randint(2, 5))])   # stateful: every call differs
        elif r < 0.93:
            providers.append([rng.choice([None, [7]]) for _ in range(rng.randint(2, 4))])   # sometimes None
        else:
            # sometimes RAISES (the exception leaves get(), nothing is stored), never at the last (repeated) entry
            providers.append([rng.choice(['raise', [8], [9]]) for _ in range(rng.randint(2, 4))] + [[5]])
    nthreads = rng.randint(2, 6 if tier == 'quick' else 9)
    style = rng.choice(['sequential', 'sequential', 'interleaved', 'mixed'])
    per = {t: rng.randint(1, 7) for t in range(nthreads)}
    order = []
    if style == 'sequential':
        for t in range(nthreads):
            order += [t] * per[t]
    elif style == 'interleaved':
        for t in range(nthreads):
            order += [t] * per[t]
        rng.shuffle(order)
    else:
        # waves: the threads of a wave are interleaved, the next wave starts when the wave before has ended
        ts = list(range(nthreads))
        while ts:
            k = rng.randint(1, 3)
            wave, ts = ts[:k], ts[k:]
            w = []
            for t in wave:
                w += [t] * per[t]
            rng.shuffle(w)
            order += w
    sched, seen = [], set()
    leave = rng.random() < 0.7        # threads end with something stored (what a later thread could inherit)
    remaining = {t: order.count(t) for t in set(order)}
    for t in order:
        inst = rng.randrange(ninst)
        remaining[t] -= 1
        if remaining[t] == 0 and leave and rng.random() < 0.8:
            op = [t, inst, rng.choice(['push', 'set']), None]
            op[3] = rng.randint(0, 99) if op[2] == 'push' else [rng.randint(0, 9)]
        else:
            op = gen_op(rng, t, inst, (inst, t) not in seen)
        seen.add((inst, t))
        sched.append(op)
    case = {'kind': 'tl', 'stream': 'tl', 'style': style, 'providers': providers, 'sched': sched}
    if default_ctor:
        case['default_ctor'] = default_ctor
    return case


def corpus():
    return [
        # what 0ec78d1 fixed: T0 leaves a value, the later thread T1 (same ident, normally) must find nothing; a second
        # instance must not see the first one's values
        {'kind': 'tl', 'stream': 'tl', 'style': 'sequential', 'providers': [[[]], [[]]],
         'sched': [[0, 0, 'is_set', None], [0, 0, 'push', 1], [0, 1, 'is_set', None], [0, 0, 'get', None],
                   [1, 0, 'is_set', None], [1, 0, 'get', None], [1, 1, 'is_set', None], [1, 0, 'push', 2],
                   [2, 0, 'is_set', None], [2, 0, 'value', None]]},
        # stored None: is_set True, get asks the provider again; clear twice; push on a None default raises
        {'kind': 'tl', 'stream': 'tl', 'style': 'interleaved', 'providers': [[[100], [101], [102]], [None]],
         'default_ctor': {'1': True},
         'sched': [[0, 0, 'set', None], [0, 0, 'is_set', None], [1, 0, 'get', None], [0, 0, 'get', None],
                   [0, 0, 'get', None], [1, 0, 'clear', None], [1, 0, 'clear', None], [1, 0, 'is_set', None],
                   [1, 0, 'value', None], [0, 1, 'push', 5], [0, 1, 'is_set', None], [1, 1, 'get', None],
                   [1, 1, 'set_value', [4]], [1, 1, 'push', 6], [1, 1, 'value', None], [0, 1, 'get', None]]},
        # a provider that raises at its first and third call (audit probe P4): get lets the exception out, the slot stays
        # unset, the next get calls the provider again
        {'kind': 'tl', 'stream': 'tl', 'style': 'interleaved', 'providers': [['raise', [2], 'raise', [4]]],
         'sched': [[0, 0, 'get', None], [0, 0, 'is_set', None], [1, 0, 'is_set', None], [0, 0, 'get', None],
                   [1, 0, 'push', 3], [1, 0, 'is_set', None], [1, 0, 'value', None], [0, 0, 'get', None]]},
    ]


def label(case, obs):
    if 'raised' in obs:
        return 'tl/raised'
    if any('raise' in p for p in case['providers']):
        return 'tl/raising-provider/%s' % ('ident-reused' if obs.get('ident_reused') else 'idents-distinct')
    n = obs.get('nthreads', 0)
    return 'tl/%s/%dinst/%s/%s' % (case.get('style', '?'), len(case['providers']),
                                   '2-3thr' if n <= 3 else '4+thr',
                                   'ident-reused' if obs.get('ident_reused') else 'idents-distinct')


def nontrivial(case, obs):
    """a later thread starts on an instance on which an earlier thread has left a value"""
    if 'raised' in obs:
        return False
    stored, started = set(), set()
    for t, inst, op, arg in case['sched']:
        if (inst, t) not in started:
            started.add((inst, t))
            if any(i == inst and u != t for i, u in stored):
                return True
        if op in ('push', 'set', 'set_value', 'get', 'value'):
            stored.add((inst, t))
        elif op == 'clear':
            stored.discard((inst, t))
    return False


def shrink(case):
    s = case['sched']
    for i in range(len(s)):
        c = dict(case)
        c['sched'] = s[:i] + s[i + 1:]
        if c['sched']:
            yield c
