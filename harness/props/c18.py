"""C18 — resource identity (merge precedence, mandatory keys, purity) and the bounded attribute store."""
import itertools
import json
import os
import re
import subprocess
import sys
import threading
import types
import urllib.parse

import core
import c18_codec as codec

ID = 'C18'
EXTRACT = ['attributes']
LEAN_TARGETS = ['DeepModel.Props.C18']
AUDIT = 'DeepModel/Audit/C18.lean'
DRIVER = 'DeepModel/Driver/C18.lean'
BUDGET = {'quick': 1600, 'thorough': 12000}
TIME = {'quick': 55, 'thorough': 800}
RULE = ('ba: op sequences (set/del/merge_in, up to 30 ops) on a REAL BoundedAttributes of random capacity (None, 0, 1..5) '
        'and max_value_len, optional initial attributes (possibly more than the capacity) and immutability; keys: '
        'str pool, empty str, non-str objects; values: str (short/long/non-BMP), int (small/huge/bool mixes), float '
        '(nan/inf), bool, bytes decodable and not, None, foreign objects, sequences (homogeneous, with None, mixed '
        'types, bool-vs-int, nested lists, undecodable bytes elements, list and tuple); ctor: invalid capacities; '
        'merge: chains of 2-5 Resource objects with schema urls (operands compared before/after, aliasing of the '
        'result checked); create: Resource.create (+ plugin-style merges) in a FRESH interpreter per case under a '
        'generated DEEP_RESOURCE_ATTRIBUTES (malformed items, url-encoding, duplicates, white space) and '
        'DEEP_SERVICE_NAME; start: the real Deep.start resource loop with generated ResourceProvider plugins '
        '(order(), inactive, raising, None-returning), resource read back through convert_resource; sched: 2-3 writer '
        'THREADS on one real container (new / existing / same / invalid keys, capacity 0,1,2,n,None, one free slot or full), '
        'a random one of all interleavings of their two regions (arrive at the lock | pass through it) forced by a gated '
        'stand-in for BoundedAttributes._lock. scale: resources with 130 / 200 / 700 / 2000 distinct attributes in total over '
        'environment + code + 1-3 plugin resources, through Resource.create (fresh interpreter) or the real Deep.start (2000: oracle '
        'only). start providers: raise / return None / return a dict / return an object without attributes / inactive. agg: get_aggregated_resources with an initial resource and 0-4 detectors '
        '(returning resources / raising, with and without raise_on_error), the result also read through to_json, ==, hash, '
        'len / iteration / copy of its attributes. start: a third of the provider sets with >= 2 providers has two or three providers '
        'with the SAME class name (= plugin name) from different modules. env: DeepResourceDetector().detect() in-process on COMPOSED texts of '
        'DEEP_RESOURCE_ATTRIBUTES (0-21 random tokens: separators, valid/truncated/non-hex escapes, white space, key and '
        'value fragments; a tenth with escapes >= 0x80 / non-ASCII, oracle only) x DEEP_SERVICE_NAME set/empty/unset. Non-trivial = '
        'something was evicted/rejected/refused (ba), a key was overridden or a schema conflicted (merge), the '
        'environment contributed or the fallback fired (create/start). Distinct = distinct canonical JSON.')
TRUSTED = ['threading.Lock; a writer parked at the lock has executed everything that precedes `with self._lock`',
           'bytes.decode (the case carries the decoding outcome to the model), float values opaque (repr)',
           'urllib.parse.unquote re-modelled for %XX < 0x80; str.strip (the ten ASCII white space characters incl. \\x1c-\\x1f) / split on AsciiPlain texts (no character >= 0x80, no %80+ escape); other texts: oracle only',
           'OrderedDict / dict.update iteration order']
ASSUMPTIONS = ['an undecodable bytes *element* of a sequence is stored as None (as the code and its OpenTelemetry '
               'origin do); the statement does not single this case out',
               'sequence elements are judged by their exact type (class I(int) instances make a sequence invalid) while a '
               'scalar value is judged by isinstance, as the code does; subclass instances are outside the Lean model '
               '(Scalar cannot tell them apart) and are judged by the oracle only',
               'str() of a sequence attribute used in the fallback service name: the model renders text elements as '
               "'…' (generators keep quotes and backslashes out of those)",
               'integers sent over the wire fit int64 (wire fidelity is C08)']

HARNESS = os.path.dirname(os.path.dirname(os.path.abspath(__file__)))
PY = '/venv/bin/python'
SDK_KEYS = ['telemetry.sdk.language', 'telemetry.sdk.name', 'telemetry.sdk.version']
DEFAULT_PLUGIN_OFF = {'PLUGIN_OTELPLUGIN': 'False', 'PLUGIN_PYTHONPLUGIN': 'False',
                      'PLUGIN_PROMETHEUSPLUGIN': 'False', 'PLUGIN_OTELMETRICS': 'False'}

# --------------------------------------------------------------------------------------- generation
STR_KEYS = ['a', 'b', 'c', 'd', 'e', 'k1', 'k2', 'service.name', 'process.executable.name', 'telemetry.sdk.name',
            'long' * 10, 'é', '\U0001F600k', ' ']
STRS = ['', 'x', 'hello', 'hello world, this is long', 'a' * 40, 'éèê', '\U0001F600\U0001F601ab', '0',
        'True', ' pad ']


def g_key(rng, valid_bias=0.8):
    r = rng.random()
    if r < valid_bias:
        return {'s': rng.choice(STR_KEYS[:8] if rng.random() < 0.8 else STR_KEYS)}
    if r < valid_bias + 0.07:
        return {'s': ''}
    return {'o': rng.choice(sorted(codec.KEY_MENU))}


def g_scalar(rng, kind=None):
    kind = kind or rng.choice(['str', 'str', 'int', 'int', 'bool', 'float', 'bytes', 'badbytes', 'none', 'other'] * 25
                              + ['isub', 'ssub'])
    if kind == 'isub':
        return {'t': 'isub', 'v': rng.choice([0, 3, 7])}
    if kind == 'ssub':
        return {'t': 'ssub', 'v': rng.choice(STRS)}
    if kind == 'str':
        return {'t': 'str', 'v': rng.choice(STRS)}
    if kind == 'int':
        return {'t': 'int', 'v': rng.choice([0, 1, -1, 2, 7, 10 ** 6, -2 ** 63, 2 ** 63 - 1, 10 ** 30])}
    if kind == 'bool':
        return {'t': 'bool', 'v': rng.random() < 0.5}
    if kind == 'float':
        return {'t': 'float', 'r': rng.choice(['0.0', '1.5', '-2.25', 'nan', 'inf', '-inf', '1e+300', '-0.0'])}
    if kind == 'bytes':
        return codec.enc_scalar(rng.choice(STRS).encode())
    if kind == 'badbytes':
        return codec.enc_scalar(rng.choice([b'\xff', b'ab\xfe\xff', b'\xc3', b'\xe2\x82']))
    if kind == 'none':
        return {'t': 'none'}
    return {'t': 'other', 'ty': rng.choice(['dict', 'set', 'Opaque', 'complex', 'frozenset', 'function', 'emptydict'])}


def g_val(rng, int64=False):
    r = rng.random()
    if r < 0.6:
        v = g_scalar(rng)
    else:
        n = rng.choice([0, 1, 2, 3, 3, 4, 6])
        mode = rng.random()
        if mode < 0.45:       # homogeneous, maybe with None / bytes of the same text type
            k = rng.choice(['str', 'int', 'bool', 'float', 'bytes'])
            xs = []
            for _ in range(n):
                q = rng.random()
                if q < 0.15:
                    xs.append({'t': 'none'})
                elif q < 0.25 and k in ('str', 'bytes'):
                    xs.append(g_scalar(rng, rng.choice(['str', 'bytes', 'badbytes'])))
                else:
                    xs.append(g_scalar(rng, k))
        elif mode < 0.7:      # two types mixed, bool-vs-int in particular
            a, b = rng.choice([('int', 'bool'), ('bool', 'int'), ('int', 'float'), ('str', 'int'), ('str', 'bool'),
                               ('float', 'str'), ('bytes', 'int')])
            xs = [g_scalar(rng, a if rng.random() < 0.6 else b) for _ in range(max(n, 2))]
        elif mode < 0.85:     # a foreign element somewhere (nested list, dict, object)
            xs = [g_scalar(rng, rng.choice(['str', 'int', 'none'])) for _ in range(n)]
            xs.insert(rng.randint(0, len(xs)), {'t': 'other', 'ty': rng.choice(['list', 'tuple', 'dict', 'Opaque',
                                                                               'emptylist'])})
        else:
            xs = [g_scalar(rng) for _ in range(n)]
        v = {'t': 'seq', 'xs': xs, 'as': rng.choice(['list', 'tuple'])}
    if int64:
        v = clamp_ints(v)
    return v


def clamp_ints(v):
    if v.get('t') == 'int' and not (-2 ** 63 <= v['v'] < 2 ** 63):
        return {'t': 'int', 'v': 12345}
    if v.get('t') == 'seq':
        return dict(v, xs=[clamp_ints(x) for x in v['xs']])
    return v


def distinct_kvs(rng, n, valid_bias=0.8, int64=False):
    """items of a Python dict: keys pairwise distinct as Python objects (1 == True == 1.0 would collapse)."""
    out, seen = [], []
    for _ in range(n):
        k = g_key(rng, valid_bias)
        obj = codec.mk_key(k)
        if any(type(obj) is type(s) and obj == s for s in seen) or any(obj == s for s in seen):
            continue
        seen.append(obj)
        out.append([k, g_val(rng, int64)])
    return out


def g_ba(rng):
    cap = rng.choice([None, None, 0, 1, 1, 2, 2, 3, 3, 4, 5])
    mvl = rng.choice([None, None, 0, 1, 3, 8, 100])
    ops = []
    for _ in range(rng.randint(1, 30)):
        r = rng.random()
        if r < 0.62:
            ops.append({'op': 'set', 'k': g_key(rng), 'v': g_val(rng)})
        elif r < 0.8:
            ops.append({'op': 'del', 'k': g_key(rng, 0.9)})
        else:
            ops.append({'op': 'merge', 'kvs': distinct_kvs(rng, rng.choice([0, 1, 2, 3, 4]))})
    return {'kind': 'ba', 'cap': cap, 'mvl': mvl, 'init': distinct_kvs(rng, rng.choice([0, 0, 1, 2, 4, 7])),
            'immutable': rng.random() < 0.15, 'ops': ops}


def g_sched(rng):
    """2-3 writer threads on one container; a schedule = order of their regions (arrive at the lock / pass it)."""
    cap = rng.choice([0, 1, 1, 2, 2, 2, 3, 4, None])
    n = rng.choice([2, 2, 2, 3])
    fill = 0 if not cap else rng.choice([max(cap - 1, 0), max(cap - 1, 0), cap, max(cap - 2, 0)])
    pool = ['a', 'b', 'c', 'd', 'e']
    init = [[{'s': pool[i]}, {'t': 'int', 'v': i}] for i in range(fill if cap is not None else rng.choice([0, 1, 2]))]
    writers = []
    for i in range(n):
        r = rng.random()
        if r < 0.55:
            k = {'s': 'n%d' % i}                                  # a new key
        elif r < 0.75 and init:
            k = rng.choice(init)[0]                                # an existing key
        elif r < 0.85:
            k = {'s': 'n0'}                                       # the same new key as another writer
        else:
            k = g_key(rng, 0.5)
        r2 = rng.random()
        if r2 < 0.12:
            writers.append({'op': 'del', 'k': k})
        elif r2 < 0.4:
            # merge_in takes the lock once per item: two merge_in calls interleave item by item
            items = [[k, {'t': 'int', 'v': 100 + i}]]
            for j in range(rng.choice([1, 1, 2])):
                kk = {'s': rng.choice(['m%d%d' % (i, j), 'n0', pool[j]])}
                if all(kk != it[0] for it in items):
                    items.append([kk, g_val(rng) if rng.random() < 0.2 else {'t': 'int', 'v': 200 + 10 * i + j}])
            writers.append({'op': 'merge', 'kvs': items})
        else:
            writers.append({'op': 'set', 'k': k, 'v': g_val(rng) if rng.random() < 0.3 else {'t': 'int', 'v': 100 + i}})
    steps = [i for i, w in enumerate(writers) for _ in range(2 * n_items(w))]
    rng.shuffle(steps)
    return {'kind': 'sched', 'cap': cap, 'mvl': rng.choice([None, None, 3]), 'init': init,
            'immutable': rng.random() < 0.06, 'writers': writers, 'sched': steps}


def n_items(w):
    return max(len(w['kvs']), 1) if w['op'] == 'merge' else 1


def g_ctor(rng):
    return {'kind': 'ctor', 'cap_raw': rng.choice(['-1', '-5', "'3'", '2.5', 'None', '0', '3'])}


URLS = [None, None, '', 'http://s/1', 'http://s/2']


def g_res(rng, int64=False):
    return {'attrs': distinct_kvs(rng, rng.choice([0, 1, 2, 3, 5]), 0.9, int64), 'url': rng.choice(URLS)}


def g_merge(rng):
    return {'kind': 'merge', 'chain': [g_res(rng) for _ in range(rng.randint(2, 5))]}


ENV_ITEMS = ['a=1', 'b = two ', ' c=3', 'd=x%20y', 'e=p%2Cq', 'f=l%3Dr', 'g=100%25', 'bad', '', '=v', ' =w', 'a=again',
             'h=b=c', 'service.name=fromattrs', 'process.executable.name=px', 'i=%zz', 'j=50%', 'k=%4', 'l=\tt\t',
             'telemetry.sdk.name=other', 'service.name=', 'm=%41%62', 'process.executable.name=']
ENV_ITEMS_UNMODELLED = ['n=%C3%A9', 'o=%FF', 'p=café', 'q= nbsp ']


ENV_TOKENS = ['a', 'b', 'k', 'key', '1', '2', 'x y', ',', ',', ',', '=', '=', '=', '%', '%41', '%2C', '%3D', '%25', '%20',
              '%7e', '%zz', '%4', ' ', '\t', '\x1c', '\x1f', '\x0b', '.', 'service.name', 'process.executable.name', '', '%%', '==', ',,']
ENV_TOKENS_UNMODELLED = ['é', '%C3%A9', '%FF', '\u00a0', '%80', '\u2003']


def g_agg(rng):
    """get_aggregated_resources: an initial resource and 0-4 detectors that return a resource or raise (with or
    without raise_on_error); the result is also read through to_json / == / hash / the container views"""
    dets = []
    for _ in range(rng.choice([0, 1, 2, 3, 4])):
        r = g_res(rng)
        b = rng.choice(['ok', 'ok', 'ok', 'ok', 'raise', 'raise', 'none'])     # none: detect() returns None
        dets.append({'attrs': named(r['attrs']), 'url': r['url'], 'behaviour': b,
                     'roe': b == 'raise' and rng.random() < 0.3})
    # initial None: the `initial_resource or Resource.create()` branch (no resource variables in the environment)
    return {'kind': 'agg', 'initial': None if rng.random() < 0.3 else g_res(rng), 'detectors': dets}


def g_envtext(rng):
    """the environment parser alone, on COMPOSED texts (not a menu of items): any mix of separators, escapes (valid,
    truncated, non-hex), white space and key/value fragments; DEEP_SERVICE_NAME set / empty / unset"""
    n = rng.choice([0, 1, 2, 3, 5, 8, 13, 21])
    toks = [rng.choice(ENV_TOKENS) for _ in range(n)]
    if rng.random() < 0.1:
        toks.insert(rng.randint(0, len(toks)), rng.choice(ENV_TOKENS_UNMODELLED))
    env = {}
    if rng.random() < 0.93:
        env['DEEP_RESOURCE_ATTRIBUTES'] = ''.join(toks)
    if rng.random() < 0.4:
        env['DEEP_SERVICE_NAME'] = rng.choice(['svc', '', 'my service', ' padded ', 'x=y,z', '%41'])
    return {'kind': 'env', 'env': env}


def env_unmodelled(env):
    t = env.get('DEEP_RESOURCE_ATTRIBUTES') or ''
    # = not AsciiPlain (Model/ResEnv.lean): a character >= 0x80 or a %XX escape with XX >= 0x80
    return any(ord(c) > 127 for c in t) or bool(re.search(r'%[89a-fA-F][0-9a-fA-F]', t))


def g_env(rng):
    env = {}
    unmodelled = False
    r = rng.random()
    if r < 0.8:
        items = [rng.choice(ENV_ITEMS) for _ in range(rng.choice([0, 1, 2, 3, 5, 8]))]
        if rng.random() < 0.12:
            items.insert(rng.randint(0, len(items)), rng.choice(ENV_ITEMS_UNMODELLED))
            unmodelled = True
        env['DEEP_RESOURCE_ATTRIBUTES'] = ','.join(items)
    r = rng.random()
    if r < 0.45:
        env['DEEP_SERVICE_NAME'] = rng.choice(['svc', '', 'my service', ' padded ', 'x=y,z'])
    return env, unmodelled


BLANK_SN = 'C18/empty-service-name-from-plugin'


def falsy(v):
    """is the (valid) attribute value falsy in Python?"""
    t = v['t']
    return ((t in ('str', 'ssub') and v['v'] == '') or (t in ('int', 'isub') and v['v'] == 0) or (t == 'bool' and not v['v'])
            or (t == 'float' and float(v['r']) == 0.0) or (t == 'seq' and not v['xs']) or (t == 'bytes' and v['hex'] == ''))


def blanks_service_name(kvs):
    return any(k.get('s') == 'service.name' and falsy(v) for k, v in kvs)


def named(kvs):
    """plugin attributes of the main streams never carry an EMPTY service name (that is the separate stream of
    the finding candidate C18/empty-service-name-from-plugin)"""
    return [[k, {'t': 'str', 'v': 'from-plugin'} if k.get('s') == 'service.name' and falsy(v) else v] for k, v in kvs]


def g_pen(rng):
    """process.executable.name of any valid type (its text is used in the fallback service name)"""
    return rng.choice([{'t': 'int', 'v': 5}, {'t': 'int', 'v': 0}, {'t': 'bool', 'v': True}, {'t': 'float', 'r': '1.5'},
                       {'t': 'float', 'r': '0.0'}, {'t': 'str', 'v': 'px'}, {'t': 'str', 'v': ''},
                       {'t': 'seq', 'as': 'list', 'xs': [{'t': 'int', 'v': 1}, {'t': 'none'}]},
                       {'t': 'seq', 'as': 'tuple', 'xs': [{'t': 'str', 'v': 'a'}]},
                       {'t': 'seq', 'as': 'list', 'xs': []}, codec.enc_scalar(b'exe')])


def g_create(rng):
    env, unm = g_env(rng)
    given = None if rng.random() < 0.35 else distinct_kvs(rng, rng.choice([0, 1, 2, 4]), 0.9)
    if given is not None and rng.random() < 0.35:
        given = [kv for kv in given if kv[0].get('s') != 'process.executable.name'] + \
            [[{'s': 'process.executable.name'}, g_pen(rng)]]
    plugins = [g_res(rng) for _ in range(rng.choice([0, 0, 1, 2, 3]))]
    for p in plugins:
        p['attrs'] = named(p['attrs'])
    return {'kind': 'create', 'env': env, 'unmodelled_env': unm, 'given': given,
            'url': rng.choice(URLS) if given is not None else None, 'plugins': plugins}


SCALE_TOTALS = [130, 200, 700, 2000]


def scale_kvs(prefix, n):
    return [[{'s': '%s%04d' % (prefix, i)}, {'t': 'str', 'v': 'v%d' % i}] for i in range(n)]


def g_scale(rng, total=None):
    """SCALE: a resource with 130 / 200 / 700 / 2000 distinct attributes in total, spread over the environment, the code
    dict and plugin resources (some keys shared, so precedence shows), through Resource.create + merges (fresh
    interpreter) or the real Deep.start — the mandatory keys and 'later overrides earlier' hold for EVERY size"""
    total = total or rng.choice(SCALE_TOTALS)
    n_env = min(40, total // 5)
    n_plug = rng.choice([1, 2, 3])
    via_start = rng.random() < 0.5
    n_code = 0 if via_start else total // 3
    per = (total - n_env - n_code) // n_plug + 1
    env = {'DEEP_RESOURCE_ATTRIBUTES': ','.join('e%04d=x%d' % (i, i) for i in range(n_env))}
    if rng.random() < 0.5:
        env['DEEP_SERVICE_NAME'] = 'scale-svc'
    plugins = []
    for j in range(n_plug):
        attrs = scale_kvs('p%d_' % j, per) + [[{'s': 'e0000'}, {'t': 'str', 'v': 'plugin%d' % j}]]
        plugins.append({'attrs': attrs, 'url': None})
    if via_start:
        for p in plugins:
            p.update(order=None, behaviour='ok')
        return {'kind': 'start', 'env': env, 'unmodelled_env': False, 'plugins': plugins, 'python_plugin': False,
                'scale': total}
    return {'kind': 'create', 'env': env, 'unmodelled_env': False, 'given': scale_kvs('c', n_code) +
            [[{'s': 'e0001'}, {'t': 'str', 'v': 'code'}]], 'url': None, 'plugins': plugins, 'scale': total}


def g_blank_sn(rng):
    """separate stream (finding candidate): a plugin resource whose service.name is empty / falsy"""
    c = g_create(rng) if rng.random() < 0.5 else g_start(rng)
    blank = rng.choice([{'t': 'str', 'v': ''}, {'t': 'int', 'v': 0}, {'t': 'bool', 'v': False},
                        {'t': 'seq', 'as': 'list', 'xs': []}])
    p = {'attrs': [[{'s': 'service.name'}, blank]], 'url': None}
    if c['kind'] == 'start':
        p.update(order=rng.choice([None, 0, 3]), behaviour='ok')
    c['plugins'] = c['plugins'] + [p]
    c['blank_sn'] = True
    return c


def is_noneish(x):
    return x['t'] == 'none' or (x['t'] == 'bytes' and codec.for_model(x)['dec'] is None)


def none_in_seq(kvs):
    return any(v['t'] == 'seq' and any(is_noneish(x) for x in v['xs']) for _, v in kvs)


def g_start(rng, none_seq=False):
    """none_seq: make sure a sequence attribute with a None / undecodable-bytes element reaches convert_resource
    (once a defect: convert_value(None) broke the whole poll request; fixed in /repo by 3b003de)."""
    env, unm = g_env(rng)
    plugins = []
    for i in range(rng.choice([1, 2, 3] if none_seq else [0, 1, 2, 3, 4])):
        r = g_res(rng, int64=True)
        r['attrs'] = named(r['attrs'])
        if rng.random() < 0.2:
            r['attrs'] = [kv for kv in r['attrs'] if kv[0].get('s') != 'process.executable.name'] + \
                [[{'s': 'process.executable.name'}, g_pen(rng)]]
        if none_seq and i == 0:
            r['attrs'] = r['attrs'] + [[{'s': 'tags'}, {'t': 'seq', 'as': 'list', 'xs': [
                {'t': 'str', 'v': 'a'}, rng.choice([{'t': 'none'}, codec.enc_scalar(b'\xff')])]}]]
        plugins.append({'attrs': r['attrs'], 'url': r['url'] if rng.random() < 0.3 else None,
                        'order': rng.choice([None, 0, 0, 1, 2, -1]),
                        # raise / returns None / returns a truthy dict / returns an object without .attributes / inactive
                        'behaviour': rng.choice(['ok', 'ok', 'ok', 'ok', 'ok', 'raise', 'none', 'dict', 'object', 'inactive'])})
    if len(plugins) >= 2 and rng.random() < 0.3:
        # two (or three) DIFFERENT providers with the same class name from different modules (teamtools.ResourcePlugin and
        # platformlib.ResourcePlugin): each is a configured provider, each one's resource is merged, in order
        for i in rng.sample(range(len(plugins)), rng.choice([2, 2, min(3, len(plugins))])):
            plugins[i]['cls'] = 'ResourcePlugin'
            if plugins[i]['behaviour'] == 'inactive':
                plugins[i]['behaviour'] = 'ok'
    return {'kind': 'start', 'env': env, 'unmodelled_env': unm, 'plugins': plugins,
            'python_plugin': rng.random() < 0.15}


def gen(rng, tier):
    k = 0
    while True:
        k += 1
        if k % 160 == 80:
            yield g_blank_sn(rng)
        elif k % 200 == 30:
            yield g_scale(rng, SCALE_TOTALS[(k // 200) % 4])       # 130, 200, 700, 2000 in turn
        elif k % 16 == 0:
            yield g_create(rng)
        elif k % 64 == 24:
            yield g_start(rng, none_seq=True)
        elif k % 16 == 8:
            yield g_start(rng)
        elif k % 8 == 4:
            yield g_merge(rng)
        elif k % 40 == 5:
            yield g_ctor(rng)
        elif k % 5 == 2:
            yield g_sched(rng)
        elif k % 10 == 3:
            yield g_envtext(rng)
        elif k % 20 == 9:
            yield g_agg(rng)
        else:
            yield g_ba(rng)


def S(s):
    return {'s': s}


def corpus():
    T = lambda v: {'t': 'str', 'v': v}      # noqa: E731
    I = lambda v: {'t': 'int', 'v': v}      # noqa: E731
    return [
        {'kind': 'ba', 'cap': 2, 'mvl': 3, 'init': [], 'immutable': False, 'ops': [
            {'op': 'set', 'k': S('a'), 'v': T('hello')}, {'op': 'set', 'k': S('b'), 'v': I(1)},
            {'op': 'set', 'k': S(''), 'v': I(1)},
            {'op': 'set', 'k': S('c'), 'v': {'t': 'seq', 'xs': [{'t': 'bool', 'v': True}, {'t': 'none'}], 'as': 'list'}},
            {'op': 'set', 'k': S('b'), 'v': {'t': 'seq', 'xs': [I(1), {'t': 'bool', 'v': True}], 'as': 'list'}},
            {'op': 'del', 'k': S('a')}, {'op': 'set', 'k': S('b'), 'v': codec.enc_scalar(b'xyzw')}]},
        {'kind': 'ba', 'cap': 0, 'mvl': None, 'init': [[S('a'), I(1)]], 'immutable': False, 'ops': [
            {'op': 'set', 'k': S('b'), 'v': I(2)}, {'op': 'set', 'k': {'o': '5'}, 'v': {'t': 'none'}},
            {'op': 'merge', 'kvs': [[S('x'), I(1)], [S('y'), I(2)]]}]},
        {'kind': 'ba', 'cap': 1, 'mvl': None, 'init': [[S('a'), I(1)], [S('b'), I(2)], [S('c'), I(3)]],
         'immutable': True, 'ops': [{'op': 'set', 'k': S('z'), 'v': I(2)}, {'op': 'del', 'k': S('c')},
                                    {'op': 'merge', 'kvs': []}, {'op': 'merge', 'kvs': [[S('q'), I(1)]]}]},
        # two writers of new keys into the last free slot, both at the lock before either passes it
        {'kind': 'sched', 'cap': 2, 'mvl': None, 'init': [[S('a'), I(1)]], 'immutable': False,
         'writers': [{'op': 'set', 'k': S('b'), 'v': I(2)}, {'op': 'set', 'k': S('c'), 'v': I(3)}],
         'sched': [0, 1, 0, 1]},
        {'kind': 'sched', 'cap': 1, 'mvl': None, 'init': [], 'immutable': False,
         'writers': [{'op': 'set', 'k': S('b'), 'v': I(2)}, {'op': 'set', 'k': S('c'), 'v': I(3)},
                     {'op': 'set', 'k': S('b'), 'v': I(4)}], 'sched': [0, 1, 2, 2, 1, 0]},
        {'kind': 'merge', 'chain': [{'attrs': [[S('k'), I(1)], [S('j'), I(2)]], 'url': 'http://s/1'},
                                    {'attrs': [[S('k'), I(3)], [S('bad'), {'t': 'none'}]], 'url': None},
                                    {'attrs': [[S('k'), I(4)]], 'url': 'http://s/2'}]},
        {'kind': 'create', 'env': {'DEEP_RESOURCE_ATTRIBUTES': 'a=1, b = x%20y,bad,=v,process.executable.name=px'},
         'unmodelled_env': False, 'given': None, 'url': None, 'plugins': []},
        {'kind': 'create', 'env': {'DEEP_SERVICE_NAME': 'svc', 'DEEP_RESOURCE_ATTRIBUTES': 'service.name=fromattrs'},
         'unmodelled_env': False, 'given': [[S('service.name'), T('fromcode')], [S('telemetry.sdk.name'), {'t': 'none'}]],
         'url': 'http://s/1', 'plugins': [{'attrs': [[S('service.name'), T('fromplugin')]], 'url': None}]},
        {'kind': 'start', 'env': {}, 'unmodelled_env': False, 'python_plugin': False, 'plugins': [
            {'attrs': [[S('tags'), {'t': 'seq', 'as': 'list', 'xs': [T('a'), {'t': 'none'}, codec.enc_scalar(b'\xff')]}]],
             'url': None, 'order': 0, 'behaviour': 'ok'}]},
        {'kind': 'start', 'env': {}, 'unmodelled_env': False, 'python_plugin': True, 'plugins': [
            {'attrs': [[S('p'), {'t': 'seq', 'xs': [I(1), I(2)], 'as': 'list'}]], 'url': None, 'order': 1,
             'behaviour': 'ok'},
            {'attrs': [[S('p'), T('first')]], 'url': None, 'order': 0, 'behaviour': 'ok'}]},
        # scale: more than 128 attributes in total, through both routes
    ] + [g_scale(__import__('random').Random(7), 130), g_scale(__import__('random').Random(8), 200)] + [
        # a provider that RETURNS something unmergeable (a dict) loses only its own contribution
        {'kind': 'start', 'env': {}, 'unmodelled_env': False, 'python_plugin': False, 'plugins': [
            {'attrs': [[S('first'), T('1')]], 'url': None, 'order': 0, 'behaviour': 'ok'},
            {'attrs': [[S('lost'), T('x')]], 'url': None, 'order': 1, 'behaviour': 'dict'},
            {'attrs': [[S('third'), T('3')]], 'url': None, 'order': 2, 'behaviour': 'ok'}]},
        # two different providers with the same class name (other modules): both are configured, both are merged
        {'kind': 'start', 'env': {}, 'unmodelled_env': False, 'python_plugin': False, 'plugins': [
            {'attrs': [[S('team'), T('tools')], [S('shared'), T('one')]], 'url': None, 'order': None, 'behaviour': 'ok',
             'cls': 'ResourcePlugin'},
            {'attrs': [[S('platform'), T('lib')], [S('shared'), T('two')]], 'url': None, 'order': None, 'behaviour': 'ok',
             'cls': 'ResourcePlugin'}]},
    ]


def known_replays():
    return [(BLANK_SN, 'a plugin resource with service.name = "" replaces the service name after Resource.create applied '
             'its fallback: the client resource names no service',
             {'kind': 'create', 'env': {}, 'unmodelled_env': False, 'given': None, 'url': None, 'blank_sn': True,
              'plugins': [{'attrs': [[{'s': 'service.name'}, {'t': 'str', 'v': ''}]], 'url': None}]})]


def known_finding(case, obs):
    if case['kind'] in ('create', 'start') and case.get('blank_sn') and any(
            blanks_service_name(p['attrs']) and p.get('behaviour', 'ok') == 'ok' for p in case['plugins']):
        return BLANK_SN
    return None


# --------------------------------------------------------------------------------------- implementation
def run_ba(case):
    from deep.api.attributes import BoundedAttributes
    init = codec.mk_dict(case['init'])
    try:
        ba = BoundedAttributes(case['cap'], init if case['init'] else None, case['immutable'], case['mvl'])
    except Exception as e:      # noqa: B902
        return {'ctor_raised': type(e).__name__}
    obs = {'len0': len(ba), 'dropped0': ba.dropped, 'errors': [], 'lens': [], 'droppeds': []}
    for op in case['ops']:
        err = None
        try:
            if op['op'] == 'set':
                ba[codec.mk_key(op['k'])] = codec.mk_val(op['v'])
            elif op['op'] == 'del':
                del ba[codec.mk_key(op['k'])]
            else:
                ba.merge_in(codec.mk_dict(op['kvs']))
        except Exception as e:  # noqa: B902
            err = type(e).__name__
        obs['errors'].append(err)
        obs['lens'].append(len(ba))
        obs['droppeds'].append(ba.dropped)
    obs['dict'] = codec.enc_items(ba)
    obs['dropped'] = ba.dropped
    return obs


class GatedLock:
    """stands in for BoundedAttributes._lock: a registered writer thread signals its arrival at the lock and parks
    until the schedule releases it, then takes the real lock.  Other threads just take the real lock."""

    def __init__(self, real):
        self.real = real
        self.gates = {}

    def __enter__(self):
        g = self.gates.get(threading.get_ident())
        if g is not None:
            g.parked = True
            g.arrived.release()
            if not g.release.wait(30):
                raise TimeoutError('writer was not released')
            g.release.clear()
            g.parked = False
        self.real.acquire()
        return self

    def __exit__(self, *a):
        self.real.release()
        return False

    def acquire(self, *a, **k):
        return self.real.acquire(*a, **k)

    def release(self):
        return self.real.release()


class Writer:
    def __init__(self, ba, lock, op):
        self.ba, self.lock, self.op = ba, lock, op
        self.arrived = threading.Semaphore(0)
        self.release = threading.Event()
        self.parked = False
        self.finished = False
        self.error = None
        self.thread = None

    def body(self):
        self.lock.gates[threading.get_ident()] = self
        try:
            if self.op['op'] == 'set':
                self.ba[codec.mk_key(self.op['k'])] = codec.mk_val(self.op['v'])
            elif self.op['op'] == 'merge':
                self.ba.merge_in(codec.mk_dict(self.op['kvs']))
            else:
                del self.ba[codec.mk_key(self.op['k'])]
        except Exception as e:      # noqa: B902
            self.error = type(e).__name__
        finally:
            self.finished = True
            self.arrived.release()

    def advance(self):
        if self.finished:
            return
        if self.thread is None:
            self.thread = threading.Thread(target=self.body, daemon=True)
            self.thread.start()
        else:
            self.release.set()
        if not self.arrived.acquire(timeout=30):
            raise core.Infra('schedule driver: writer did not reach its next region in 30 s')


def run_sched(case):
    from deep.api.attributes import BoundedAttributes
    init = codec.mk_dict(case['init'])
    ba = BoundedAttributes(case['cap'], init if case['init'] else None, case['immutable'], case['mvl'])
    lock = GatedLock(ba._lock)
    ba._lock = lock
    ws = [Writer(ba, lock, op) for op in case['writers']]
    for i in case['sched']:
        ws[i].advance()
    for w in ws:                    # drain what the schedule left unfinished (or never started), in writer order
        while not w.finished:
            w.advance()
    for w in ws:
        if w.thread is not None:
            w.thread.join(30)
    ba._lock = lock.real
    return {'dict': codec.enc_items(ba), 'dropped': ba.dropped, 'len': len(ba),
            'errors': [w.error for w in ws], 'ran': [w.thread is not None for w in ws]}


def run_ctor(case):
    from deep.api.attributes import BoundedAttributes
    cap = eval(case['cap_raw'], {})       # from the fixed menu of g_ctor
    try:
        BoundedAttributes(cap)
        return {'raised': None}
    except Exception as e:      # noqa: B902
        return {'raised': type(e).__name__}


def snap(r):
    return {'attrs': codec.enc_items(r.attributes), 'url': r.schema_url, 'dropped': r.attributes.dropped}


def run_merge(case):
    from deep.api.resource import Resource
    try:
        rs = [Resource(codec.mk_dict(r['attrs']), r['url']) for r in case['chain']]
        before = [snap(r) for r in rs]
        cur = rs[0]
        steps, ident, pure = [snap(cur)], [], []
        for b in rs[1:]:
            a = cur
            a0, b0 = snap(a), snap(b)
            out = a.merge(b)
            ident.append({'is_self': out is a, 'is_other': out is b,
                          'shares': (out.attributes is a.attributes or out.attributes is b.attributes
                                     or out.attributes._dict is a.attributes._dict
                                     or out.attributes._dict is b.attributes._dict)})
            pure.append(snap(a) == a0 and snap(b) == b0)
            steps.append(snap(out))
            cur = out
        try:
            cur.attributes['zz'] = 1
            frozen = False
        except TypeError:
            frozen = True
        return {'steps': steps, 'identity': ident, 'pure': pure, 'operands_unchanged': [snap(r) for r in rs] == before,
                'frozen': frozen}
    except Exception as e:      # noqa: B902
        return {'raised': f'{type(e).__name__}: {e}'}


CREATE_SCRIPT = r'''
import sys, json, logging
sys.path.insert(0, %(harness)r)
import c18_codec as codec
logging.disable(logging.CRITICAL)
case = json.load(sys.stdin)
from deep.api.resource import Resource
def snap(r):
    return {'attrs': codec.enc_items(r.attributes), 'url': r.schema_url, 'dropped': r.attributes.dropped}
try:
    if case['given'] is None:
        res = Resource.create()
    else:
        res = Resource.create(codec.mk_dict(case['given']), case['url'])
    out = {'created': snap(res)}
    for p in case['plugins']:
        res = res.merge(Resource(codec.mk_dict(p['attrs']), p['url']))
    out['final'] = snap(res)
except Exception as e:
    out = {'raised': '%%s: %%s' %% (type(e).__name__, e)}
print('\n@@' + json.dumps(out))
'''


def sub_env(extra):
    env = {'PATH': os.environ.get('PATH', '/usr/bin:/bin'), 'PYTHONPATH': core.SRC, 'HOME': os.environ.get('HOME', '/tmp'),
           'PYTHONIOENCODING': 'utf-8', 'LANG': 'C.UTF-8'}
    env.update(extra)
    return env


def run_sub(script, case, env):
    try:
        p = subprocess.run([PY, '-W', 'ignore', '-c', script], input=json.dumps(case), env=env, capture_output=True,
                           text=True, timeout=120)
    except subprocess.TimeoutExpired:
        raise core.Infra('fresh interpreter did not finish in 120 s')
    lines = [l for l in p.stdout.splitlines() if l.startswith('@@')]
    if not lines:
        return {'raised': f'interpreter exit {p.returncode}: {p.stderr.strip().splitlines()[-1:]}'}
    return json.loads(lines[-1][2:])


def run_create(case):
    return run_sub(CREATE_SCRIPT % {'harness': HARNESS}, case, sub_env(case['env']))


def any_value(v):
    f = v.WhichOneof('value')
    if f is None:
        return None
    if f == 'array_value':
        return tuple(any_value(x) for x in v.array_value.values)
    if f == 'kvlist_value':
        return {'kv': [(kv.key, any_value(kv.value)) for kv in v.kvlist_value.values]}
    return getattr(v, f)


_PLUGMOD = 'verif_c18_plugins'


def run_start(case):
    from deep.api import Deep
    from deep.api.plugin import ResourceProvider
    from deep.api.resource import Resource
    from deep.config import ConfigService
    from deep.config.tracepoint_config import TracepointConfigService
    from deep.grpc import convert_resource
    mod = types.ModuleType(_PLUGMOD)
    names = []
    mods = []
    calls = []
    for i, spec in enumerate(case['plugins']):
        def make(i=i, spec=spec):
            class P(ResourceProvider):
                def resource(self):
                    calls.append(i)
                    if spec['behaviour'] == 'raise':
                        raise RuntimeError('plugin resource failure')
                    if spec['behaviour'] == 'none':
                        return None
                    if spec['behaviour'] == 'dict':
                        return {'not': 'a resource'}       # truthy, cannot be merged
                    if spec['behaviour'] == 'object':
                        return object()
                    return Resource(codec.mk_dict(spec['attrs']), spec['url'])

                def order(self):
                    return spec['order']
            P.__name__ = P.__qualname__ = spec.get('cls') or f'P{i}'
            return P
        # one module per provider: two providers may have the SAME class name (= plugin name) in different modules
        cls = make()
        pm = types.ModuleType(f'{_PLUGMOD}_{i}')
        setattr(pm, cls.__name__, cls)
        sys.modules[pm.__name__] = pm
        mods.append(pm.__name__)
        names.append(f'{pm.__name__}.{cls.__name__}')
    sys.modules[_PLUGMOD] = mod
    custom = dict(DEFAULT_PLUGIN_OFF)
    if case.get('python_plugin'):
        custom['PLUGIN_PYTHONPLUGIN'] = 'True'
    custom['PLUGINS'] = names
    for i, spec in enumerate(case['plugins']):
        if spec['behaviour'] == 'inactive':
            custom['PLUGIN_' + (spec.get('cls') or f'P{i}').upper()] = 'False'
    saved = {k: os.environ.get(k) for k in ('DEEP_RESOURCE_ATTRIBUTES', 'DEEP_SERVICE_NAME')}
    try:
        for k in saved:
            os.environ.pop(k, None)
        os.environ.update(case['env'])
        d = Deep(ConfigService(custom, tracepoints=TracepointConfigService()))
        d.trigger_handler.start = lambda: None
        d.grpc.start = lambda: None
        d.poll.start = lambda: None
        d.start()
        res = d.config.resource
        obs = {'final': snap(res), 'calls': calls,
               'providers': [type(p).__name__ for p in d.config.resource_providers]}
        try:
            wire = convert_resource(res)
            obs['wire'] = {'dropped': wire.dropped_attributes_count,
                           'attrs': [[codec.enc_key(kv.key), codec.enc_val(any_value(kv.value))]
                                     for kv in wire.attributes]}
        except Exception as e:      # noqa: B902
            obs['wire_raised'] = f'{type(e).__name__}: {e}'
        return obs
    except Exception as e:      # noqa: B902
        return {'raised': f'{type(e).__name__}: {e}'}
    finally:
        for k, v in saved.items():
            os.environ.pop(k, None)
            if v is not None:
                os.environ[k] = v
        sys.modules.pop(_PLUGMOD, None)
        for m in mods:
            sys.modules.pop(m, None)


_ENV_KEYS = ('DEEP_RESOURCE_ATTRIBUTES', 'DEEP_SERVICE_NAME')


def run_agg(case):
    import logging as pylog
    from deep.api.resource import Resource, ResourceDetector, get_aggregated_resources
    pylog.disable(pylog.CRITICAL)
    try:
        dets = []
        for spec in case['detectors']:
            def make(spec=spec):
                class D(ResourceDetector):
                    def detect(self):
                        if spec['behaviour'] == 'raise':
                            raise RuntimeError('detector failure')
                        if spec['behaviour'] == 'none':
                            return None
                        return Resource(codec.mk_dict(spec['attrs']), spec['url'])
                return D(raise_on_error=spec['roe'])
            dets.append(make())
        saved = {k: os.environ.pop(k, None) for k in _ENV_KEYS}
        try:
            init = None if case['initial'] is None else \
                Resource(codec.mk_dict(case['initial']['attrs']), case['initial']['url'])
            init0 = None if init is None else snap(init)
            try:
                res = get_aggregated_resources(dets, init)
            except RuntimeError as e:
                return {'reraised': str(e), 'initial_unchanged': init is None or snap(init) == init0}
            except AttributeError as e:
                return {'not_resource': str(e), 'initial_unchanged': init is None or snap(init) == init0}
        finally:
            for k, v in saved.items():
                if v is not None:
                    os.environ[k] = v
        a = res.attributes
        same = Resource(dict(a), res.schema_url)
        other = Resource(dict(a, **{'zz-other': 1}), res.schema_url)
        views = {'len': len(a), 'iter': [codec.enc_key(k) for k in a], 'copy_keys': [codec.enc_key(k) for k in a.copy()],
                 'items_agree': all(a[k] is a.copy()[k] or a[k] == a.copy()[k] for k in a),     # (nan != nan) 'copy_is_plain': type(a.copy()).__name__,
                 'copy_detached': a.copy() is not a._dict}
        return {'final': snap(res), 'initial_unchanged': init is None or snap(init) == init0, 'views': views,
                'json': json.dumps(json.loads(res.to_json()), sort_keys=True),
                'json_expected': json.dumps(json.loads(json.dumps({'attributes': dict(a), 'schema_url': res.schema_url})),
                                            sort_keys=True),
                'eq_same': res == same, 'hash_same': hash(res) == hash(same), 'eq_other': res == other,
                'eq_foreign': res == 'x'}
    except Exception as e:      # noqa: B902
        return {'raised': f'{type(e).__name__}: {e}'}
    finally:
        pylog.disable(pylog.NOTSET)


def oracle_agg(case, obs):
    if 'raised' in obs:
        return ['get_aggregated_resources raised: ' + obs['raised']]
    v = []
    # the first detector that ends the aggregation: a re-raising one, or one whose result is not a resource
    ender = next((d for d in case['detectors'] if (d['behaviour'] == 'raise' and d['roe']) or d['behaviour'] == 'none'), None)
    reraise = ender is not None and ender['behaviour'] == 'raise'
    if ('reraised' in obs) != reraise:
        return [f'exception of a detector {"not " if reraise else ""}re-raised (raise_on_error={reraise})']
    if not obs['initial_unchanged']:
        v.append('the initial resource was modified')
    if ender is not None:
        return v        # (a non-resource result: the statement does not say; recorded, compared with the model)
    cur = ref_create(dict(case, env={}, given=None, url=None)) if case['initial'] is None else \
        ref_resource(case['initial']['attrs'], case['initial']['url'])
    for d in case['detectors']:
        nxt = ref_resource(d['attrs'], d['url']) if d['behaviour'] == 'ok' else {'items': [], 'url': ''}
        cur, _ = ref_merge(cur, nxt)
    if as_dict(obs['final']['attrs']) != as_dict(enc_ref(cur)) or obs['final']['url'] != cur['url']:
        v.append('aggregated resource is not initial < detector 1 < detector 2 … (a failed detector contributing nothing)')
    w = obs['views']
    n = len(obs['final']['attrs'])
    if not (w['len'] == n == len(w['iter']) == len(w['copy_keys']) and w['iter'] == w['copy_keys'] and w['items_agree']):
        v.append(f'len / iteration / copy of the attributes disagree: {w}')
    if not w['copy_detached']:
        v.append('copy() hands out the container\'s own storage')
    if obs['json'] != obs['json_expected']:
        v.append(f'to_json {obs["json"]} is not the attributes and schema url {obs["json_expected"]}')
    if not (obs['eq_same'] and obs['hash_same']) or obs['eq_other'] or obs['eq_foreign']:
        v.append(f'resource identity: equal contents must be == with equal hash, different contents / foreign objects '
                 f'not (==same {obs["eq_same"]}, hash {obs["hash_same"]}, ==other {obs["eq_other"]}, ==str {obs["eq_foreign"]})')
    check_clean(obs['final']['attrs'], None, v)
    return v


def run_env(case):
    """DeepResourceDetector().detect() in-process under the generated values of the two variables"""
    import logging as pylog
    saved = {k: os.environ.get(k) for k in _ENV_KEYS}
    pylog.disable(pylog.CRITICAL)
    try:
        for k in _ENV_KEYS:
            os.environ.pop(k, None)
        os.environ.update(case['env'])
        from deep.api.resource import DeepResourceDetector
        r = DeepResourceDetector().detect()
        return {'attrs': [[k, v if isinstance(v, str) else {'nonstr': repr(v)}] for k, v in r.attributes.items()],
                'dropped': r.attributes.dropped, 'url': r.schema_url}
    except Exception as e:      # noqa: B902
        return {'raised': f'{type(e).__name__}: {e}'}
    finally:
        pylog.disable(pylog.NOTSET)
        for k, v in saved.items():
            os.environ.pop(k, None)
            if v is not None:
                os.environ[k] = v


def oracle_env(case, obs):
    """from the statement: the detector never fails on any text; it yields the `k=v` items (first "=", stripped,
    value unquoted, later item wins), DEEP_SERVICE_NAME over a service.name item; only valid keys are kept"""
    if 'raised' in obs:
        return ['the environment detector raised: ' + obs['raised']]
    exp = {k: v for k, v in ref_detect(case['env']).items() if k}
    got = {k: v for k, v in obs['attrs']}
    v = []
    if got != exp:
        v.append(f'detected attributes {got}, expected {exp} for {case["env"]}')
    if len(got) != len(obs['attrs']):
        v.append('a key is stored twice')
    if obs['url'] != '':
        v.append(f'detected resource has schema url {obs["url"]!r}')
    return v


def run_impl(case):
    core.use_repo()
    return {'agg': run_agg, 'env': run_env, 'ba': run_ba, 'ctor': run_ctor, 'merge': run_merge, 'create': run_create, 'start': run_start,
            'sched': run_sched}[case['kind']](case)


# --------------------------------------------------------------------------------------- reference (from the statement)
def ref_scalar(x, mvl):
    """(valid, cleaned) for a non-sequence value"""
    if isinstance(x, bool) or (isinstance(x, (int, float)) and not isinstance(x, bool)):
        return True, x
    if isinstance(x, bytes):
        try:
            x = x.decode()
        except UnicodeDecodeError:
            return False, None
    if isinstance(x, str):
        return True, (x if mvl is None else x[:mvl])
    return False, None


def ref_clean(key, val, mvl):
    if not isinstance(key, str) or key == '':
        return False, None
    if isinstance(val, (list, tuple)):
        out, kinds = [], set()
        for e in val:
            if e is None:
                out.append(None)
                continue
            ok, c = ref_scalar(e, mvl)
            if not ok:
                if isinstance(e, bytes):        # undecodable bytes element counts as None (ASSUMPTIONS)
                    out.append(None)
                    continue
                return False, None
            if type(c) not in (bool, int, float, str):     # exact type (a subclass instance is not an element type)
                return False, None
            kinds.add(type(c))
            out.append(c)
        if len(kinds) > 1:
            return False, None
        return True, tuple(out)
    return ref_scalar(val, mvl)


class Ref:
    def __init__(self, cap, mvl):
        self.cap, self.mvl, self.items, self.dropped, self.frozen = cap, mvl, [], 0, False

    def set(self, k, v):
        if self.frozen:
            return 'TypeError'
        if self.cap == 0:
            self.dropped += 1
            return None
        ok, c = ref_clean(k, v, self.mvl)
        if not ok:
            return None
        self.items = [(a, b) for a, b in self.items if a != k] + [(k, c)]
        while self.cap is not None and len(self.items) > self.cap:
            self.items.pop(0)
            self.dropped += 1
        return None

    def delete(self, k):
        if self.frozen:
            return 'TypeError'
        if not any(isinstance(k, str) and a == k for a, _ in self.items):
            return 'KeyError'
        self.items = [(a, b) for a, b in self.items if a != k]
        return None

    def merge(self, d):
        for k, v in d.items():
            e = self.set(k, v)
            if e:
                return e
        return None

    def enc(self):
        return codec.strip_repr([[codec.enc_key(k), codec.enc_val(v)] for k, v in self.items])


def ref_resource(attrs, url):
    r = Ref(None, None)
    r.merge(codec.mk_dict(attrs))
    return {'items': r.items, 'url': url or ''}


def ref_merge(a, b):
    """later overrides earlier key by key; schema rule of the documentation; None = refused (old one returned)"""
    if a['url'] == '':
        url = b['url']
    elif b['url'] == '' or a['url'] == b['url']:
        url = a['url']
    else:
        return a, True
    items = list(a['items'])
    for k, v in b['items']:
        pos = [i for i, (kk, _) in enumerate(items) if kk == k]
        if pos:
            items[pos[0]] = (k, v)
        else:
            items.append((k, v))
    return {'items': items, 'url': url}, False


def enc_ref(r):
    return codec.strip_repr([[codec.enc_key(k), codec.enc_val(v)] for k, v in r['items']])


def ref_detect(env):
    out = {}
    items = env.get('DEEP_RESOURCE_ATTRIBUTES')
    if items:
        for item in items.split(','):
            if '=' not in item:
                continue
            k, _, v = item.partition('=')
            out[k.strip()] = urllib.parse.unquote(v.strip())
    if env.get('DEEP_SERVICE_NAME'):
        out['service.name'] = env['DEEP_SERVICE_NAME']
    return out


def sdk_version():
    m = re.search(r'__version__\s*=\s*["\']([^"\']+)', open(os.path.join(core.SRC, 'deep/version.py')).read())
    return m.group(1) if m else None


def ref_create(case):
    dflt = {'items': [('telemetry.sdk.language', 'python'), ('telemetry.sdk.name', 'deep'),
                      ('telemetry.sdk.version', sdk_version())], 'url': ''}
    det = ref_detect(case['env'])
    r, _ = ref_merge(dflt, ref_resource([[codec.enc_key(k), codec.enc_val(v)] for k, v in det.items()], None))
    given = case.get('given')
    r, _ = ref_merge(r, ref_resource(given or [], case.get('url')))
    d = dict(r['items'])
    if not d.get('service.name'):
        pen = d.get('process.executable.name')
        fb = {'items': [('service.name', 'unknown_service:' + (str(pen) if pen else 'python'))],
              'url': case.get('url') or ''}
        r, _ = ref_merge(r, fb)
    return r


def as_dict(enc):
    return {json.dumps(k, sort_keys=True): v for k, v in codec.strip_repr(enc)}


# --------------------------------------------------------------------------------------- judging
def check_clean(enc_items, mvl, v):
    for k, val in enc_items:
        if 's' not in k or k['s'] == '':
            v.append(f'stored key is not a non-empty str: {k}')
        elems = val['xs'] if val['t'] == 'seq' else [val]
        if val['t'] == 'seq' and val.get('as') != 'tuple':
            v.append(f'sequence value of {k} is stored as {val.get("as")}, not frozen')
        kinds = set()
        for e in elems:
            if e['t'] == 'none' and val['t'] == 'seq':
                continue
            if e['t'] not in ('str', 'bool', 'int', 'float'):
                v.append(f'stored value of {k} contains {e["t"]}')
            kinds.add(e['t'])
            if e['t'] == 'str' and mvl is not None and len(e['v']) > mvl:
                v.append(f'stored text of {k} is longer than max_value_len={mvl}')
        if len(kinds) > 1:
            v.append(f'stored sequence of {k} mixes {sorted(kinds)}')


def oracle_ba(case, obs):
    v = []
    if 'ctor_raised' in obs:
        return ['constructor raised ' + obs['ctor_raised']]
    cap = case['cap']
    ref = Ref(cap, case['mvl'])
    ref.merge(codec.mk_dict(case['init']))
    ref.frozen = case['immutable']
    if obs['len0'] != len(ref.items) or obs['dropped0'] != ref.dropped:
        v.append(f'after construction: {obs["len0"]} stored / {obs["dropped0"]} dropped, expected '
                 f'{len(ref.items)} / {ref.dropped}')
    for i, op in enumerate(case['ops']):
        before = (list(ref.items), ref.dropped)
        if op['op'] == 'set':
            e = ref.set(codec.mk_key(op['k']), codec.mk_val(op['v']))
        elif op['op'] == 'del':
            e = ref.delete(codec.mk_key(op['k']))
        else:
            e = ref.merge(codec.mk_dict(op['kvs']))
        if cap is not None and obs['lens'][i] > cap:
            v.append(f'after op {i} the container holds {obs["lens"][i]} > capacity {cap}')
        if obs['errors'][i] != e:
            if case['immutable'] and e == 'TypeError':
                v.append(f'op {i} ({op["op"]}) on a frozen container was not refused (got {obs["errors"][i]})')
            else:
                v.append(f'op {i} ({op["op"]}): raised {obs["errors"][i]}, expected {e}')
        if case['immutable'] and (ref.items, ref.dropped) != before:
            v.append('reference changed while frozen (harness error)')
        if obs['droppeds'][i] != ref.dropped:
            v.append(f'after op {i}: dropped counter {obs["droppeds"][i]}, every drop counted gives {ref.dropped}')
        if len(v) > 3:
            break
    check_clean(obs['dict'], case['mvl'], v)
    if codec.strip_repr(obs['dict']) != ref.enc():
        got = [k for k, _ in codec.strip_repr(obs['dict'])]
        exp = [k for k, _ in ref.enc()]
        if got != exp:
            v.append(f'stored keys (oldest first) {got}, expected the newest {cap} valid distinct ones: {exp}')
        else:
            v.append('stored values differ from the cleaned values of the last assignments')
    if obs['dropped'] != ref.dropped:
        v.append(f'dropped = {obs["dropped"]}, expected {ref.dropped}')
    return v


def writer_items(w):
    """the item-level operations of a writer, in its own order"""
    if w['op'] == 'merge':
        return [('set', codec.mk_key(k), codec.mk_val(v)) for k, v in w['kvs']]
    if w['op'] == 'set':
        return [('set', codec.mk_key(w['k']), codec.mk_val(w['v']))]
    return [('del', codec.mk_key(w['k']), None)]


def serial_outcomes(case):
    """every outcome (contents in order, dropped, exception per writer) of running the writers' item-level writes in
    SOME order that keeps each writer's own order (merge_in is not atomic: it assigns item by item)."""
    progs = [writer_items(w) for w in case['writers']]
    ref0 = Ref(case['cap'], case['mvl'])
    ref0.merge(codec.mk_dict(case['init']))
    ref0.frozen = case['immutable']
    out = set()
    seen = set()

    def go(items, dropped, pos, errs):
        key = (codec.canon_items(items), dropped, pos, errs)
        if key in seen:
            return
        seen.add(key)
        moved = False
        for i, prog in enumerate(progs):
            if pos[i] < len(prog) and errs[i] is None:
                moved = True
                ref = Ref(case['cap'], case['mvl'])
                ref.items, ref.dropped, ref.frozen = list(items), dropped, case['immutable']
                op, k, v = prog[pos[i]]
                e = ref.set(k, v) if op == 'set' else ref.delete(k)
                go(ref.items, ref.dropped, pos[:i] + (pos[i] + 1,) + pos[i + 1:], errs[:i] + (e,) + errs[i + 1:])
        if not moved:
            ref = Ref(case['cap'], case['mvl'])
            ref.items = list(items)
            out.add((json.dumps(ref.enc(), sort_keys=True), dropped, errs))
    go(ref0.items, ref0.dropped, tuple(0 for _ in progs), tuple(None for _ in progs))
    return out


def oracle_sched(case, obs):
    """never more than the capacity; and the outcome (contents in order, dropped, exceptions) is that of SOME serial
    order of the item-level writes (which evicts oldest first and counts every drop)."""
    v = []
    cap = case['cap']
    if cap is not None and obs['len'] > cap:
        v.append(f'{obs["len"]} entries in a container of capacity {cap} after concurrent writes')
    got = (json.dumps(codec.strip_repr(obs['dict']), sort_keys=True), obs['dropped'], tuple(obs['errors']))
    serials = serial_outcomes(case)
    if got not in serials:
        v.append(f'outcome {[k for k, _ in codec.strip_repr(obs["dict"])]} dropped={got[1]} errors={list(got[2])} is not '
                 f'the outcome of any serial order of the writes; serial outcomes: '
                 f'{sorted(set((json.dumps([k for k, _ in json.loads(s[0])]), s[1]) for s in serials))[:4]}')
    check_clean(obs['dict'], case['mvl'], v)
    return v


def oracle_ctor(case, obs):
    cap = eval(case['cap_raw'], {})
    bad = cap is not None and (not isinstance(cap, int) or cap < 0)
    if bad and obs['raised'] != 'ValueError':
        return [f'BoundedAttributes(max_length={case["cap_raw"]}) accepted (raised {obs["raised"]})']
    if not bad and obs['raised'] is not None:
        return [f'BoundedAttributes(max_length={case["cap_raw"]}) raised {obs["raised"]}']
    return []


def oracle_merge(case, obs):
    if 'raised' in obs:
        return ['merge raised: ' + obs['raised']]
    v = []
    refs = [ref_resource(r['attrs'], r['url']) for r in case['chain']]
    cur = refs[0]
    if codec.strip_repr(obs['steps'][0]['attrs']) != enc_ref(cur):
        v.append('Resource(...) does not hold the cleaned valid attributes it was given')
    for i, b in enumerate(refs[1:]):
        nxt, refused = ref_merge(cur, b)
        got = obs['steps'][i + 1]
        if as_dict(got['attrs']) != as_dict(enc_ref(nxt)):
            da, db = as_dict(got['attrs']), as_dict(enc_ref(nxt))
            bad = sorted(k for k in set(da) | set(db) if da.get(k) != db.get(k))
            v.append(f'merge {i}: keys {bad[:4]} do not have "later overrides earlier" values')
        if got['url'] != nxt['url']:
            v.append(f'merge {i}: schema url {got["url"]!r}, expected {nxt["url"]!r}')
        if not obs['pure'][i]:
            v.append(f'merge {i} modified one of its operands')
        idt = obs['identity'][i]
        if idt['is_other'] or (idt['is_self'] and not refused):
            v.append(f'merge {i} returned an operand instead of a new resource')
        if idt['shares'] and not idt['is_self']:
            v.append(f'merge {i}: the result shares its attribute storage with an operand')
        cur = nxt
    if not obs['operands_unchanged']:
        v.append('an operand of the chain changed')
    if not obs['frozen']:
        v.append('attributes of the merged resource accept modifications')
    for st in obs['steps']:
        check_clean(st['attrs'], None, v)
    return v


def oracle_created(case, created, final, plugin_refs, v):
    exp = ref_create(case)
    for k in SDK_KEYS + ['service.name']:
        if json.dumps({'s': k}, sort_keys=True) not in as_dict(created['attrs']):
            v.append(f'created resource lacks {k}')
        if json.dumps({'s': k}, sort_keys=True) not in as_dict(final['attrs']):
            v.append(f'final resource lacks {k}')
    if as_dict(created['attrs']) != as_dict(enc_ref(exp)):
        da, db = as_dict(created['attrs']), as_dict(enc_ref(exp))
        bad = sorted(k for k in set(da) | set(db) if da.get(k) != db.get(k))
        v.append(f'Resource.create: keys {bad[:4]} differ from defaults < environment < code (+ service name fallback): '
                 f'got {[da.get(k) for k in bad[:2]]} expected {[db.get(k) for k in bad[:2]]}')
    sn = dict(as_dict(created['attrs'])).get(json.dumps({'s': 'service.name'}, sort_keys=True))
    cur = exp
    for p in plugin_refs:
        cur, _ = ref_merge(cur, p)
    if as_dict(final['attrs']) != as_dict(enc_ref(cur)):
        da, db = as_dict(final['attrs']), as_dict(enc_ref(cur))
        bad = sorted(k for k in set(da) | set(db) if da.get(k) != db.get(k))
        v.append(f'final resource: keys {bad[:4]} differ from "plugins merged in order, later overrides earlier"')
    if final['url'] != cur['url']:
        v.append(f'final schema url {final["url"]!r}, expected {cur["url"]!r}')
    check_named(created, 'created', v)
    check_named(final, 'final', v)
    check_clean(final['attrs'], None, v)
    return sn


def check_named(res, what, v):
    """"always contains … a service name": present and not empty"""
    sn = as_dict(res['attrs']).get(json.dumps({'s': 'service.name'}, sort_keys=True))
    if sn is not None and falsy(dict(sn, hex='x') if sn['t'] == 'bytes' else sn):
        v.append(f'{what} resource has an empty service name: {sn}')


def oracle_create(case, obs):
    if 'raised' in obs:
        return ['Resource.create raised: ' + obs['raised']]
    v = []
    oracle_created(case, obs['created'], obs['final'], [ref_resource(p['attrs'], p['url']) for p in case['plugins']], v)
    return v


def start_order(case):
    """indices of the plugins whose resource is merged, in the order Deep.start merges them (statement: plugin
    order = load order, stably sorted by order())."""
    return [i for i in start_sequence(case) if i != 'py']


def start_sequence(case):
    """the same with the built-in PythonPlugin ('py', loaded before the custom plugins, order 0) when it is active"""
    act = ([('py', {'order': 0})] if case.get('python_plugin') else []) + \
        [(i, p) for i, p in enumerate(case['plugins']) if p['behaviour'] != 'inactive']
    act.sort(key=lambda ip: ip[1]['order'] or 0)
    return [i for i, _ in act]


def python_plugin_resource():
    import platform
    return [[{'s': 'python_version'}, {'t': 'str', 'v': platform.python_version()}]]


def oracle_start(case, obs):
    if 'raised' in obs:
        return ['Deep.start raised: ' + obs['raised']]
    v = []
    order = start_order(case)
    if obs['calls'] != order:
        v.append(f'providers asked in order {obs["calls"]}, expected {order}')
    prefs = [ref_resource(python_plugin_resource(), None) if i == 'py' else
             ref_resource(case['plugins'][i]['attrs'], case['plugins'][i]['url'])
             for i in start_sequence(case) if i == 'py' or case['plugins'][i]['behaviour'] == 'ok']
    c = dict(case, given=None, url=None)
    vv = []
    exp = ref_create(c)
    for p in prefs:
        exp, _ = ref_merge(exp, p)
    if as_dict(obs['final']['attrs']) != as_dict(enc_ref(exp)):
        da, db = as_dict(obs['final']['attrs']), as_dict(enc_ref(exp))
        bad = sorted(k for k in set(da) | set(db) if da.get(k) != db.get(k))
        vv.append(f'client resource: keys {bad[:4]} differ from defaults < environment < plugins in order')
    for k in SDK_KEYS + ['service.name']:
        if json.dumps({'s': k}, sort_keys=True) not in as_dict(obs['final']['attrs']):
            vv.append(f'client resource lacks {k}')
    check_named(obs['final'], 'client', vv)
    if 'wire_raised' in obs:
        vv.append('the client resource cannot be converted for the poll request: ' + obs['wire_raised'])
    else:
        if codec.strip_repr(obs['wire']['attrs']) != codec.strip_repr(obs['final']['attrs']):
            vv.append('resource in the poll request differs from the client resource')
        if obs['wire']['dropped'] != obs['final']['dropped']:
            vv.append('dropped_attributes_count on the wire differs from the dropped counter')
    return v + vv


def oracle(case, obs):
    return {'agg': oracle_agg, 'env': oracle_env, 'ba': oracle_ba, 'ctor': oracle_ctor, 'merge': oracle_merge, 'create': oracle_create,
            'start': oracle_start, 'sched': oracle_sched}[case['kind']](case, obs)


# --------------------------------------------------------------------------------------- model
def m_kvs(kvs):
    return codec.for_model(kvs)


def has_subclass_value(x):
    if isinstance(x, dict):
        return x.get('t') in ('isub', 'ssub') or any(has_subclass_value(v) for v in x.values())
    if isinstance(x, list):
        return any(has_subclass_value(v) for v in x)
    return False


def model_request(case, obs):
    k = case['kind']
    if k == 'env':
        if 'raised' in obs or env_unmodelled(case['env']):
            return None     # escapes >= 0x80 / non-ASCII white space: outside the modelled unquote/strip, oracle only
        return {'kind': 'create', 'ra': case['env'].get('DEEP_RESOURCE_ATTRIBUTES'),
                'sn': case['env'].get('DEEP_SERVICE_NAME'), 'given': None, 'url': None, 'plugins': []}
    if has_subclass_value(case):
        return None         # instances of subclasses of int/str: outside the model (ASSUMPTIONS), judged by the oracle
    if k == 'ba':
        ops = []
        for op in case['ops']:
            if op['op'] == 'merge':
                ops.append({'op': 'merge', 'kvs': m_kvs(op['kvs'])})
            elif op['op'] == 'set':
                ops.append({'op': 'set', 'k': op['k'], 'v': codec.for_model(op['v'])})
            else:
                ops.append({'op': 'del', 'k': op['k']})
        return {'kind': 'ba', 'cap': case['cap'], 'mvl': case['mvl'], 'init': m_kvs(case['init']),
                'immutable': case['immutable'], 'ops': ops}
    if k == 'sched':
        ws = [{'op': 'set', 'k': w['k'], 'v': codec.for_model(w['v'])} if w['op'] == 'set' else
              {'op': 'merge', 'kvs': m_kvs(w['kvs'])} if w['op'] == 'merge' else
              {'op': 'del', 'k': w['k']} for w in case['writers']]
        # one advance of a real writer = (pass the lock with the item it was parked for, then) run to the next
        # arrival at the lock: two regions of the model except for its first advance
        steps, started = [], set()
        drain = [i for i, w in enumerate(case['writers']) for _ in range(2 * n_items(w) + 2)]
        for i in list(case['sched']) + drain:
            steps += [i] if i not in started else [i, i]
            started.add(i)
        return {'kind': 'sched', 'cap': case['cap'], 'mvl': case['mvl'], 'init': m_kvs(case['init']),
                'immutable': case['immutable'], 'writers': ws, 'sched': steps}
    if k == 'agg':
        if 'raised' in obs:
            return None
        return {'kind': 'agg', 'base': None if case['initial'] is None else
                {'attrs': m_kvs(case['initial']['attrs']), 'url': case['initial']['url']},
                'dets': [{'ok': {'attrs': m_kvs(d['attrs']), 'url': d['url']}} if d['behaviour'] == 'ok'
                         else {'notResource': True} if d['behaviour'] == 'none'
                         else {'fails': d['roe']} for d in case['detectors']]}
    if k == 'merge':
        return {'kind': 'merge', 'chain': [{'attrs': m_kvs(r['attrs']), 'url': r['url']} for r in case['chain']]}
    if k in ('create', 'start'):
        if case.get('unmodelled_env') or case.get('scale', 0) > 800:
            return None     # (2000 attributes: the list-based model is quadratic; judged by the oracle only)
        if k == 'create':
            plugins = [{'attrs': m_kvs(p['attrs']), 'url': p['url']} for p in case['plugins']]
            given = None if case['given'] is None else m_kvs(case['given'])
            url = case['url']
        else:
            plugins = [{'attrs': python_plugin_resource(), 'url': None} if i == 'py' else
                       {'attrs': m_kvs(case['plugins'][i]['attrs']), 'url': case['plugins'][i]['url']}
                       for i in start_sequence(case) if i == 'py' or case['plugins'][i]['behaviour'] == 'ok']
            given, url = None, None
        return {'kind': 'create', 'ra': case['env'].get('DEEP_RESOURCE_ATTRIBUTES'),
                'sn': case['env'].get('DEEP_SERVICE_NAME'), 'given': given, 'url': url, 'plugins': plugins}
    return None


def compare(case, obs, resp):
    if 'error' in resp:
        return ['model error: ' + resp['error']]
    k = case['kind']
    d = []
    if k == 'env':
        m = [[kv[0].get('s'), kv[1].get('v')] for kv in resp['detected']]
        if m != obs['attrs']:       # order included: the translated loop stores in item order
            d.append(f'detected: model {m} vs implementation {obs["attrs"]}')
        return d
    if k == 'sched':
        for f in ('dropped', 'errors'):
            if resp[f] != obs[f]:
                d.append(f'{f}: model {resp[f]} vs implementation {obs[f]}')
        if resp['dict'] != codec.for_model(codec.strip_repr(obs['dict'])):
            d.append(f'dict: model {resp["dict"]} vs implementation {codec.strip_repr(obs["dict"])}')
        return d
    if k == 'ba':
        if 'ctor_raised' in obs:
            return ['implementation constructor raised ' + obs['ctor_raised']]
        for f in ('dropped', 'errors', 'len0', 'dropped0'):
            if resp[f] != obs[f]:
                d.append(f'{f}: model {resp[f]} vs implementation {obs[f]}')
        if resp['dict'] != codec.for_model(codec.strip_repr(obs['dict'])):
            d.append(f'dict: model {resp["dict"]} vs implementation {codec.strip_repr(obs["dict"])}')
        return d
    if 'raised' in obs:
        if 'raised' in resp and obs['raised'].startswith(resp['raised']):
            return []
        return ['implementation raised, model does not: ' + obs['raised']]
    if k == 'agg':
        if ('raised' in resp) != ('reraised' in obs or 'not_resource' in obs) or \
                (resp.get('raised') == 'AttributeError') != ('not_resource' in obs):
            return [f'model {resp} vs implementation {obs}']
        if 'raised' in resp:
            return []
        m, o = resp['final'], obs['final']
        if m['attrs'] != codec.for_model(codec.strip_repr(o['attrs'])) or m['url'] != o['url']:
            d.append(f'aggregated: model {m} vs implementation {codec.strip_repr(o)}')
        return d
    if 'raised' in resp:
        return ['model raises ' + resp['raised'] + ', implementation does not']
    if k == 'merge':
        for i, (m, o) in enumerate(zip(resp['steps'], obs['steps'])):
            if m['attrs'] != codec.for_model(codec.strip_repr(o['attrs'])) or m['url'] != o['url']:
                d.append(f'step {i}: model {m} vs implementation {codec.strip_repr(o)}')
        return d
    for f in (['created', 'final'] if k == 'create' else ['final']):
        m, o = resp[f], obs[f]
        if m['attrs'] != codec.for_model(codec.strip_repr(o['attrs'])) or m['url'] != o['url']:
            d.append(f'{f}: model {m} vs implementation {codec.strip_repr(o)}')
    return d


# --------------------------------------------------------------------------------------- reporting
def label(case, obs):
    k = case['kind']
    if k == 'env':
        t = case['env'].get('DEEP_RESOURCE_ATTRIBUTES')
        return 'env/' + ('unset' if t is None else 'empty' if t == '' else 'unmodelled' if env_unmodelled(case['env'])
                         else 'text') + ('+name' if case['env'].get('DEEP_SERVICE_NAME') else '')
    if k == 'ba':
        cap = case['cap']
        c = 'capNone' if cap is None else ('cap0' if cap == 0 else 'capN')
        if case['immutable']:
            return f'ba/{c}/frozen'
        ev = obs.get('dropped', 0) > 0
        return f'ba/{c}/' + ('dropped' if ev else 'nodrop')
    if k == 'sched':
        runs = [i for j, i in enumerate(case['sched']) if j == 0 or case['sched'][j - 1] != i]
        overlap = len(runs) != len(set(runs))         # some writer resumes after another one moved
        merge = any(w['op'] == 'merge' and len(w['kvs']) > 1 for w in case['writers'])
        cap = case['cap']
        return f'sched/{len(case["writers"])}w/' + ('overlap' if overlap else 'serial') + ('/merge_in' if merge else '') + \
            ('/cap0' if cap == 0 else '/capNone' if cap is None else '/full' if len(case['init']) >= cap else '/room')
    if k == 'agg':
        return 'agg/' + ('initial-none/' if case['initial'] is None else '') + (
            'reraised' if 'reraised' in obs else 'not-a-resource' if 'not_resource' in obs else 'failed-detector' if any(
            d['behaviour'] == 'raise' for d in case['detectors']) else 'ok')
    if k == 'merge':
        refused = any(i.get('is_self') for i in obs.get('identity', []))
        return 'merge/' + ('schema-conflict' if refused else 'ok')
    if k == 'ctor':
        return 'ctor'
    if 'raised' in obs:
        return k + '/raised'
    sn = as_dict(obs['final']['attrs']).get(json.dumps({'s': 'service.name'}, sort_keys=True), {})
    fb = str(sn.get('v', '')).startswith('unknown_service')
    if case.get('scale'):
        return f'{k}/scale-{case["scale"]}'
    return f'{k}/' + ('fallback' if fb else 'named') + ('/unmodelled-env' if case.get('unmodelled_env') else '') \
        + ('/none-in-seq' if k == 'start' and any(none_in_seq(p['attrs']) for p in case['plugins']) else '')


def nontrivial(case, obs):
    k = case['kind']
    if k == 'env':
        # something kept and something skipped / overwritten / unquoted
        t = case['env'].get('DEEP_RESOURCE_ATTRIBUTES') or ''
        return bool(obs.get('attrs')) and (len(obs['attrs']) < len(t.split(',')) or '%' in t)
    if k == 'ba':
        return obs.get('dropped', 0) > 0 or any(obs.get('errors', [])) or \
            len(obs.get('dict', [])) < len([o for o in case['ops'] if o['op'] == 'set'])
    if k == 'sched':
        return label(case, obs).split('/')[2] == 'overlap'
    if k == 'agg':
        return len(case['detectors']) > 1
    if k == 'merge':
        return len(obs.get('steps', [])) > 1
    if k == 'ctor':
        return obs.get('raised') is not None
    return bool(case['env']) or bool(case.get('plugins'))


def shrink(case):
    if case['kind'] == 'agg':
        ds = case['detectors']
        for i in range(len(ds)):
            yield dict(case, detectors=ds[:i] + ds[i + 1:])
        return
    if case['kind'] == 'env':
        t = case['env'].get('DEEP_RESOURCE_ATTRIBUTES')
        if t:
            for i in range(len(t)):
                yield dict(case, env=dict(case['env'], DEEP_RESOURCE_ATTRIBUTES=t[:i] + t[i + 1:]))
        if 'DEEP_SERVICE_NAME' in case['env']:
            yield dict(case, env={k: v for k, v in case['env'].items() if k != 'DEEP_SERVICE_NAME'})
        return
    if case['kind'] == 'ba':
        ops = case['ops']
        for i in range(len(ops)):
            if len(ops) > 1:
                yield dict(case, ops=ops[:i] + ops[i + 1:])
        if case['init']:
            yield dict(case, init=[])
            for i in range(len(case['init'])):
                yield dict(case, init=case['init'][:i] + case['init'][i + 1:])
        for i, op in enumerate(ops):
            if op['op'] == 'merge' and len(op['kvs']) > 1:
                for j in range(len(op['kvs'])):
                    yield dict(case, ops=ops[:i] + [dict(op, kvs=op['kvs'][:j] + op['kvs'][j + 1:])] + ops[i + 1:])
    elif case['kind'] == 'sched':
        ws = case['writers']
        if len(ws) > 2:
            for i in range(len(ws)):
                ren = {j: (j if j < i else j - 1) for j in range(len(ws)) if j != i}
                yield dict(case, writers=ws[:i] + ws[i + 1:], sched=[ren[j] for j in case['sched'] if j != i])
        for i in range(len(case['init'])):
            yield dict(case, init=case['init'][:i] + case['init'][i + 1:])
        for i, w in enumerate(ws):
            if w['op'] == 'merge' and len(w['kvs']) > 1:
                for j in range(len(w['kvs'])):
                    sc = list(case['sched'])
                    for _ in (0, 1):
                        if i in sc:
                            sc.reverse(); sc.remove(i); sc.reverse()
                    yield dict(case, writers=ws[:i] + [dict(w, kvs=w['kvs'][:j] + w['kvs'][j + 1:])] + ws[i + 1:],
                               sched=sc)
        for i, w in enumerate(ws):
            if w['op'] == 'set' and w['v'] != {'t': 'int', 'v': 1}:
                yield dict(case, writers=ws[:i] + [dict(w, v={'t': 'int', 'v': 1})] + ws[i + 1:])
    elif case['kind'] == 'merge':
        ch = case['chain']
        for i in range(len(ch)):
            if len(ch) > 2:
                yield dict(case, chain=ch[:i] + ch[i + 1:])
        for i, r in enumerate(ch):
            for j in range(len(r['attrs'])):
                yield dict(case, chain=ch[:i] + [dict(r, attrs=r['attrs'][:j] + r['attrs'][j + 1:])] + ch[i + 1:])
    elif case['kind'] in ('create', 'start'):
        ps = case['plugins']
        for i in range(len(ps)):
            yield dict(case, plugins=ps[:i] + ps[i + 1:])
        if case['env']:
            for k in list(case['env']):
                e = dict(case['env'])
                del e[k]
                yield dict(case, env=e)
            ra = case['env'].get('DEEP_RESOURCE_ATTRIBUTES')
            if ra and ',' in ra:
                items = ra.split(',')
                for i in range(len(items)):
                    yield dict(case, env=dict(case['env'], DEEP_RESOURCE_ATTRIBUTES=','.join(items[:i] + items[i + 1:])))
        if case.get('given'):
            yield dict(case, given=[])
