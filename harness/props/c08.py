"""C08 — wire fidelity (snapshot -> protobuf, bytes) and auth metadata on every poll / snapshot request.

Streams
  snapshot   a generated host function (real frames, run under sys.settrace with the real TriggerHandler) whose locals
             are generated object graphs; the REAL collector produces the EventSnapshot (watches incl. failing ones,
             log message, decorator attributes incl. tuple-valued, resource attributes); the real convert_snapshot
             converts it; the message is compared field by field with an expectation built independently from the
             snapshot, serialised and parsed back, and compared with the model's message;
  value      attribute values through the real BoundedAttributes and the real convert_value;
  auth       generated auth configurations (no provider / "" / BasicAuthProvider with, without, partial credentials /
             a custom provider class / a provider name that cannot be loaded: nothing may be sent) x sequences of LongPoll.poll and PushService._push_task on a fake channel that
             records request + metadata keyword, and (1 in 5) through the real GRPCService channel to an in-process
             loopback gRPC server that records what really arrives;
             (the tracepoint is configured as the service does it - a protobuf TracePointConfig through the real
             convert_response - as a line tracepoint, a METHOD tracepoint (FunctionLocation, line -1) or a capture-stage
             one; the collected snapshot also goes through the real PushService._push_task on a channel that serialises
             and parses back: the message that ARRIVES is judged)
  scale      snapshots built directly as EventSnapshot objects: well past 4 MiB on the wire (6000 x 1024-char values),
             past 2^16 table entries, and small ones, all with numeric fields at 2^31-1 / 2^31 / 2^31+1 / 2^32-1 /
             2^63-1 / 2^63 / 2^64-1, through the real PushService._push_task and parsed back: every table entry must
             arrive, no id may dangle, every field equals the snapshot's (small ones also go to the model, bytes included);
  tpline     the line number a line / method tracepoint reports and whether an (empty) snapshot of it is sent;
  wirebytes  "survives serialisation", beyond what an encoder writes: the real bytes of a converted snapshot with a
             structured change (unknown fields of every wire type inserted, records reordered, a singular scalar
             repeated - last wins, a padded varint, truncation at a random byte, invalid UTF-8 appended), parsed by the
             real runtime and by the Lean model's decoder: same verdict, same message;
             (and in the snapshot / value streams the real bytes of EVERY case go to the model: it must decode them to
             the converted message, re-encode what it decoded to the same bytes, and encode the converted message -
             map entries in the real serialiser's order - to the same bytes)
  labelled known-finding streams: lone surrogate in a text, attribute int beyond int64, auth provider whose token
             rotates between operations (constant providers stay in the main judged stream).  (None inside a sequence
             attribute is judged normally: it must arrive as an empty value at its position.)
"""
import base64
import json
import math
import struct
import sys
import threading
import time

import core
from rig import Rig, run_traced

ID = 'C08'
EXTRACT = ['wire', 'wirecodec']
LEAN_TARGETS = ['DeepModel.Props.C08']
AUDIT = 'DeepModel/Audit/C08.lean'
DRIVER = 'DeepModel/Driver/C08.lean'
BUDGET = {'quick': 1200, 'thorough': 25000}
TIME = {'quick': 75, 'thorough': 800}
RULE = ('snapshot: 1-7 generated locals (ints incl. > 64 bit, floats incl. nan/inf, bools, None, str incl. non-BMP and '
        'longer than the string limit, bytes, nested list/tuple/set/dict, objects with public/_protected/__private '
        'attributes, exceptions, shared and self-referential values, a `self`, an object whose mangled private `_Ab` and public `b` '
        'hold the same object - two child references equal in id / name / modifiers and different in original_name), 1-2 real frames of generated code, '
        'tracepoint kind line / METHOD (1 in 6) / capture stage, configured through convert_response, frame_type single/all/none, 0-3 watches (valid, failing, large), optional log message with fields, 0-4 '
        'decorator attributes and 0-3 resource attributes (str/bool/int/float/bytes/list/tuple values); value: '
        'values through BoundedAttributes + convert_value; auth: provider {none, "", basic, custom} x credentials '
        '{both, one, none} x 1-5 poll/push operations; wirebytes: the real bytes of a converted snapshot (0-4 variables, '
        '0-2 caller frames, time stamp 0 / 1 / now / 2^64-1, log message unset / empty / text, 0-3 attributes) after one '
        'of {1-5 unknown fields of wire type 0/1/2/5 with field numbers up to 2^29-1, records reordered, an earlier '
        'occurrence of a singular scalar, padded varints, truncation at a random byte, invalid UTF-8 appended}. '
        'scale: 0-70000 table entries x 1-9000-character values (2 cases past 4 MiB / 2^16 entries in the corpus, 2 more per '
        'quick run), numeric fields drawn from the uint32 / uint64 / int64 boundaries. Non-trivial snapshot = at least 5 table entries and (a failing '
        'watch or a truncated value or a tuple attribute or non-BMP text). Known-finding instances only in the '
        'labelled streams. Distinct = distinct canonical JSON of the case.')
TRUSTED = ['protobuf runtime: a str field accepts exactly text without surrogates, int fields their range; the RECEIVING '
           'runtime parses the wire format as the Lean decoder does (proved: decode(encode m) = m for the Lean codec '
           'generated from the installed descriptors; compared byte for byte with the local upb runtime on every case, '
           'both directions, plus unknown fields / reordering / repeated scalars / padded varints / truncation / invalid '
           'UTF-8, a repeated map key, both members of a oneof, over-long enum varints). Deviations of the Lean decoder on '
           'bytes no encoder writes: the list in Model/WireBytes.lean (10-byte varint / 2 GiB limits, groups, merging, '
           'repeated map key, junk map entry, negative enum, wrong-wire-type oneof member)',
           'gRPC: metadata passed to a stub call is what is sent (fake channel records the keyword argument)',
           'CPython frames / sys.settrace deliver the generated locals to the collector']
ASSUMPTIONS = ['tracepoint args are Dict[str, str] as typed (a non-str arg value cannot enter map<string,string>)',
               'snapshot ids are 128-bit, time stamps are time_ns() (the model names these `collectable`)',
               'the metadata cache of GRPCService is not invalidated (configuration fixed per run)']

GEN_FILE = '/app/gen_host.py'


# ------------------------------------------------------------------------------------------ encodings shared with the driver
def has_surrogate(s):
    return any(0xD800 <= ord(c) <= 0xDFFF for c in s)


def T(s):
    """text as the driver prints it: a JSON string when valid text, else the code points"""
    if s is None:
        return None
    if has_surrogate(s) or any(c in '\x85\u2028\u2029' for c in s):
        return {'cp': [ord(c) for c in s]}       # (the raw line separators would split the driver's output lines)
    return s


def fbits(x):
    return struct.unpack('>Q', struct.pack('>d', x))[0]


def pyval(v):
    """an attribute value as the driver reads it: by Python type, an instance of a subclass of int / str / float /
    bytes (IntEnum, str-Enum, ...) is the scalar it is"""
    if type(v) not in (bool, str, int, float, bytes) and not isinstance(v, (tuple, list, dict)) and v is not None:
        if isinstance(v, bool):
            return {'t': 'bool', 'v': bool(v)}
        if isinstance(v, int):
            return {'t': 'int', 'v': int.__index__(v)}
        if isinstance(v, str):
            return {'t': 'str', 'v': T(str.__getitem__(v, slice(None)))}
        if isinstance(v, float):
            return {'t': 'float', 'v': fbits(float.__float__(v))}
        if isinstance(v, bytes):
            return {'t': 'bytes', 'v': list(v)}
    if v is None:
        return {'t': 'none'}
    if type(v) is bool:
        return {'t': 'bool', 'v': v}
    if type(v) is str:
        return {'t': 'str', 'v': T(v)}
    if type(v) is int:
        return {'t': 'int', 'v': v}
    if type(v) is float:
        return {'t': 'float', 'v': fbits(v)}
    if type(v) is bytes:
        return {'t': 'bytes', 'v': list(v)}
    if type(v) is tuple:
        return {'t': 'tuple', 'v': [pyval(x) for x in v]}
    if type(v) is list:
        return {'t': 'list', 'v': [pyval(x) for x in v]}
    if type(v) is dict:
        return {'t': 'dict', 'v': [[T(str(k)), pyval(x)] for k, x in v.items()]}
    return {'t': 'other', 'v': type(v).__name__}


def dump_vid(v):
    if v is None:
        return None
    return {'vid': T(v.vid), 'name': T(v.name), 'original_name': T(v.original_name),
            'modifiers': [T(m) for m in (v.modifiers or [])]}


def dump_snapshot(s):
    """the snapshot as an independent reader of the EventSnapshot object sees it"""
    tp = s.tracepoint
    return {
        'id': s.id,
        'tracepoint': {'id': T(tp.id), 'path': T(tp.path), 'line_no': tp.line_no,
                       'args': [[T(k), T(v)] for k, v in tp.args.items()], 'watches': [T(w) for w in tp.watches]},
        'var_lookup': [[T(k), {'type': T(v.type), 'value': T(v.value), 'hash': T(v.hash),
                               'children': [dump_vid(c) for c in v.children], 'truncated': bool(v.truncated)}]
                       for k, v in s.var_lookup.items()],
        'ts_nanos': s.ts_nanos,
        'frames': [{'file_name': T(f.file_name), 'short_path': T(f.short_path), 'method_name': T(f.method_name),
                    'line_number': f.line_number, 'class_name': T(f.class_name), 'is_async': bool(f.is_async),
                    'column_number': f.column_number, 'transpiled_file_name': T(f.transpiled_file_name),
                    'transpiled_line_number': f.transpiled_line_number,
                    'transpiled_column_number': f.transpiled_column_number,
                    'variables': [dump_vid(v) for v in f.variables], 'app_frame': bool(f.app_frame)}
                   for f in s.frames],
        'watches': [{'expression': T(w.expression), 'result': dump_vid(w.result), 'error': T(w.error),
                     'source': T(w.source)} for w in s.watches],
        'attributes': [[T(k), pyval(v)] for k, v in s.attributes.items()],
        'duration_nanos': s.duration_nanos,
        'resource': [[T(k), pyval(v)] for k, v in s.resource.attributes.items()],
        'log_msg': T(s.log_msg),
    }


def dump_any(a, present=True):
    if not present:
        return {'f': 'pyNone'}
    w = a.WhichOneof('value')
    if w is None:
        return {'f': 'unset-member'}
    v = getattr(a, w)
    if w == 'string_value':
        return {'f': w, 'v': T(v)}
    if w == 'double_value':
        return {'f': w, 'v': fbits(v)}
    if w == 'bytes_value':
        return {'f': w, 'v': list(v)}
    if w == 'array_value':
        return {'f': w, 'v': [dump_any(x) for x in v.values]}
    if w == 'kvlist_value':
        return {'f': w, 'v': [[T(kv.key), dump_any(kv.value, kv.HasField('value'))] for kv in v.values]}
    return {'f': w, 'v': v}


SKIP_FIELDS = {'TracePointConfig': ('metrics',)}


def dump_msg(m):
    """a protobuf message, generically from its descriptor, in the shape the driver prints"""
    d = m.DESCRIPTOR
    if d.name == 'KeyValue':
        return [T(m.key), dump_any(m.value, m.HasField('value'))]
    out = {}
    for f in d.fields:
        if f.name in SKIP_FIELDS.get(d.name, ()):
            continue
        v = getattr(m, f.name)
        if f.message_type is not None and f.message_type.GetOptions().map_entry:
            vf = f.message_type.fields_by_name['value']
            out[f.name] = sorted(([T(k), dump_msg(x) if vf.message_type is not None else T(x)] for k, x in v.items()),
                                 key=lambda kv: json.dumps(kv[0]))
        elif f.is_repeated:
            out[f.name] = [dump_msg(x) if f.message_type is not None else scalar(f, x) for x in v]
        elif f.message_type is not None:
            out[f.name] = dump_msg(v) if m.HasField(f.name) else None
        elif f.has_presence:
            out[f.name] = scalar(f, v) if m.HasField(f.name) else None
        else:
            out[f.name] = scalar(f, v)
    return out


def scalar(f, v):
    if f.type == 9:
        return T(v)
    if f.type == 12:
        return list(v)
    if f.type == 1:
        return fbits(v)
    return v


WATCH_SOURCES = {'WATCH': 0, 'LOG': 1, 'METRIC': 2, 'CAPTURE': 3}       # tracepoint.proto enum WatchSource


def expect_any(v, inside=False):
    t = v['t']
    if t == 'bool':
        return {'f': 'bool_value', 'v': v['v']}
    if t == 'str':
        return {'f': 'string_value', 'v': v['v']}
    if t == 'int':
        return {'f': 'int_value', 'v': v['v']}
    if t == 'float':
        return {'f': 'double_value', 'v': v['v']}
    if t == 'bytes':
        return {'f': 'bytes_value', 'v': v['v']}
    if t in ('tuple', 'list'):
        return {'f': 'array_value', 'v': [expect_any(x, True) for x in v['v']]}
    if t == 'dict':
        return {'f': 'kvlist_value', 'v': [[k, expect_any(x)] for k, x in v['v']]}
    if t == 'none' and inside:
        return {'f': 'unset-member'}            # a None inside a sequence keeps its position as an empty AnyValue
    return {'f': 'cannot-be-sent:' + t}


def expect_vid(v):
    if v is None:
        return None
    return {'ID': v['vid'], 'name': v['name'], 'modifiers': v['modifiers'], 'original_name': v['original_name']}


def expect_msg(sd):
    """the message the statement asks for, from the snapshot alone (tracepoint.proto field names)"""
    tp = sd['tracepoint']
    return {
        'ID': list(int(sd['id']).to_bytes(16, 'big')),
        'tracepoint': {'ID': tp['id'], 'path': tp['path'], 'line_number': tp['line_no'],
                       'args': sorted(tp['args'], key=lambda kv: json.dumps(kv[0])), 'watches': tp['watches'],
                       'targeting': []},
        'var_lookup': sorted(([k, {'type': v['type'], 'value': v['value'], 'hash': v['hash'],
                                   'children': [expect_vid(c) for c in v['children']], 'truncated': v['truncated']}]
                              for k, v in sd['var_lookup']), key=lambda kv: json.dumps(kv[0])),
        'ts_nanos': sd['ts_nanos'],
        'frames': [{'file_name': f['file_name'], 'method_name': f['method_name'], 'line_number': f['line_number'],
                    'class_name': f['class_name'], 'is_async': f['is_async'], 'column_number': f['column_number'],
                    'transpiled_file_name': f['transpiled_file_name'],
                    'transpiled_line_number': f['transpiled_line_number'],
                    'transpiled_column_number': f['transpiled_column_number'],
                    'variables': [expect_vid(v) for v in f['variables']], 'app_frame': f['app_frame'],
                    'native_frame': None, 'short_path': f['short_path']} for f in sd['frames']],
        'watches': [{'expression': w['expression'], 'good_result': expect_vid(w['result']),
                     'error_result': w['error'], 'from_metric': None,
                     'source': WATCH_SOURCES.get(w['source'] if isinstance(w['source'], str) else None)}
                    for w in sd['watches']],
        'attributes': [[k, expect_any(v)] for k, v in sd['attributes']],
        'duration_nanos': sd['duration_nanos'],
        'resource': [[k, expect_any(v)] for k, v in sd['resource']],
        'log_msg': sd['log_msg'],
    }


def canon_msg(m):
    """map fields have no order on the wire: sort them"""
    if m is None:
        return None
    m = dict(m)
    if m.get('tracepoint'):
        tp = dict(m['tracepoint'])
        tp['args'] = sorted(tp['args'], key=lambda kv: json.dumps(kv[0]))
        m['tracepoint'] = tp
    m['var_lookup'] = sorted(m['var_lookup'], key=lambda kv: json.dumps(kv[0]))
    return m


def diff(a, b, path=''):
    """first differences between two JSON values: list of 'path: got X expected Y'"""
    if type(a) is not type(b) and not (isinstance(a, (int, float)) and isinstance(b, (int, float))):
        return [f'{path or "message"}: got {json.dumps(a)[:160]} expected {json.dumps(b)[:160]}']
    if isinstance(a, dict):
        out = []
        for k in sorted(set(a) | set(b)):
            if k not in a:
                out.append(f'{path}.{k}: missing, expected {json.dumps(b[k])[:120]}')
            elif k not in b:
                out.append(f'{path}.{k}: unexpected {json.dumps(a[k])[:120]}')
            else:
                out += diff(a[k], b[k], f'{path}.{k}')
            if len(out) > 4:
                break
        return out
    if isinstance(a, list):
        if len(a) != len(b):
            return [f'{path}: {len(a)} entries, expected {len(b)}']
        out = []
        for i, (x, y) in enumerate(zip(a, b)):
            out += diff(x, y, f'{path}[{i}]')
            if len(out) > 4:
                break
        return out
    if a != b:
        return [f'{path}: got {json.dumps(a)[:160]} expected {json.dumps(b)[:160]}']
    return []


# ------------------------------------------------------------------------------------------ materialising generated values
class Pt:
    pass


class A:
    """an object whose name-mangled private attribute `_Ab` is shown as `b` (correct_names strips `_A`) next to a public
    `b`: two child references that agree on id, name and modifiers and differ ONLY in original_name"""

    def __init__(self, v):
        self.__dict__['_Ab'] = v
        self.__dict__['b'] = v
        self.__dict__['_Ac'] = [v]
        self.__dict__['c'] = 3


class Slotted:
    __slots__ = ('a', 'b')

    def __init__(self):
        self.a, self.b = 1, 'two'


JOB_EXC = {'CancelledError': None, 'KeyboardInterrupt': KeyboardInterrupt, 'SystemExit': SystemExit,
           'GeneratorExit': GeneratorExit}


def job_factory(exc, msg):
    """a callable whose result cannot be turned into text: `__str__` raises a BaseException (message may be empty)"""
    import asyncio
    cls = asyncio.CancelledError if exc == 'CancelledError' else JOB_EXC[exc]

    class Job:
        def __str__(self):
            raise cls(msg) if msg else cls()

    def current_job():
        return Job()
    return current_job


def mat(spec, top):
    k = spec['k']
    if k == 'jobfactory':
        return job_factory(spec['exc'], spec['msg'])
    if k == 'int':
        return spec['v']
    if k == 'float':
        return {'nan': math.nan, 'inf': math.inf, '-inf': -math.inf}.get(spec['v'], spec['v']) \
            if isinstance(spec['v'], str) else float(spec['v'])
    if k == 'bool':
        return spec['v']
    if k == 'none':
        return None
    if k == 'str':
        return spec['v']
    if k == 'bytes':
        return bytes(spec['v'])
    if k in ('list', 'tuple', 'set'):
        items = [mat(x, top) for x in spec['v']]
        if k == 'list':
            return items
        if k == 'tuple':
            return tuple(items)
        try:
            return set(items)
        except TypeError:
            return items
    if k == 'dict':
        d = {}
        for ks, vs in spec['v']:
            key = mat(ks, top)
            try:
                d[key] = mat(vs, top)
            except TypeError:
                d[str(key)] = mat(vs, top)
        return d
    if k == 'obj':
        o = Pt()
        for n, vs in spec['attrs']:
            setattr(o, n, mat(vs, top))
        return o
    if k == 'slotted':
        return Slotted()
    if k == 'collide':
        return A(mat(spec['v'], top))
    if k == 'exc':
        return ValueError(spec['msg'])
    if k == 'ref':
        return top[spec['i'] % len(top)] if top else None
    if k == 'cycle':
        lst = [1]
        lst.append(lst)
        return lst
    raise ValueError(k)


import enum as _enum
import http as _http


class Color(str, _enum.Enum):
    RED = 'red'
    EMPTY = ''
    UNI = 'é😀'


class Level(_enum.StrEnum):
    HIGH = 'high'


class Prio(_enum.IntEnum):
    LOW = -3
    TOP = 2 ** 40


class Ratio(float):
    pass


class Label(str):
    pass


class Count(int):
    pass


SUBCLASS_VALUES = {
    'HTTPStatus.OK': lambda: _http.HTTPStatus.OK, 'HTTPStatus.NOT_FOUND': lambda: _http.HTTPStatus.NOT_FOUND,
    'Color.RED': lambda: Color.RED, 'Color.EMPTY': lambda: Color.EMPTY, 'Color.UNI': lambda: Color.UNI,
    'Level.HIGH': lambda: Level.HIGH, 'Prio.LOW': lambda: Prio.LOW, 'Prio.TOP': lambda: Prio.TOP,
    'Ratio(0.25)': lambda: Ratio(0.25), 'Ratio(inf)': lambda: Ratio('inf'), 'Label(tag é)': lambda: Label('tag é'),
    'Count(7)': lambda: Count(7), 'Count(-1)': lambda: Count(-1),
}


def mat_attr(v):
    """attribute specs are plain JSON: lists stay lists (BoundedAttributes freezes them), {'tuple': [...]} a tuple,
    {'bytes': [...]} bytes, {'float': 'nan'} special floats"""
    if isinstance(v, dict):
        if 'tuple' in v:
            return tuple(mat_attr(x) for x in v['tuple'])
        if 'bytes' in v:
            return bytes(v['bytes'])
        if 'float' in v:
            return {'nan': math.nan, 'inf': math.inf, '-inf': -math.inf}[v['float']]
        if 'sub' in v:
            return SUBCLASS_VALUES[v['sub']]()          # an instance of a SUBCLASS of int / str / float
    if isinstance(v, list):
        return [mat_attr(x) for x in v]
    return v


_host_cache = {}


def host_functions(names, nested, capture=False):
    """compile `host(__v)` with the given local names (and `outer` calling it when nested); returns (fn, marker line).
    capture: the marker line is the `return` itself, so a capture-stage snapshot completes on the return event"""
    key = (tuple(names), nested, capture)
    if key in _host_cache:
        return _host_cache[key]
    lines = ['def host(__v):']
    for i, n in enumerate(names):
        lines.append(f'    {n} = __v[{i}]')
    if capture:
        lines.append('    return len(__v)')
        marker = len(lines)
    else:
        lines.append('    marker = len(__v)')
        marker = len(lines)
        lines.append('    return marker')
    lines.append('def outer(__v):')
    lines.append('    kept = [len(__v), "outer local"]')
    lines.append('    return host(__v) + len(kept)')
    ns = {}
    exec(compile('\n'.join(lines) + '\n', GEN_FILE, 'exec'), ns)
    _host_cache[key] = (ns['outer'] if nested else ns['host'], marker)
    return _host_cache[key]


def make_deco(attrs):
    from deep.api.plugin import SnapshotDecorator
    from deep.api.attributes import BoundedAttributes

    class CaseDecorator(SnapshotDecorator):
        def decorate(self, snapshot_id, context):
            b = BoundedAttributes(immutable=False)
            for k, v in attrs:
                b[k] = mat_attr(v)
            return b
    return CaseDecorator()


def triggers_from_response(tp_id, path, line, args, watches):
    """the tracepoint as the service configures it: a protobuf TracePointConfig of a poll response, through the real
    deep.grpc.convert_response"""
    from deep.grpc import convert_response
    from deepproto.proto.tracepoint.v1.tracepoint_pb2 import TracePointConfig as PbTp
    try:
        pb = PbTp(ID=tp_id, path=path, line_number=line, args=args, watches=watches)
    except (UnicodeError, ValueError):
        # text no poll response can carry (the labelled lone-surrogate stream puts it into a watch / log message):
        # configured directly, as the unit tests do
        from deep.api.tracepoint.trigger import build_trigger
        return build_trigger(tp_id, path, line, dict(args), list(watches), [])
    trigs = convert_response([pb])
    return trigs[0] if len(trigs) == 1 else None


def push_and_parse(snapshot):
    """the real PushService._push_task on a channel that serialises the request (as gRPC does) and parses the bytes
    back (as the service does): (message that arrived or None, hex of the bytes sent)"""
    from deep.config import ConfigService
    from deep.config.tracepoint_config import TracepointConfigService
    from deep.grpc import GRPCService
    from deep.push.push_service import PushService
    from deepproto.proto.tracepoint.v1.tracepoint_pb2 import Snapshot
    rec = []
    grpc = GRPCService(ConfigService({}, tracepoints=TracepointConfigService()))
    grpc.channel = FakeChannel(rec)
    PushService(grpc, None)._push_task(snapshot)
    if not rec:
        return None, None
    return dump_msg(Snapshot.FromString(rec[-1]['data'])), rec[-1]['data'].hex()


def collect_snapshot(case):
    """run the generated host under the real handler; returns the EventSnapshot (or None)"""
    from deep.api.tracepoint.trigger import build_trigger
    from deep.api.resource import Resource
    rig = Rig(plugins=[make_deco(case['attrs'])])
    try:
        rig.config.resource = Resource({k: mat_attr(v) for k, v in case['resource']})
        fn, marker = host_functions(case['names'], case['nested'], bool(case.get('capture')))
        rig.clock = time.time_ns()      # the frame collector measures its time budget against the real clock
        args = dict(case['args'])
        if case.get('method'):
            args['method_name'] = 'host'       # a METHOD tracepoint: bound to the function, it has no line number
        trig = triggers_from_response(case['tp_id'], 'gen_host.py', 0 if case.get('method') else marker, args,
                                      list(case['watches']))
        if trig is None:
            return None
        if case.get('capture'):
            # a capture-stage snapshot (only reachable through a directly constructed action, as in the unit tests):
            # it is completed on the `return` event and records the returned value with source CAPTURE
            from deep.api.tracepoint.trigger import LocationAction, Trigger, LineLocation, Location
            acts = [LocationAction(a.id, a.condition, dict(a.config, stage='line_capture'), a.action_type)
                    for a in trig.actions]
            trig = Trigger(LineLocation('gen_host.py', marker, Location.Position.CAPTURE), acts)
        rig.install([trig])
        vals = []
        for spec in case['locals']:
            vals.append(mat(spec, vals))
        import deep.api.tracepoint.eventsnapshot as es
        orig_now = es.time_ns
        if case.get('clock_back'):
            # the wall clock steps back between the hit and EventSnapshot.complete() (NTP correction, VM resume)
            es.time_ns = lambda: rig.clock - int(case['clock_back'])
        try:
            res = run_traced(rig.handler, fn, vals)
        finally:
            es.time_ns = orig_now
        if 'exc' in res:
            raise core.Infra(f'generated host raised: {res["exc"]!r}')
        return rig.push.pushed[0] if rig.push.pushed else None
    finally:
        rig.close()


def convert_and_dump(snapshot):
    from deep.push import convert_snapshot
    from deepproto.proto.tracepoint.v1.tracepoint_pb2 import Snapshot
    obs = {'snapshot': dump_snapshot(snapshot)}
    try:
        m = convert_snapshot(snapshot)
    except BaseException as e:  # noqa: B902
        obs['raised'] = f'{type(e).__name__}: {e}'
        return obs
    if m is None:
        obs['msg'] = None
        return obs
    obs['msg'] = dump_msg(m)
    try:
        data = m.SerializeToString()
        back = Snapshot.FromString(data)
        obs['bytes_ok'] = (back == m) and dump_msg(back) == obs['msg']
        obs['bytes'] = len(data)
        obs['hex'] = data.hex()
    except BaseException as e:  # noqa: B902
        obs['bytes_ok'] = False
        obs['bytes_error'] = f'{type(e).__name__}: {e}'
    return obs


def run_snapshot(case):
    s = collect_snapshot(case)
    if s is None:
        return {'collected': False}
    obs = convert_and_dump(s)
    obs['collected'] = True
    try:
        obs['arrived'], obs['arrived_hex'] = push_and_parse(s)
    except BaseException as e:  # noqa: B902
        obs['arrived'], obs['push_raised'] = None, f'{type(e).__name__}: {e}'
    return obs


def run_value(case):
    from deep.api.attributes import BoundedAttributes
    from deep.grpc import convert_value
    from deepproto.proto.common.v1.common_pb2 import KeyValue
    v = mat_attr(case['v'])
    obs = {}
    if case.get('bounded', True):
        b = BoundedAttributes(immutable=False)
        b['k'] = v
        if 'k' not in b:
            return {'held': False}
        v = b['k']
    obs['held'] = True
    obs['stored'] = pyval(v)
    try:
        a = convert_value(v)
        kv = KeyValue(key='k', value=a)
        obs['any'] = dump_any(kv.value, kv.HasField('value'))
        obs['bytes_ok'] = KeyValue.FromString(kv.SerializeToString()) == kv
        obs['hex'] = kv.SerializeToString().hex()
    except BaseException as e:  # noqa: B902
        obs['raised'] = f'{type(e).__name__}: {e}'
    return obs


class TokenProvider:
    """custom auth provider class (loaded by name through AuthProvider.get_provider)"""

    def __init__(self, config):
        self._config = config

    def provide(self):
        if self._config.C08_MD_FORM == 'none':
            Script.returns.append('NONE')          # a provider that answers None
            return None
        md = [tuple(kv) for kv in json.loads(self._config.C08_MD)]
        Script.returns.append([list(kv) for kv in md])
        return tuple(md) if self._config.C08_MD_FORM == 'tuple' else md


class Script:
    """what ScriptedProvider does on each call (one script per run_auth)"""
    calls = 0
    raised = 0
    epoch = 0                # advanced by the harness between operations: a rotating provider's token of the moment
    rotate = False
    returns = []             # what provide() actually returned, call by call (TokenProvider and ScriptedProvider)
    fail_first = 0
    gate_first = False
    md = []
    entered = threading.Event()
    release = threading.Event()

    @classmethod
    def current(cls):
        """what the provider supplies NOW: its configured metadata; when it rotates, the token of the current epoch"""
        if cls.rotate:
            return [('authorization', 'Bearer token-%d' % cls.epoch)] + [kv for kv in cls.md if kv[0] != 'authorization']
        return list(cls.md)

    @classmethod
    def reset(cls, cfg, gate):
        cls.calls = 0
        cls.raised = 0
        cls.returns = []
        cls.epoch = 0
        cls.rotate = bool(cfg.get('rotate'))
        cls.fail_first = int(cfg.get('fail_first') or 0)
        cls.gate_first = gate
        cls.md = [tuple(kv) for kv in (cfg.get('custom_md') or [])]
        cls.entered = threading.Event()
        cls.release = threading.Event()


class ScriptedProvider:
    """auth provider that cannot supply its token the first `fail_first` times it is asked (token not available yet),
    and can be parked inside provide() on its first call (forced two-thread schedule)"""

    def __init__(self, config):
        self._config = config

    def provide(self):
        Script.calls += 1
        n = Script.calls
        if n <= Script.fail_first:
            Script.raised += 1
            raise IOError('token is not available yet (call %d)' % n)
        if n == 1 and Script.gate_first:
            Script.entered.set()
            if not Script.release.wait(30):
                raise core.Infra('provider gate was never released')
        md = Script.current()
        Script.returns.append([list(kv) for kv in md])
        return md


class FakeChannel:
    def __init__(self, rec):
        self.rec = rec

    def unary_unary(self, path, request_serializer=None, response_deserializer=None, **kw):
        def call(request, *a, **kwargs):
            from deepproto.proto.poll.v1.poll_pb2 import PollResponse, ResponseType
            from deepproto.proto.tracepoint.v1.tracepoint_pb2 import SnapshotResponse
            data = request_serializer(request) if request_serializer else request.SerializeToString()
            self.rec.append({'path': path, 'request': request, 'bytes': len(data), 'data': data,
                             'metadata': ([list(kv) for kv in kwargs['metadata']] if 'metadata' in kwargs
                                          and kwargs['metadata'] is not None else None),
                             'has_metadata_kw': 'metadata' in kwargs})
            if 'Poll' in path or 'poll' in path:
                return PollResponse(response_type=ResponseType.NO_CHANGE, ts_nanos=1)
            return SnapshotResponse()
        return call


_loopback = {}
DEFAULT_MD = {'user-agent', 'grpc-accept-encoding', 'accept-encoding', 'content-type', 'te', 'grpc-timeout',
              'grpc-encoding'}


def loopback():
    """an in-process gRPC server on 127.0.0.1 recording what really arrives (method, metadata, request)"""
    if _loopback:
        return _loopback
    from concurrent import futures
    import grpc
    from deepproto.proto.poll.v1 import poll_pb2, poll_pb2_grpc
    from deepproto.proto.tracepoint.v1 import tracepoint_pb2, tracepoint_pb2_grpc
    seen = []

    def md(context):
        return [[k, v] for k, v in context.invocation_metadata() if k not in DEFAULT_MD]

    class Poll(poll_pb2_grpc.PollConfigServicer):
        def poll(self, request, context):
            seen.append({'request': request, 'metadata': md(context), 'has_metadata_kw': True, 'bytes': 0})
            return poll_pb2.PollResponse(response_type=poll_pb2.ResponseType.NO_CHANGE, ts_nanos=1)

    class Snap(tracepoint_pb2_grpc.SnapshotServiceServicer):
        def send(self, request, context):
            seen.append({'request': request, 'metadata': md(context), 'has_metadata_kw': True, 'bytes': 0})
            return tracepoint_pb2.SnapshotResponse()
    server = grpc.server(futures.ThreadPoolExecutor(max_workers=2))
    poll_pb2_grpc.add_PollConfigServicer_to_server(Poll(), server)
    tracepoint_pb2_grpc.add_SnapshotServiceServicer_to_server(Snap(), server)
    port = server.add_insecure_port('127.0.0.1:0')
    if not port:
        raise core.Infra('cannot bind a loopback port for the gRPC server')
    server.start()
    _loopback.update(server=server, port=port, seen=seen)
    return _loopback


def all_source_watches(tag):
    """a watch result and a watch error for EVERY source the agent defines (eventsnapshot.WATCH_SOURCE_*)"""
    from deep.api.tracepoint import eventsnapshot as es
    out = []
    for name in sorted(k for k in vars(es) if k.startswith('WATCH_SOURCE_')):
        src = getattr(es, name)
        out.append(es.WatchResult(src, 'ok_%s_%s' % (src, tag), es.VariableId('1', 'r_%s' % src)))
        out.append(es.WatchResult(src, 'bad_%s_%s' % (src, tag), None, 'error from %s' % src))
    return out


def hand_snapshot(spec):
    """a small real EventSnapshot for the push path (attributes from the spec)"""
    from deep.api.tracepoint import EventSnapshot, TracePointConfig, StackFrame, Variable, VariableId, WatchResult
    from deep.api.resource import Resource
    s = EventSnapshot(TracePointConfig(spec['tp_id'], 'a.py', 3, {'fire_count': '1'}, ['x'], []), spec['ts'],
                      Resource({k: mat_attr(v) for k, v in spec['resource']}),
                      [StackFrame('/app/a.py', 'a.py', 'fn', 3, [VariableId('1', 'x')], None, app_frame=True)],
                      {'1': Variable('int', '5', '99', [], False)})
    s.add_watch_result(WatchResult('WATCH', 'x', VariableId('1', 'x')))
    for w in all_source_watches(spec['tp_id']):
        s.add_watch_result(w)
    for k, v in spec['attrs']:
        s.attributes[k] = mat_attr(v)
    s.complete()
    return s


def run_auth(case):
    from deep.config import ConfigService
    from deep.config.tracepoint_config import TracepointConfigService
    from deep.grpc import GRPCService
    from deep.poll import LongPoll
    from deep.push.push_service import PushService
    from deep.api.resource import Resource
    cfg = case['cfg']
    custom = {'C08_MD': json.dumps(cfg.get('custom_md') or []), 'C08_MD_FORM': cfg.get('md_form', 'list')}
    if cfg.get('provider') is not None:
        custom['SERVICE_AUTH_PROVIDER'] = cfg['provider']
    for k, ck in (('username', 'SERVICE_USERNAME'), ('password', 'SERVICE_PASSWORD')):
        if cfg.get(k) is not None:
            custom[ck] = cfg[k]
    config = ConfigService(custom, tracepoints=TracepointConfigService())
    config.resource = Resource({k: mat_attr(v) for k, v in case['resource']})
    Script.reset(cfg, bool(case.get('concurrent')))
    import deep.api.auth as auth_mod
    orig_basic = auth_mod.BasicAuthProvider.provide

    def recording_basic(self_):
        r = orig_basic(self_)
        Script.returns.append([list(kv) for kv in r])
        return r
    auth_mod.BasicAuthProvider.provide = recording_basic       # only records what the real provider returns
    try:
        return _run_auth(case, cfg, config, custom)
    finally:
        auth_mod.BasicAuthProvider.provide = orig_basic


def _run_auth(case, cfg, config, custom):
    from deep.grpc import GRPCService
    from deep.poll import LongPoll
    from deep.push.push_service import PushService
    rec = []
    if case.get('transport') == 'grpc':
        lb = loopback()
        custom['SERVICE_URL'] = '127.0.0.1:%d' % lb['port']
        custom['SERVICE_SECURE'] = 'False'
        rec = lb['seen']
        grpc = GRPCService(config)
        grpc.start()                                  # the real channel
    else:
        grpc = GRPCService(config)
        grpc.channel = FakeChannel(rec)
    out = []

    def do(i, op):
        if op == 'poll':
            LongPoll(config, grpc).poll()
        else:
            spec = case['snaps'][i % len(case['snaps'])]
            PushService(grpc, None)._push_task(hand_snapshot(spec))

    def entry(r, op):
        return {'kind': 'polled' if op == 'poll' else 'pushed', 'metadata': r['metadata'],
                'hex': r['data'].hex() if r.get('data') is not None else None,
                'supplied': (Script.returns[-1] if Script.returns else None),
                'has_metadata_kw': r['has_metadata_kw'], 'request': dump_msg(r['request']), 'op': op}

    if case.get('concurrent'):
        # thread A runs ops[0] and is parked inside provider.provide(); meanwhile this thread runs ops[1]
        errs = []

        def thread_a():
            try:
                do(0, case['ops'][0])
            except BaseException as e:  # noqa: B902
                errs.append(f'{type(e).__name__}: {e}')
        ta = threading.Thread(target=thread_a, daemon=True)
        ta.start()
        try:
            if not Script.entered.wait(30):
                raise core.Infra('thread A never asked the provider')
            try:
                do(1, case['ops'][1])
            except BaseException as e:  # noqa: B902
                errs.append(f'{type(e).__name__}: {e}')
        finally:
            Script.release.set()
            ta.join(30)
        if ta.is_alive():
            raise core.Infra('thread A did not finish')
        kinds = {'poll': 'PollRequest', 'push': 'Snapshot'}
        for r in rec:
            op = 'poll' if r['request'].DESCRIPTOR.name == 'PollRequest' else 'push'
            out.append(entry(r, op))
        for e in errs:
            out.append({'kind': 'raised', 'error': e, 'op': '?', 'provider_raised': False})
        return {'wire': out, 'stored_resource': [[T(k), pyval(v)] for k, v in config.resource.attributes.items()],
                'provider_calls': Script.calls, 'provider_returns': list(Script.returns)}
    for i, op in enumerate(case['ops']):
        n = len(rec)
        if case['cfg'].get('rotate'):
            Script.epoch = case['epochs'][i]
        raised_before = Script.raised
        try:
            do(i, op)
        except BaseException as e:  # noqa: B902
            out.append({'kind': 'raised', 'error': f'{type(e).__name__}: {e}', 'op': op,
                        'provider_raised': Script.raised > raised_before, 'sent': len(rec) - n})
            continue
        if len(rec) == n:
            out.append({'kind': 'dropped', 'op': op})
            continue
        out.append(entry(rec[-1], op))
        if case['cfg'].get('rotate'):
            out[-1]['supplies_now'] = [list(kv) for kv in Script.current()]
    if case.get('transport') == 'grpc':
        grpc.channel.close()
    return {'wire': out, 'stored_resource': [[T(k), pyval(v)] for k, v in config.resource.attributes.items()],
            'provider_returns': list(Script.returns)}


class GatedList(list):
    """a list whose FIRST iteration reports that it started and waits until released (parks a conversion half way
    without touching agent code)"""

    def __init__(self, items):
        super().__init__(items)
        self.entered = threading.Event()
        self.release = threading.Event()
        self.used = False

    def __iter__(self):
        if not self.used:
            self.used = True
            self.entered.set()
            self.release.wait(30)
        return super().__iter__()


def rich_snapshot(spec):
    """a real EventSnapshot with content of its own in every section (frames, table, watches, attributes, resource,
    log message), so a message assembled from two snapshots cannot go unnoticed"""
    from deep.api.tracepoint import EventSnapshot, TracePointConfig, StackFrame, Variable, VariableId, WatchResult
    from deep.api.resource import Resource
    tag, n = spec['tag'], spec['n_vars']
    lookup, frame_vars = {}, []
    for i in range(1, n + 1):
        children = [VariableId(str(i + 1), 'child_' + tag, ['private'], 'orig_' + tag)] if i < n else []
        lookup[str(i)] = Variable('type_' + tag, 'value %s %d' % (tag, i), 'hash-%s-%d' % (tag, i), children, i % 2 == 0)
        frame_vars.append(VariableId(str(i), 'var_%s_%d' % (tag, i)))
    frames = [StackFrame('/app/%s.py' % tag, '%s.py' % tag, 'method_' + tag, 10 + n, frame_vars, 'Class' + tag,
                         app_frame=True)]
    for j in range(spec.get('n_frames', 1)):
        frames.append(StackFrame('/lib/caller_%s_%d.py' % (tag, j), 'caller_%s.py' % tag, 'caller_' + tag, 90 + j, [], None))
    s = EventSnapshot(TracePointConfig('tp-' + tag, '%s.py' % tag, 10 + n, {'fire_count': str(n), 'tag': tag},
                                       ['w_' + tag], []), spec['ts'],
                      Resource({k: mat_attr(v) for k, v in spec['resource']}), frames, lookup)
    s.add_watch_result(WatchResult('WATCH', 'w_' + tag, VariableId('1', 'w_' + tag)))
    for w in all_source_watches(tag):
        s.add_watch_result(w)
    if spec.get('error_watch'):
        s.add_watch_result(WatchResult('LOG', 'bad_' + tag, None, spec['error_watch'] if spec['error_watch'] != '-' else ''))
    for k, v in spec['attrs']:
        s.attributes[k] = mat_attr(v)
    if spec.get('log'):
        s.log_msg = '[deep] ' + spec['log']
    s.complete()
    return s


def run_uploads(case):
    """PushService.push_snapshot -> real 2-worker TaskHandler -> _push_task, two uploads converting at once"""
    from deep.config import ConfigService
    from deep.config.tracepoint_config import TracepointConfigService
    from deep.grpc import GRPCService
    from deep.push.push_service import PushService
    from deep.task import TaskHandler
    from deepproto.proto.tracepoint.v1.tracepoint_pb2 import Snapshot
    config = ConfigService({}, tracepoints=TracepointConfigService())
    rec = []
    grpc = GRPCService(config)
    grpc.channel = FakeChannel(rec)
    handler = TaskHandler()
    push = PushService(grpc, handler)
    snaps = [rich_snapshot(sp) for sp in case['snaps']]
    gate = GatedList(snaps[0].frames)
    snaps[0]._frames = gate                      # snapshot A's conversion parks while it walks its own frames
    notes = []
    try:
        push.push_snapshot(snaps[0])
        if not gate.entered.wait(10):
            notes.append('gate-not-reached')
        for s in snaps[1:]:
            push.push_snapshot(s)
        deadline = time.time() + 10
        while len(rec) < len(snaps) - 1 and time.time() < deadline:
            time.sleep(0.002)
        if len(rec) < len(snaps) - 1:
            notes.append('other-uploads-not-sent-while-A-was-held')
    finally:
        gate.release.set()
        handler.flush()
    arrived = []
    for r in rec:
        try:
            arrived.append(dump_msg(Snapshot.FromString(r['data'])))
        except BaseException as e:  # noqa: B902
            arrived.append({'unparsable': f'{type(e).__name__}: {e}'})
    return {'sources': [dump_snapshot(s) for s in snaps], 'arrived': arrived, 'notes': notes}


# ---- wire bytes beyond what an encoder writes (independent little reader of the record structure) ----
def _varint(data, i):
    n, sh = 0, 0
    while True:
        b = data[i]
        i += 1
        n |= (b & 0x7F) << sh
        sh += 7
        if b < 0x80:
            return n, i


def top_records(data):
    """[(field number, wire type, raw bytes of the whole record)] of a serialised message"""
    out, i = [], 0
    while i < len(data):
        j = i
        tag, i = _varint(data, i)
        wt = tag & 7
        if wt == 0:
            _, i = _varint(data, i)
        elif wt == 1:
            i += 8
        elif wt == 2:
            n, i = _varint(data, i)
            i += n
        elif wt == 5:
            i += 4
        else:
            raise core.Infra('unexpected wire type %d in real bytes' % wt)
        out.append((tag >> 3, wt, data[j:i]))
    return out


def enc_varint(n, pad=0, limit=10):
    """pad: extra continuation bytes (a non-canonical but valid encoding), kept within the `limit` bytes a parser
    reads for this kind of varint (10 for values, 5 for tags and lengths)"""
    k = 1
    while n >> (7 * k):
        k += 1
    pad = max(0, min(pad, limit - k))
    out = bytearray()
    while n >= 0x80:
        out.append((n & 0x7F) | 0x80)
        n >>= 7
    if pad:
        out.append(n | 0x80)
        out += b'\x80' * (pad - 1) + b'\x00'
    else:
        out.append(n)
    return bytes(out)


def mutate_bytes(data, mut):
    """(changed bytes, the real runtime must read them as the SAME message)"""
    import random
    rng = random.Random(mut['seed'])
    recs = top_records(data)
    kind = mut['kind']
    if kind == 'unknown-field':
        for _ in range(mut.get('n', 1)):
            fno = rng.choice([15, 16, 100, 2047, 2048, 536870911])
            wt = rng.choice([0, 1, 2, 5])
            body = {0: enc_varint(rng.choice([0, 1, 127, 128, 2 ** 63, 2 ** 64 - 1])),
                    1: bytes(rng.randrange(256) for _ in range(8)),
                    2: (lambda b: enc_varint(len(b)) + b)(bytes(rng.randrange(256) for _ in range(rng.choice([0, 1, 5, 200])))),
                    5: bytes(rng.randrange(256) for _ in range(4))}[wt]
            recs.insert(rng.randint(0, len(recs)), (fno, wt, enc_varint(fno * 8 + wt) + body))
        return b''.join(r[2] for r in recs), True
    if kind == 'reorder':
        # any interleaving that keeps the relative order of records of the same field
        groups = {}
        for r in recs:
            groups.setdefault(r[0], []).append(r)
        order = [r[0] for r in recs]
        rng.shuffle(order)
        out = [groups[f].pop(0) for f in order]
        return b''.join(r[2] for r in out), True
    if kind == 'dup-scalar':
        extra = rng.choice([enc_varint(4 * 8 + 1) + bytes(rng.randrange(256) for _ in range(8)),      # ts_nanos fixed64
                            enc_varint(8 * 8 + 0) + enc_varint(rng.choice([0, 5, 2 ** 40])),            # duration_nanos
                            enc_varint(10 * 8 + 2) + enc_varint(5) + 'é old'.encode()[:5],              # log_msg
                            enc_varint(1 * 8 + 2) + enc_varint(3) + b'\x00\x01\x02'])                   # ID
        fno = _varint(extra, 0)[0] >> 3
        if not any(r[0] == fno for r in recs):
            return data, True              # the field is at its default (not written): an earlier value would show
        return extra + data, True          # the later (real) occurrence wins
    if kind == 'padded-varint':
        out = []
        for fno, wt, raw in recs:
            if wt == 0 and rng.random() < 0.8:
                tag, i = _varint(raw, 0)
                v, _ = _varint(raw, i)
                raw = enc_varint(tag, pad=rng.choice([0, 1, 2]), limit=5) + enc_varint(v, pad=rng.choice([1, 2, 4]))
            elif wt == 2 and rng.random() < 0.3:
                tag, i = _varint(raw, 0)
                n, j = _varint(raw, i)
                raw = enc_varint(tag) + enc_varint(n, pad=rng.choice([1, 3]), limit=5) + raw[j:]
            out.append(raw)
        return b''.join(out), True
    def lenrec(fno, body):
        return enc_varint(fno * 8 + 2) + enc_varint(len(body)) + body
    if kind == 'dup-map-key':
        # the same var_lookup key twice (a map on the wire is a repeated entry message): the later value is the entry
        key = rng.choice(['dup', '1', 'é'])
        first = lenrec(3, lenrec(1, key.encode()) + lenrec(2, lenrec(1, b'first')))
        second = lenrec(3, lenrec(1, key.encode()) + lenrec(2, lenrec(1, b'second') + lenrec(2, b'v2')))
        recs.insert(rng.randint(0, len(recs)), (3, 2, first))
        return b''.join(r[2] for r in recs) + second, False
    if kind == 'oneof-both':
        # a WatchResult carrying BOTH members of its oneof, in either order: the member written last is the result
        good = lenrec(2, lenrec(1, b'7') + lenrec(2, b'name'))
        err = lenrec(3, rng.choice([b'boom', b'']))
        members = [good, err] if rng.random() < 0.5 else [err, good]
        if rng.random() < 0.3:
            members.append(rng.choice([good, err]))
        watch = lenrec(1, b'both') + b''.join(members) + enc_varint(5 * 8) + enc_varint(rng.choice([0, 1, 3]))
        return data + lenrec(6, watch), False
    if kind == 'big-enum':
        # an enum is an int32 on the wire: a longer varint is cut to 32 bits (values with bit 31 set - negative in the
        # runtime - are a listed deviation of the model and not generated)
        v = rng.choice([2 ** 35 + 2, 2 ** 32 + 3, 2 ** 63 + 1, 2 ** 31 - 1, 3])
        watch = lenrec(1, b'enum') + enc_varint(5 * 8) + enc_varint(v)
        return data + lenrec(6, watch), False
    if kind == 'truncate':
        return data[:rng.randrange(len(data))] if data else data, False
    if kind == 'bad-utf8':
        bad = rng.choice([b'\xff', b'\xc0\x80', b'\xed\xa0\x80', b'ok\xe2\x82', b'\xf4\x90\x80\x80', b'\x80',
                          b'\xe0\x80\x80', b'\xf0\x80\x80\x80'])
        return data + enc_varint(10 * 8 + 2) + enc_varint(len(bad)) + bad, False
    raise ValueError(kind)


def run_wirebytes(case):
    from deep.push import convert_snapshot
    from deepproto.proto.tracepoint.v1.tracepoint_pb2 import Snapshot
    m = convert_snapshot(rich_snapshot(case['snap']))
    if m is None:
        return {'converted': False}
    data = m.SerializeToString()
    changed, same = mutate_bytes(data, case['mut'])
    obs = {'converted': True, 'original': dump_msg(m), 'hex': changed.hex(), 'same_expected': same,
           'changed': changed != data}
    try:
        obs['parsed'] = dump_msg(Snapshot.FromString(changed))
    except BaseException as e:  # noqa: B902
        obs['parsed'] = None
        obs['parse_error'] = f'{type(e).__name__}: {e}'[:200]
    return obs


BOUNDS32 = [2 ** 31 - 1, 2 ** 31, 2 ** 31 + 1, 2 ** 32 - 1]
BOUNDS64 = [2 ** 31 + 1, 2 ** 32 - 1, 2 ** 32, 2 ** 63 - 1, 2 ** 63, 2 ** 64 - 1]


def scale_snapshot(case):
    """a real EventSnapshot built directly (not through the collector): `entries` table entries whose values are
    `strlen` characters long, every entry referenced from a frame or from another entry, numeric fields at the
    boundaries given in the case"""
    from deep.api.tracepoint import EventSnapshot, TracePointConfig, StackFrame, Variable, VariableId, WatchResult
    from deep.api.resource import Resource
    n, ln, nums = case['entries'], case['strlen'], case['nums']
    pad = ('x' if case.get('ascii', True) else 'é') * ln
    lookup = {}
    for i in range(1, n + 1):
        kids = [VariableId(str(i + 1), 'c%d' % i)] if i < n and i % 3 == 0 else []
        if kids and i % 2 == 0:
            # the same reference again under its mangled private name: equal id / name / modifiers, other original_name
            kids.append(VariableId(str(i + 1), 'c%d' % i, [], '_Ac%d' % i))
        elif kids and i % 9 == 3:
            kids.insert(0, VariableId(str(i + 1), 'c%d' % i, [], '_Bc%d' % i))
        lookup[str(i)] = Variable('str', ('%d:' % i + pad)[:max(ln, len(str(i)) + 1)], str(i * 7919), kids, i % 2 == 0)
    top = [VariableId(str(i), 'v%d' % i) for i in range(1, n + 1) if (i - 1) % 3 != 0 or i == 1][:max(1, n)]
    frames = [StackFrame('/app/big.py', 'big.py', 'fn', nums['line'], top, 'Cls', app_frame=True,
                         column_number=nums['col'], transpiled_file_name='big.ts',
                         transpiled_line_number=nums['tline'], transpiled_column_number=nums['tcol'])]
    s = EventSnapshot(TracePointConfig('tp-scale', 'big.py', nums['tp_line'], {'fire_count': '1'}, [], []), nums['ts'],
                      Resource({'service.name': 'svc', 'n': nums['attr_int']}), frames, lookup)
    if n >= 1:
        s.add_watch_result(WatchResult('WATCH', 'v1', VariableId('1', 'v1')))
    else:
        s.add_watch_result(WatchResult('WATCH', 'v1', None, 'NameError: v1'))
    s.attributes['big'] = nums['attr_int']
    s.complete()
    s._duration_nanos = nums['duration']          # (complete() reads the clock; the boundary value is set directly)
    return s


def run_scale(case):
    """convert + PushService._push_task + parse back; judged here against the expectation built from the snapshot alone
    (the observation of a 7 MB message is reduced to what the verdict needs)"""
    s = scale_snapshot(case)
    sd = dump_snapshot(s)
    obs = {'entries': len(sd['var_lookup']), 'small': case['entries'] * case['strlen'] < 200_000}
    try:
        arrived, hexs = push_and_parse(s)
    except BaseException as e:  # noqa: B902
        return dict(obs, arrived=False, raised=f'{type(e).__name__}: {e}'[:300])
    if arrived is None:
        return dict(obs, arrived=False)
    obs.update(arrived=True, bytes=len(hexs) // 2, arrived_entries=len(arrived['var_lookup']))
    exp = expect_msg(sd)
    got = canon_msg(arrived)
    have = {json.dumps(kv[0]) for kv in got['var_lookup']}
    missing = [kv[0] for kv in exp['var_lookup'] if json.dumps(kv[0]) not in have]
    refs = set()
    for f in got['frames']:
        refs.update(v['ID'] for v in f['variables'])
    for _, v in got['var_lookup']:
        refs.update(c['ID'] for c in v['children'])
    for w in got['watches']:
        if w['good_result']:
            refs.add(w['good_result']['ID'])
    dangling = sorted((r for r in refs if json.dumps(r) not in have), key=lambda x: (len(x), x))
    obs['missing'] = len(missing)
    obs['missing_sample'] = missing[-3:]
    obs['dangling'] = len(dangling)
    obs['dangling_sample'] = dangling[:3]
    obs['diffs'] = [] if not missing and got == exp else diff(got, exp, 'arrived')[:4]
    if obs['small']:
        obs['snapshot'], obs['msg'], obs['hex'] = sd, arrived, hexs
    return obs


def run_tpline(case):
    """the line number a tracepoint reports (TracePointConfig.line_no) for a tracepoint configured by the service"""
    args = {'method_name': 'fn'} if case['how'] == 'method' else {}
    trig = triggers_from_response('tp', 'a.py', case['line'], args, [])
    if trig is None:
        return {'built': False}
    tp = trig.actions[0].tracepoint
    obs = {'built': True, 'location_line': trig.line, 'line_no': tp.line_no}
    try:
        from deep.push import convert_snapshot
        from deep.api.tracepoint import EventSnapshot
        from deep.api.resource import Resource
        snap = EventSnapshot(tp, 1_700_000_000_000_000_000, Resource({}), [], {})
        snap.complete()
        m = convert_snapshot(snap)
        obs['sent_line_number'] = None if m is None else m.tracepoint.line_number
    except BaseException as e:  # noqa: B902
        obs['raised'] = f'{type(e).__name__}: {e}'
    return obs


def run_impl(case):
    k = case['kind']
    if k == 'tpline':
        return run_tpline(case)
    if k == 'scale':
        return run_scale(case)
    if k == 'wirebytes':
        return run_wirebytes(case)
    if k == 'uploads':
        return run_uploads(case)
    if k == 'snapshot':
        return run_snapshot(case)
    if k == 'value':
        return run_value(case)
    return run_auth(case)


# ------------------------------------------------------------------------------------------ known findings (structural, on the case)
def strings_of(x):
    if isinstance(x, str):
        yield x
    elif isinstance(x, dict):
        for k, v in x.items():
            yield from strings_of(k)
            yield from strings_of(v)
    elif isinstance(x, list):
        for v in x:
            yield from strings_of(v)


def attr_values(case):
    vals = []
    if case['kind'] == 'snapshot':
        vals += [v for _, v in case['attrs']] + [v for _, v in case['resource']]
    elif case['kind'] == 'value':
        vals.append(case['v'])
    elif case['kind'] == 'uploads':
        for sp in case['snaps']:
            vals += [v for _, v in sp['attrs']] + [v for _, v in sp['resource']]
    elif case['kind'] in ('tpline', 'scale'):
        pass
    elif case['kind'] == 'wirebytes':
        vals += [v for _, v in case['snap']['attrs']] + [v for _, v in case['snap']['resource']]
    else:
        vals += [v for _, v in case['resource']]
        for s in case['snaps']:
            vals += [v for _, v in s['attrs']] + [v for _, v in s['resource']]
    return vals


def seq_of(v):
    if isinstance(v, list):
        return v
    if isinstance(v, dict) and 'tuple' in v:
        return v['tuple']
    return None


def inst_surrogate(case):
    return any(has_surrogate(s) for s in strings_of(case))


def inst_seq_none(case):
    return any(seq_of(v) is not None and any(x is None for x in seq_of(v)) for v in attr_values(case))


def big(x):
    return type(x) is int and not (-2 ** 63 <= x < 2 ** 63)


def inst_big_int(case):
    return any(big(v) or (seq_of(v) is not None and any(big(x) for x in seq_of(v))) for v in attr_values(case))


def inst_rotating(case):
    """the configured provider really returns different metadata on successive calls during this case"""
    return (case['kind'] == 'auth' and bool(case['cfg'].get('rotate'))
            and len(set(case.get('epochs', [])[:len(case['ops'])])) > 1)


def known_finding(case, obs):
    if case.get('stream') == 'bad-credentials':
        return None                                   # judged: nothing may be sent
    if inst_rotating(case):
        return 'C08/auth-metadata-cached-forever'
    if inst_surrogate(case):
        return 'C08/lone-surrogate-dropped'
    if inst_big_int(case):
        return 'C08/attr-int-out-of-range-dropped'
    return None


# ------------------------------------------------------------------------------------------ judging
def expected_metadata(cfg):
    p = cfg.get('provider')
    if p is None or p == '':
        return []
    if p.endswith('BasicAuthProvider'):
        u, w = cfg.get('username'), cfg.get('password')
        if u is not None and w is not None:
            return [['authorization', 'Basic%20' + base64.b64encode((u + ':' + w).encode('utf-8')).decode('ascii')]]
        return []
    return [list(kv) for kv in (cfg.get('custom_md') or [])]


# provider names AuthProvider.get_provider cannot turn into a provider (no dot / no such attribute / no such module /
# not callable / abstract class)
# ... / the attribute is None (the one reachable UnknownAuthProvider) / a loaded object that has no provide())
UNLOADABLE = ['nodot', 'deep.api.auth.Missing', 'no.such.module.X', 'deep.api.auth.base64', 'deep.api.auth.AuthProvider',
              'builtins.None', 'builtins.str']
# a callable that returns None: get_provider returns None, which _build_metadata treats as "no provider configured"
NOT_A_PROVIDER = ['logging.debug', 'logging.info']


def bad_credentials(cfg):
    """BasicAuthProvider with a credential it cannot encode: a lone surrogate (UnicodeEncodeError) or a non-str
    (TypeError) - provide() raises on every call"""
    if not (cfg.get('provider') or '').endswith('BasicAuthProvider'):
        return False
    u, w = cfg.get('username'), cfg.get('password')
    if u is None or w is None:
        return False
    return any(not isinstance(x, str) or has_surrogate(x) for x in (u, w))


def expected_provider_failures(case):
    """which operations find the provider failing (the statement's side: the provider is asked once per operation until
    it has answered; its first `fail_first` answers are failures)"""
    k = int(case['cfg'].get('fail_first') or 0)
    out, asked, answered = [], 0, False
    for _ in case['ops']:
        if answered or not case['cfg'].get('provider'):
            out.append(False)
            continue
        asked += 1
        if asked <= k:
            out.append(True)
        else:
            out.append(False)
            answered = True
    return out


def oracle_uploads(case, obs):
    v = []
    arrived = [canon_msg(m) if 'unparsable' not in m else m for m in obs['arrived']]
    for i, sd in enumerate(obs['sources']):
        exp = expect_msg(sd)
        mine = [m for m in arrived if m.get('ID') == exp['ID']]
        if len(mine) != 1:
            v.append(f'snapshot {i} (tp {sd["tracepoint"]["id"]}) arrived {len(mine)} times, pushed once '
                     f'({len(arrived)} messages arrived for {len(obs["sources"])} uploads)')
            continue
        v += [f'snapshot {i}: ' + d for d in diff(mine[0], exp)[:3]]
    if len(arrived) != len(obs['sources']) and not v:
        v.append(f'{len(arrived)} messages arrived for {len(obs["sources"])} uploads')
    return v[:6]


def oracle(case, obs):
    k = case['kind']
    if k == 'scale':
        what = 'snapshot with %d table entries of %d-character values' % (case['entries'], case['strlen'])
        if not obs.get('arrived'):
            return [what + ': NO message reached the service (%s)' % obs.get('raised', 'convert_snapshot returned None / nothing sent')]
        v = []
        if obs['missing']:
            v.append(what + ' (%d bytes on the wire): %d of its %d variable-table entries are MISSING from the message '
                     'that arrived (e.g. ids %s)' % (obs['bytes'], obs['missing'], obs['entries'], obs['missing_sample']))
        if obs['dangling']:
            v.append('%d variable ids in the arrived message refer to entries that are not in it (e.g. %s)'
                     % (obs['dangling'], obs['dangling_sample']))
        return (v + obs['diffs'])[:5]
    if k == 'tpline':
        if not obs.get('built'):
            return []
        want = 0 if case['how'] == 'method' else case['line']      # a method tracepoint has no line: reported as 0
        if 'raised' in obs:
            return ['snapshot of a %s tracepoint (line %d): %s' % (case['how'], case['line'], obs['raised'])]
        if obs.get('sent_line_number') is None:
            return ['an (empty) snapshot of a %s tracepoint configured with line %d (location line %s, line_no %s) cannot be '
                    'converted: it is DROPPED' % (case['how'], case['line'], obs['location_line'], obs['line_no'])]
        if obs['sent_line_number'] != want:
            return ['%s tracepoint configured with line %d is sent with line_number %s'
                    % (case['how'], case['line'], obs['sent_line_number'])]
        return []
    if k == 'wirebytes':
        # unknown fields, record order between different fields, an earlier occurrence of a singular scalar and varint
        # padding are not part of a message: the snapshot that was sent must still be what is read
        if obs.get('converted') and obs['same_expected']:
            if obs['parsed'] is None:
                return ['the serialised snapshot is refused after a content-preserving change (%s): %s'
                        % (case['mut']['kind'], obs.get('parse_error'))]
            return diff(canon_msg(obs['parsed']), canon_msg(obs['original']), 'after ' + case['mut']['kind'])[:3]
        return []
    if k == 'uploads':
        return oracle_uploads(case, obs)
    v = []
    if k == 'snapshot':
        if not obs.get('collected'):
            return []
        if 'raised' in obs:
            return ['convert_snapshot raised: ' + obs['raised']]
        what = 'snapshot of %s tracepoint %r' % ('METHOD' if case.get('method') else 'line', case['tp_id'])
        if obs['msg'] is None:
            return [what + ' was collected and then DROPPED: convert_snapshot returned None (nothing is sent)']
        if 'arrived' in obs:
            if obs['arrived'] is None:
                return [what + ' was collected but NO message for it reached the service (PushService._push_task: %s)'
                        % obs.get('push_raised', 'nothing sent')]
            v += diff(canon_msg(obs['arrived']), expect_msg(obs['snapshot']), 'arrived')[:3]
        v += diff(canon_msg(obs['msg']), expect_msg(obs['snapshot']))
        if not obs.get('bytes_ok'):
            v.append('the message does not survive serialisation: ' + obs.get('bytes_error', 'parsed back differently'))
        return v[:6]
    if k == 'value':
        if not obs.get('held'):
            return []                                  # BoundedAttributes rejected the value: nothing to send
        if 'raised' in obs:
            return [f'attribute value {json.dumps(obs["stored"])[:120]} cannot be sent: {obs["raised"]}']
        exp = expect_any(obs['stored'])
        v += diff(obs['any'], exp, 'value')
        if not obs.get('bytes_ok'):
            v.append('KeyValue does not survive serialisation')
        return v
    if bad_credentials(case['cfg']):
        # the provider cannot supply a header for these credentials: no request may go out in its name
        for i, w in enumerate(obs['wire']):
            if w['kind'] in ('polled', 'pushed') or w.get('sent'):
                v.append(f'operation {i} ({w["op"]}): a request was sent (metadata {w.get("metadata")}) although '
                         f'BasicAuthProvider cannot encode the configured credentials')
        return v[:6]
    exp = expected_metadata(case['cfg'])
    has_provider = bool(case['cfg'].get('provider')) and case['cfg']['provider'] not in NOT_A_PROVIDER
    if has_provider and case['cfg']['provider'].endswith('BasicAuthProvider'):
        for r in obs.get('provider_returns', []):
            if r != exp:
                v.append(f'BasicAuthProvider supplied {r}; basic auth of these credentials is {exp}')
    if case.get('concurrent'):
        sent = [w for w in obs['wire'] if w['kind'] in ('polled', 'pushed')]
        if sorted(w['op'] for w in sent) != sorted(case['ops']):
            v.append(f'two overlapping operations {case["ops"]}: requests sent {[w["op"] for w in sent]}, '
                     f'errors {[w.get("error") for w in obs["wire"] if w["kind"] == "raised"]}')
        for w in sent:
            if w['metadata'] not in obs.get('provider_returns', []):
                v.append(f'{w["op"]} request sent with metadata {w["metadata"]} while another thread was inside the '
                         f'provider; the provider supplied {obs.get("provider_returns")}')
        return v
    if case['cfg'].get('provider') in UNLOADABLE:
        # the configured provider cannot supply anything: no request may go out in its name
        for i, w in enumerate(obs['wire']):
            if w['kind'] in ('polled', 'pushed') or w.get('sent'):
                v.append(f'operation {i} ({w["op"]}): a request was sent (metadata {w.get("metadata")}) although the '
                         f'configured auth provider {case["cfg"]["provider"]!r} cannot be loaded')
        return v[:6]
    fails = expected_provider_failures(case)
    for i, w in enumerate(obs['wire']):
        if w['kind'] == 'raised' and fails[i] and w.get('provider_raised') and not w.get('sent'):
            continue                # the provider could not answer: nothing was sent, nothing may be cached
        if w['kind'] == 'raised':
            v.append(f'operation {i} ({w["op"]}) raised: {w["error"]}')
        elif w['kind'] == 'dropped':
            v.append(f'operation {i} ({w["op"]}) sent nothing')
        else:
            if has_provider:
                # the expectation is what the configured provider ACTUALLY returned (recorded at its provide())
                if w.get('supplied') is None:
                    v.append(f'operation {i} ({w["op"]}): a request was sent although the provider has not supplied '
                             f'anything yet')
                    continue
                exp = w['supplied']
                if exp == 'NONE':
                    # the provider answered None: that is what the request must carry (and nothing may be cached)
                    if not w['has_metadata_kw'] or w['metadata'] is not None:
                        v.append(f'operation {i} ({w["op"]}): metadata {w["metadata"]}, the provider supplies None')
                    continue
                if case['cfg'].get('rotate'):
                    exp = w['supplies_now']          # the token of the moment, not the one asked for earlier
            # (through HTTP/2 the order between DIFFERENT keys is not part of what gRPC guarantees: multiset there)
            if case.get('transport') == 'grpc' and sorted(w['metadata']) != sorted(exp):
                v.append(f'operation {i} ({w["op"]}): the server received metadata {w["metadata"]}, the provider '
                         f'supplies {exp}')
            elif case.get('transport') == 'grpc':
                pass
            elif not w['has_metadata_kw'] or w['metadata'] is None:
                v.append(f'operation {i} ({w["op"]}): request sent WITHOUT metadata; provider supplies {exp}')
            elif w['metadata'] != exp:
                v.append(f'operation {i} ({w["op"]}): metadata {w["metadata"]}, the provider supplies {exp}')
            if w['kind'] == 'polled':
                got = w['request']['resource']['attributes'] if w['request'].get('resource') else None
                want = [[k2, expect_any(x)] for k2, x in obs['stored_resource']]
                if got != want:
                    v += diff(got, want, f'poll {i} resource')[:2]
    return v[:6]


def model_request(case, obs):
    k = case['kind']
    if k == 'scale':
        if not obs.get('small') or 'snapshot' not in obs:
            return None                 # megabytes of bytes are not fed to the interpreted driver
        return {'op': 'convert', 'snapshot': obs['snapshot'], 'hex': obs['hex']}
    if k == 'tpline':
        return {'op': 'lineno', 'location_line': obs['location_line']} if obs.get('built') else None
    if k == 'wirebytes':
        if not obs.get('converted'):
            return None
        return {'op': 'decode', 'type': 'Snapshot', 'hex': obs['hex']}
    if k == 'uploads':
        return {'op': 'convert', 'snapshot': obs['sources'][0]}
    if k == 'snapshot':
        if not obs.get('collected') or 'raised' in obs:
            return None
        r = {'op': 'convert', 'snapshot': obs['snapshot']}
        if obs.get('hex') is not None:
            r['hex'] = obs['hex']
        return r
    if k == 'value':
        if not obs.get('held'):
            return None
        r = {'op': 'value', 'v': obs['stored']}
        if obs.get('hex') is not None:
            r['hex'] = obs['hex']
        return r
    ops = []
    cfg = case['cfg']
    mc = {'provider': cfg.get('provider'), 'username': cfg.get('username'), 'password': cfg.get('password')}
    if cfg.get('provider') and not cfg['provider'].endswith('BasicAuthProvider') \
            and cfg['provider'] not in UNLOADABLE + NOT_A_PROVIDER:
        mc['custom'] = cfg.get('custom_md') or []
    if cfg.get('rotate'):
        return None                  # the constant-provider model does not apply (theorem c08_auth_rotation_witness)
    if case.get('concurrent'):
        # A looks (miss, asks), B looks (miss, asks), B stores + sends, A stores + sends
        return {'op': 'auth_conc', 'cfg': mc, 'threads': 2, 'sched': [0, 1, 1, 0]}
    for i, (op, w) in enumerate(zip(case['ops'], obs['wire'])):
        if op == 'poll':
            ts = w['request']['ts_nanos'] if w['kind'] == 'polled' else 1
            ops.append({'poll': {'ts': ts, 'hash': '', 'resource': {'items': obs['stored_resource'], 'dropped': 0}}})
        else:
            spec = case['snaps'][i % len(case['snaps'])]
            ops.append({'push': dump_snapshot(hand_snapshot(spec))})
    if cfg.get('md_form') == 'none':
        return None                  # a provider answering None is outside the model's Metadata (documented)
    if cfg.get('provider') in UNLOADABLE:
        mc['kind'] = 'unloadable'
        return {'op': 'auth', 'cfg': mc, 'ops': ops, 'fail_first': 0, 'hex': [None] * len(ops)}
    if cfg.get('provider') in NOT_A_PROVIDER:
        mc['kind'] = 'not_a_provider'
    if bad_credentials(cfg):
        # the model's String cannot hold them; their outcome is the fault path on every call
        mc['username'], mc['password'] = 'u', 'p'
        return {'op': 'auth', 'cfg': mc, 'ops': ops, 'fail_first': len(ops) + 1, 'hex': [None] * len(ops)}
    return {'op': 'auth', 'cfg': mc, 'ops': ops, 'fail_first': int(cfg.get('fail_first') or 0),
            'hex': [w.get('hex') for w in obs['wire'][:len(ops)]]}


def compare_wire(obs, resp, real_msg, canon_f):
    """the real bytes against the model's codec, both directions"""
    d = []
    if resp.get('decoded') is None:
        return ['wire: the model cannot decode the bytes the real runtime produced']
    d += diff(canon_f(resp['decoded']), canon_f(real_msg), 'wire: model-decoded real bytes vs message')[:2]
    if resp.get('reencoded') != obs['hex']:
        d.append('wire: the model re-encodes what it decoded from the real bytes to DIFFERENT bytes (%s)'
                 % first_byte_diff(resp.get('reencoded') or '', obs['hex']))
    if resp.get('encoded') is not None and resp['encoded'] != obs['hex']:
        d.append('wire: the model encodes the converted message to bytes that differ from the real ones (%s)'
                 % first_byte_diff(resp['encoded'], obs['hex']))
    if resp.get('wire_roundtrip') is False:
        d.append('wire: the model does not decode its own bytes to the message it encoded')
    return d[:3]


def first_byte_diff(a, b):
    n = next((i for i in range(0, min(len(a), len(b)), 2) if a[i:i + 2] != b[i:i + 2]), min(len(a), len(b)))
    return 'lengths %d / %d bytes, first difference at byte %d: model %s real %s' % (
        len(a) // 2, len(b) // 2, n // 2, a[n:n + 8] or '-', b[n:n + 8] or '-')


def compare(case, obs, resp):
    if 'error' in resp:
        return ['model error: ' + resp['error']]
    k = case['kind']
    if k == 'scale':
        d = diff(canon_msg(resp['msg']), canon_msg(obs['msg']), 'model-vs-implementation')
        if not d and not resp['collectable']:
            d.append('model: the boundary snapshot is outside `collectable`')
        if not d:
            d += compare_wire(obs, resp, obs['msg'], canon_msg)
        return d[:4]
    if k == 'tpline':
        d = []
        if resp['line_no'] != obs['line_no']:
            d.append('TracePointConfig.line_no for location line %s: model %s implementation %s'
                     % (obs['location_line'], resp['line_no'], obs['line_no']))
        if resp['accepted'] != (obs.get('sent_line_number') is not None):
            d.append('line_number %s: model says protobuf %s it, implementation %s' % (
                resp['line_no'], 'takes' if resp['accepted'] else 'refuses',
                'sent it' if obs.get('sent_line_number') is not None else 'dropped the snapshot'))
        return d
    if k == 'wirebytes':
        if (resp['decoded'] is None) != (obs['parsed'] is None):
            return ['wire (%s): the real runtime %s these bytes, the model decoder %s them'
                    % (case['mut']['kind'], 'REFUSES' if obs['parsed'] is None else 'accepts',
                       'refuses' if resp['decoded'] is None else 'ACCEPTS')]
        if obs['parsed'] is None:
            return []
        dec = resp['decoded']
        if case['mut']['kind'] == 'dup-map-key':
            # listed deviation 4 of Model/WireBytes.lean: the model keeps both entries, the runtime the LATER one
            dec = dict(dec)
            last = {}
            for kv in dec['var_lookup']:
                last[json.dumps(kv[0])] = kv
            if len(last) == len(dec['var_lookup']):
                return ['wire (dup-map-key): the model no longer keeps both entries of a repeated map key - update the '
                        'deviation list of Model/WireBytes.lean']
            dec['var_lookup'] = list(last.values())
        return diff(canon_msg(dec), canon_msg(obs['parsed']), 'wire (%s): model vs runtime' % case['mut']['kind'])[:3]
    if k == 'uploads':
        mine = [m for m in obs['arrived'] if resp['msg'] is not None and m.get('ID') == resp['msg']['ID']]
        if len(mine) != 1:
            return [f'model: snapshot 0 is sent once, implementation delivered it {len(mine)} times']
        return diff(canon_msg(resp['msg']), canon_msg(mine[0]), 'model-vs-implementation')[:3]
    if k == 'snapshot':
        d = diff(canon_msg(resp['msg']), canon_msg(obs['msg']), 'model-vs-implementation')
        if not d and resp['msg'] is not None and not resp['reads_back']:
            d.append('model: message does not read back to the snapshot')
        if not d and resp['msg'] is not None and not resp['collectable']:
            d.append('model: the collected snapshot is outside `collectable` (ranges / sources / holdable values)')
        if not d and obs.get('hex') is not None and obs.get('msg') is not None:
            d += compare_wire(obs, resp, obs['msg'], canon_msg)
        return d[:4]
    if k == 'value':
        if 'raised' in obs:
            return [] if not resp['accepts'] else ['implementation raised, model accepts: ' + obs['raised']]
        d = diff(resp['any'], obs['any'], 'model-vs-implementation')
        if not resp['accepts']:
            d.append('model rejects a value the implementation sent')
        if not d and obs.get('hex') is not None:
            d += compare_wire(obs, resp, ['k', obs['any']], lambda x: x)
        return d
    d = []
    if case.get('concurrent'):
        got = [w['metadata'] for w in obs['wire'] if w['kind'] in ('polled', 'pushed')]
        if got != resp['sent']:
            d.append(f'two threads: metadata sent, model {resp["sent"]} implementation {got}')
        return d
    if len(resp['wire']) != len(obs['wire']):
        return ['wire length differs']
    for i, (b, wb_) in enumerate(zip(obs['wire'], resp.get('bytes') or [])):
        if b.get('hex') is None or wb_ is None:
            continue
        if wb_.get('decoded') is None:
            d.append(f'op {i}: the model cannot decode the bytes of the {b["op"]} request the real channel serialised')
            continue
        real = canon_msg(b['request']) if b['kind'] == 'pushed' else b['request']
        dec = canon_msg(wb_['decoded']) if b['kind'] == 'pushed' else wb_['decoded']
        d += diff(dec, real, f'op {i} {b["op"]} request bytes: model-decoded vs sent')[:2]
        if wb_.get('reencoded') != b['hex']:
            d.append(f'op {i}: the model re-encodes the {b["op"]} request to different bytes ('
                     + first_byte_diff(wb_.get('reencoded') or '', b['hex']) + ')')
    if d:
        return d[:4]
    for i, (a, b) in enumerate(zip(resp['wire'], obs['wire'])):
        bk = 'dropped' if b['kind'] == 'raised' else b['kind']
        if a['kind'] != bk:
            d.append(f'op {i}: model {a["kind"]} implementation {b["kind"]}')
            continue
        if bk == 'dropped':
            continue
        if (sorted(a['metadata'] or []) != sorted(b['metadata'] or [])) if case.get('transport') == 'grpc' \
                else a['metadata'] != b['metadata']:
            d.append(f'op {i}: metadata model {a["metadata"]} implementation {b["metadata"]}')
        if bk == 'polled':
            ra, rb = dict(a['request']), dict(b['request'])
            ra.pop('current_hash', None)
            rb.pop('current_hash', None)
            d += diff(ra, rb, f'op {i} poll request')[:2]
        else:
            # ids, time stamps and durations of hand_snapshot differ between the two constructions
            ra, rb = canon_msg(a['request']), canon_msg(b['request'])
            for m in (ra, rb):
                for f in ('ID', 'duration_nanos'):
                    m.pop(f, None)
            d += diff(ra, rb, f'op {i} snapshot request')[:2]
    return d[:4]


# ------------------------------------------------------------------------------------------ generation
NAMES = ['v0', 'v1', '_p2', '__q3', 'é4', 'x5', 'data', 'self', 'count']
WORDS = ['', 'a', 'hello world', 'é', '中文', '😀 non-BMP 𝒳', 'tab\there', 'nul\x00byte', 'quote"s', 'x' * 1100, 'line\nbreak',
         '​', 'ß' * 300]
BAD = ['v\ud800', '\udc00', 'a\ud83dz', '\udfff tail']


def gen_str(rng):
    return rng.choice(WORDS) if rng.random() < 0.8 else ''.join(
        chr(rng.choice([rng.randint(32, 126), rng.randint(0xA0, 0x7FF), rng.randint(0x800, 0xD7FF),
                        rng.randint(0xE000, 0xFFFD), rng.randint(0x10000, 0x10FFFF)]))
        for _ in range(rng.randint(1, 12)))


def gen_val(rng, depth=0):
    r = rng.random()
    if depth >= 3 or r < 0.45:
        c = rng.random()
        if c < 0.25:
            return {'k': 'int', 'v': rng.choice([0, 1, -1, 7, 2 ** 31, 2 ** 63, -2 ** 63 - 1, 2 ** 100, rng.randint(-999, 999)])}
        if c < 0.40:
            return {'k': 'float', 'v': rng.choice(['nan', 'inf', '-inf', 0.5, -2.25, 1e300, 0.1])}
        if c < 0.50:
            return {'k': 'bool', 'v': rng.random() < 0.5}
        if c < 0.57:
            return {'k': 'none'}
        if c < 0.90:
            return {'k': 'str', 'v': gen_str(rng)}
        return {'k': 'bytes', 'v': [rng.randint(0, 255) for _ in range(rng.randint(0, 6))]}
    if r < 0.70:
        kind = rng.choice(['list', 'list', 'tuple', 'set'])
        n = rng.choice([0, 1, 2, 3, 3, 12])
        return {'k': kind, 'v': [gen_val(rng, depth + 1) for _ in range(n)]}
    if r < 0.82:
        n = rng.choice([0, 1, 2, 4])
        return {'k': 'dict', 'v': [[rng.choice([{'k': 'str', 'v': gen_str(rng)[:20]}, {'k': 'int', 'v': rng.randint(0, 9)}]),
                                    gen_val(rng, depth + 1)] for _ in range(n)]}
    if r < 0.92:
        names = rng.sample(['x', 'y', '_prot', '_Pt__priv', 'é', 'name'], rng.randint(0, 4))
        return {'k': 'obj', 'cls': 'Pt', 'attrs': [[n, gen_val(rng, depth + 1)] for n in names]}
    return rng.choice([{'k': 'exc', 'msg': gen_str(rng)[:30]}, {'k': 'ref', 'i': rng.randint(0, 5)}, {'k': 'cycle'},
                       {'k': 'slotted'}, {'k': 'collide', 'v': {'k': 'list', 'v': [{'k': 'int', 'v': 1}, {'k': 'str', 'v': 'x'}]}}])


def gen_attr(rng, i):
    r = rng.random()
    if r < 0.30:
        v = gen_str(rng)[:200]
    elif r < 0.42:
        v = rng.choice([0, 1, -5, 2 ** 40, 2 ** 63 - 1, -2 ** 63])
    elif r < 0.50:
        v = rng.random() < 0.5
    elif r < 0.60:
        v = rng.choice([0.5, -1.25, 1e300, {'float': 'nan'}, {'float': 'inf'}])
    elif r < 0.64:
        v = {'bytes': [rng.randint(32, 126) for _ in range(rng.randint(0, 5))]}
    elif r < 0.70:
        v = {'sub': rng.choice(sorted(SUBCLASS_VALUES))}
    elif r < 0.86:
        items = rng.choice([[gen_str(rng)[:10] for _ in range(rng.randint(0, 3))],
                            [rng.randint(-9, 9) for _ in range(rng.randint(1, 3))], [True, False], [0.5, 2.0], []])
        v = {'tuple': items} if rng.random() < 0.5 else list(items)
    else:
        v = rng.choice([{'k': 'v'}, [1, 'a'], [[1]], None])          # BoundedAttributes refuses these
    return [rng.choice(['k%d' % i, 'é%d' % i, 'service.name', 'key with space %d' % i]), v]


def gen_snapshot(rng, stream='main'):
    n = rng.randint(1, 7)
    names = rng.sample(NAMES, n)
    locs = []
    for nm in names:
        locs.append({'k': 'obj', 'cls': 'Pt', 'attrs': [['x', gen_val(rng, 2)]]} if nm == 'self' else gen_val(rng))
    if rng.random() < 0.15:
        # a mangled private name that collides with a public one holding the SAME object
        locs[rng.randrange(len(locs))] = {'k': 'collide', 'v': rng.choice([
            {'k': 'list', 'v': [{'k': 'int', 'v': 1}]}, {'k': 'dict', 'v': []}, {'k': 'str', 'v': 'shared ' + gen_str(rng)[:10]},
            {'k': 'obj', 'cls': 'Pt', 'attrs': [['x', {'k': 'int', 'v': 2}]]}])}
    args = {}
    if rng.random() < 0.6:
        args['frame_type'] = rng.choice(['single_frame', 'all_frame', 'no_frame'])
    if rng.random() < 0.3:
        args['fire_count'] = rng.choice(['1', '-1'])
    if rng.random() < 0.35:
        args['log_msg'] = rng.choice(['hit', 'v={%s}' % names[0], 'é {%s} and {nope}' % names[-1]])
    if rng.random() < 0.2:
        args['condition'] = 'True'
    watches = []
    for _ in range(rng.choice([0, 0, 1, 2, 3])):
        watches.append(rng.choice([names[0], 'len(__v)', 'nope', '1/0', '[%s] * 3' % names[-1], '"é😀"', 'marker',
                                   '%s is None' % names[0], 'list(range(40))']))
    if rng.random() < 0.3:
        # a watch / log field whose value fails while it is turned into text, with an empty or a non-empty message
        names = names + ['mkjob']
        locs.append({'k': 'jobfactory', 'exc': rng.choice(sorted(JOB_EXC)), 'msg': rng.choice(['', '', 'stopped', 'é'])})
        r = rng.random()
        if r < 0.7:
            watches.insert(rng.randint(0, len(watches)), 'mkjob()')
        if r > 0.5:
            args['log_msg'] = 'job={mkjob()} done'
    case = {'kind': 'snapshot', 'stream': stream, 'names': names, 'nested': rng.random() < 0.5, 'locals': locs,
            'tp_id': rng.choice(['tp-1', 'é-tp', 'a' * 40]), 'args': args, 'watches': watches,
            'attrs': [gen_attr(rng, i) for i in range(rng.choice([0, 0, 1, 2, 4]))],
            'resource': [gen_attr(rng, 10 + i) for i in range(rng.choice([0, 1, 1, 3]))]}
    if rng.random() < 0.12:
        case['clock_back'] = rng.choice([1, 1000, 5_000_000_000, 3600 * 10 ** 9])
    if rng.random() < 0.2:
        case['capture'] = True             # completed on the return event: a CAPTURE watch result from the collector
    elif rng.random() < 0.2:
        case['method'] = True              # a METHOD tracepoint (FunctionLocation, no line number), hit on entry
    if stream == 'surrogate':
        where = rng.choice(['local', 'local', 'nested', 'attr', 'resource', 'log', 'watch', 'key'])
        bad = rng.choice(BAD)
        if where == 'local':
            case['locals'][0] = {'k': 'str', 'v': bad}
        elif where == 'nested':
            case['locals'][0] = {'k': 'list', 'v': [{'k': 'int', 'v': 1}, {'k': 'dict', 'v': [[{'k': 'str', 'v': 'k'},
                                                                                           {'k': 'str', 'v': bad}]]}]}
        elif where == 'attr':
            case['attrs'].append(['bad', bad])
        elif where == 'resource':
            case['resource'].append(['bad', [bad, 'ok']])
        elif where == 'log':
            case['args']['log_msg'] = 'x ' + bad
        elif where == 'watch':
            case['watches'].append("'z%s'" % bad)          # the expression text itself carries the surrogate
        else:
            case['locals'][0] = {'k': 'dict', 'v': [[{'k': 'str', 'v': bad}, {'k': 'int', 'v': 1}]]}
    elif stream == 'seq-none':
        tgt = rng.choice(['attrs', 'resource'])
        case[tgt].append(['withnone', rng.choice([['x', None, 'y'], [None], {'tuple': [1, None]}])])
    elif stream == 'big-int':
        tgt = rng.choice(['attrs', 'resource'])
        case[tgt].append(['bigint', rng.choice([2 ** 63, -2 ** 63 - 1, 2 ** 70, [1, 2 ** 64]])])
    return case


def gen_value(rng, stream='main'):
    if stream == 'seq-none':
        return {'kind': 'value', 'stream': stream, 'v': rng.choice([['a', None], {'tuple': [None, 1.5]}, [None, None]])}
    if stream == 'big-int':
        return {'kind': 'value', 'stream': stream, 'v': rng.choice([2 ** 63, -2 ** 63 - 1, [2 ** 64, 1], 10 ** 30])}
    if stream == 'surrogate':
        return {'kind': 'value', 'stream': stream, 'v': rng.choice([rng.choice(BAD), [rng.choice(BAD), 'ok']])}
    v = gen_attr(rng, 0)[1]
    c = {'kind': 'value', 'stream': stream, 'v': v}
    if rng.random() < 0.25:                          # convert_value beyond what BoundedAttributes holds
        c['bounded'] = False
        c['v'] = rng.choice([{'a': 1, 'b': ['x', 2.5]}, [1, 'a', [True]], {'bytes': [0, 255]}, [], {}, {'k': {'n': 'v'}}])
    return c


def gen_auth(rng, stream='main'):
    p = rng.random()
    cfg = {}
    if p < 0.15:
        cfg['provider'] = None
    elif p < 0.25:
        cfg['provider'] = ''
    elif p < 0.70:
        cfg['provider'] = 'deep.api.auth.BasicAuthProvider'
    else:
        cfg['provider'] = 'props.c08.TokenProvider'
        # gRPC metadata is a multimap: a key may repeat, and the order is the provider's
        cfg['custom_md'] = rng.choice([[['authorization', 'Bearer tok']], [], [['x-api-key', 'k'], ['x-org', 'é']],
                                       [['authorization', 'Basic%20zzz']],
                                       [['x-scope-orgid', 'a'], ['x-scope-orgid', 'b']],
                                       [['x-scope-orgid', 'b'], ['authorization', 'Bearer t'], ['x-scope-orgid', 'a']],
                                       [['z-last', '1'], ['a-first', '2'], ['z-last', '1']]])
        cfg['md_form'] = rng.choice(['list', 'tuple'])
    for k in ('username', 'password'):
        r = rng.random()
        if r < 0.65:
            cfg[k] = rng.choice(['bob', 'obo', '', 'é user', 'p:w', 'x' * 40, '😀'])
    n = rng.randint(1, 5)
    ops = [rng.choice(['poll', 'push']) for _ in range(n)]
    snaps = [{'tp_id': 'tp%d' % i, 'ts': 1_700_000_000_000_000_000 + i, 'attrs': [gen_attr(rng, i) for i in range(rng.choice([0, 1, 2]))],
              'resource': [gen_attr(rng, 20)] if rng.random() < 0.3 else []} for i in range(2)]
    case = {'kind': 'auth', 'stream': stream, 'cfg': cfg, 'ops': ops, 'snaps': snaps,
            'resource': [gen_attr(rng, 30 + i) for i in range(rng.choice([0, 1, 2]))]}
    if stream == 'main' and rng.random() < 0.25:
        # the provider cannot answer the first k times it is asked (token not there yet), then recovers
        cfg['provider'] = 'props.c08.ScriptedProvider'
        cfg['custom_md'] = rng.choice([[['authorization', 'Bearer s3cr3t'], ['x-tenant', 'acme']], [['authorization', 'Bearer t']],
                                       [['x-scope-orgid', 'a'], ['x-scope-orgid', 'b']]])
        cfg['fail_first'] = rng.choice([0, 1, 1, 2, 3])
        case['ops'] = [rng.choice(['poll', 'push']) for _ in range(rng.randint(2, 6))]
        if rng.random() < 0.35:
            cfg['fail_first'] = 0
            case['concurrent'] = True
            case['ops'] = rng.choice([['poll', 'push'], ['push', 'poll'], ['push', 'push'], ['poll', 'poll']])
            return case
    if stream == 'main' and not case.get('concurrent') and rng.random() < 0.14:
        r2 = rng.random()
        for k in ('custom_md', 'fail_first', 'md_form'):
            cfg.pop(k, None)
        if r2 < 0.5:
            cfg['provider'] = rng.choice(UNLOADABLE)          # a provider class that cannot be loaded
        elif r2 < 0.7:
            cfg['provider'] = rng.choice(NOT_A_PROVIDER)      # a callable that is not a provider
        elif r2 < 0.85:
            cfg['provider'] = 'props.c08.TokenProvider'       # a provider that answers None
            cfg['custom_md'], cfg['md_form'] = [], 'none'
        else:
            cfg['provider'] = 'deep.api.auth.BasicAuthProvider'
            cfg['username'], cfg['password'] = rng.choice([['bob', 'pw\ud800'], ['\udc00', 'x'], [5, 'x'], ['bob', 7]])
            case['stream'] = 'bad-credentials'
        return case
    if rng.random() < 0.2:
        # through a real channel to a loopback gRPC server (gRPC metadata must be ASCII with lower-case keys)
        case['transport'] = 'grpc'
        for k in ('username', 'password'):
            if k in cfg and not cfg[k].isascii():
                cfg[k] = 'ascii-' + k
        if cfg.get('custom_md'):
            cfg['custom_md'] = [[k2, v2 if v2.isascii() else 'org'] for k2, v2 in cfg['custom_md']]
    if stream == 'seq-none':
        if rng.random() < 0.5:
            case['resource'].append(['withnone', ['x', None]])
        else:
            case['snaps'][0]['attrs'].append(['withnone', [None]])
            case['ops'].append('push')
            case['snaps'] = [case['snaps'][0]]
    elif stream == 'big-int':
        case['resource'].append(['bigint', 2 ** 64])
    elif stream == 'surrogate':
        case['snaps'] = [dict(case['snaps'][0], attrs=[['bad', rng.choice(BAD)]])]
        case['ops'].append('push')
    return case


def gen_uploads(rng):
    snaps = []
    for i, tag in enumerate(rng.sample(['A', 'B', 'C', 'dé', 'E'], rng.choice([2, 2, 3]))):
        snaps.append({'tag': tag, 'n_vars': rng.randint(1, 5), 'n_frames': rng.randint(0, 3),
                      'ts': 1_700_000_000_000_000_000 + i, 'log': rng.choice([None, 'log of ' + tag]),
                      'error_watch': rng.choice([None, 'boom ' + tag, '-']),
                      'attrs': [['a_' + tag, rng.choice(['x', 5, True, ['p', 'q']])]] + (
                          [gen_attr(rng, i)] if rng.random() < 0.5 else []),
                      'resource': [['r_' + tag, 'res ' + tag]]})
    return {'kind': 'uploads', 'stream': 'main', 'snaps': snaps}


def gen_wirebytes(rng):
    tag = rng.choice(['A', 'B', 'dé', '中'])
    snap = {'tag': tag, 'n_vars': rng.randint(0, 4), 'n_frames': rng.randint(0, 2),
            'ts': rng.choice([0, 1, 1_700_000_000_000_000_000, 2 ** 64 - 1]), 'log': rng.choice([None, '', 'log of ' + tag]),
            'error_watch': rng.choice([None, 'boom', '-']),
            'attrs': [gen_attr(rng, i) for i in range(rng.choice([0, 1, 3]))],
            'resource': [gen_attr(rng, 10 + i) for i in range(rng.choice([0, 1]))]}
    kind = rng.choice(['unknown-field', 'unknown-field', 'reorder', 'dup-scalar', 'padded-varint', 'truncate', 'truncate',
                       'bad-utf8', 'dup-map-key', 'oneof-both', 'oneof-both', 'big-enum'])
    return {'kind': 'wirebytes', 'stream': 'main', 'snap': snap,
            'mut': {'kind': kind, 'seed': rng.randrange(2 ** 32), 'n': rng.choice([1, 2, 5])}}


def gen_scale(rng, size):
    nums = {'line': rng.choice(BOUNDS32 + [0, 1, 40]), 'col': rng.choice(BOUNDS32 + [0]), 'tline': rng.choice(BOUNDS32 + [0]),
            'tcol': rng.choice(BOUNDS32 + [0]), 'tp_line': rng.choice(BOUNDS32 + [0, 7]),
            'ts': rng.choice(BOUNDS64 + [0, 1]), 'duration': rng.choice(BOUNDS64 + [0, 1]),
            'attr_int': rng.choice([2 ** 31 - 1, 2 ** 31 + 1, 2 ** 32 - 1, 2 ** 63 - 1, -2 ** 63, -2 ** 31 - 1])}
    if size == 'bytes':            # well past 4 MiB on the wire
        entries, strlen = rng.choice([[6000, 1024], [4500, 1500], [900, 9000]])
    elif size == 'entries':        # past 2^16 table entries (and past 4 MiB)
        entries, strlen = rng.choice([[70000, 60], [66000, 80]])
    else:
        entries, strlen = rng.choice([[0, 1], [1, 1], [3, 20], [40, 100], [255, 10], [256, 3]])
    return {'kind': 'scale', 'stream': 'main', 'entries': entries, 'strlen': strlen, 'nums': nums,
            'ascii': rng.random() < 0.7}


def gen_rotating(rng):
    """a provider whose token rotates / expires between operations (labelled: known finding)"""
    n = rng.randint(2, 6)
    epochs, e = [], 0
    for _ in range(n):
        epochs.append(e)
        if rng.random() < 0.5:
            e += 1
    if len(set(epochs)) == 1:
        epochs[-1] = epochs[-1] + 1
    return {'kind': 'auth', 'stream': 'rotating',
            'cfg': {'provider': 'props.c08.ScriptedProvider', 'rotate': True,
                    'custom_md': rng.choice([[], [['x-tenant', 'acme']]])},
            'ops': [rng.choice(['poll', 'push']) for _ in range(n)], 'epochs': epochs, 'resource': [],
            'snaps': [{'tp_id': 'tp0', 'ts': 1_700_000_000_000_000_000, 'attrs': [], 'resource': []}]}


def clean(case):
    """main stream cases must not be instances of a known finding"""
    return not (inst_surrogate(case) or inst_big_int(case) or inst_rotating(case))


def gen(rng, tier):
    k = 0
    while True:
        k += 1
        r = rng.random()
        if k % 9 == 0:                   # None inside sequence attributes: a normal, judged stream
            kind = rng.choice(['snapshot', 'snapshot', 'value', 'auth'])
            c = {'snapshot': gen_snapshot, 'value': gen_value, 'auth': gen_auth}[kind](rng, 'seq-none')
            if clean(c):
                yield c
            continue
        if k % 14 == 0:
            stream = ['surrogate', 'big-int', 'rotating'][(k // 14) % 3]
            if stream == 'rotating':
                yield gen_rotating(rng)
                continue
            kind = rng.choice(['snapshot', 'snapshot', 'value', 'auth'])
            yield {'snapshot': gen_snapshot, 'value': gen_value, 'auth': gen_auth}[kind](rng, stream)
            continue
        if k % 600 == 300:
            yield gen_scale(rng, rng.choice(['bytes', 'bytes', 'entries']))   # 2 per quick run, ~40 in thorough
            continue
        if 0.975 < r <= 0.985:
            yield gen_scale(rng, 'small')
            continue
        if r > 0.985:
            yield {'kind': 'tpline', 'stream': 'main', 'how': rng.choice(['method', 'line']),
                   'line': rng.choice([0, 1, 40, 2 ** 31, 2 ** 32 - 1, rng.randint(1, 5000)])}
            continue
        c = gen_snapshot(rng) if r < 0.58 else gen_uploads(rng) if r < 0.61 else gen_wirebytes(rng) if r < 0.68 \
            else gen_value(rng) if r < 0.81 else gen_auth(rng)
        if clean(c):
            yield c


def search(rng, tier):
    """aimed at a failing input when a proof / the translation / the correspondence broke: main stream only"""
    for c in gen(rng, tier):
        if c.get('stream') in ('main', 'seq-none'):
            yield c


def corpus():
    base = {'kind': 'snapshot', 'stream': 'main', 'names': ['v0', 'self'], 'nested': True, 'tp_id': 'tp-1',
            'locals': [{'k': 'list', 'v': [{'k': 'str', 'v': 'x' * 1100}, {'k': 'int', 'v': 2 ** 100}]},
                       {'k': 'obj', 'cls': 'Pt', 'attrs': [['_Pt__priv', {'k': 'str', 'v': '😀'}]]}],
            'args': {'frame_type': 'all_frame', 'log_msg': 'v={v0} {nope}'}, 'watches': ['v0', '1/0'],
            'attrs': [['t', {'tuple': ['a', 'b']}], ['l', [1, 2]], ['b', True], ['f', 0.5]],
            'resource': [['service.name', 'svc'], ['tags', ['x', 'y']]]}
    two = {'kind': 'uploads', 'stream': 'main', 'snaps': [
        {'tag': 'A', 'n_vars': 3, 'n_frames': 1, 'ts': 1_700_000_000_000_000_000, 'log': 'log A', 'error_watch': None,
         'attrs': [['a_A', ['p', 'q']]], 'resource': [['r_A', 'res A']]},
        {'tag': 'B', 'n_vars': 5, 'n_frames': 2, 'ts': 1_700_000_000_000_000_001, 'log': None, 'error_watch': '-',
         'attrs': [['a_B', {'sub': 'HTTPStatus.OK'}]], 'resource': [['r_B', {'sub': 'Color.RED'}]]}]}
    def wb(kind, seed):
        return {'kind': 'wirebytes', 'stream': 'main', 'mut': {'kind': kind, 'seed': seed, 'n': 2},
                'snap': {'tag': 'dé', 'n_vars': 2, 'n_frames': 1, 'ts': 1_700_000_000_000_000_000, 'log': 'log é',
                         'error_watch': 'boom', 'attrs': [['a', ['p', None, 2.5]], ['n', -1]], 'resource': [['r', 'x']]}}
    emptyerr = dict(base, names=['v0', 'mkjob'], nested=False, attrs=[], resource=[],
                    locals=[{'k': 'int', 'v': 3}, {'k': 'jobfactory', 'exc': 'CancelledError', 'msg': ''}],
                    args={'log_msg': 'job={mkjob()}'}, watches=['v0', 'mkjob()', '1/0'])
    return [
        base,
        two,                                                                    # two uploads converting at once
        dict(base, capture=True, nested=False),
        dict(base, names=['v0', 'obj'], nested=False, watches=['obj'], args={},                 # `_Ab` and `b`: same object
             locals=[{'k': 'int', 'v': 1}, {'k': 'collide', 'v': {'k': 'list', 'v': [{'k': 'int', 'v': 1}]}}]),
        dict(base, method=True, watches=['len(__v)', 'nope']),                   # method tracepoint: location line -1
        dict(base, method=True, nested=False, args={}, watches=[]),
        {'kind': 'tpline', 'stream': 'main', 'how': 'method', 'line': 0},
        {'kind': 'tpline', 'stream': 'main', 'how': 'line', 'line': 2 ** 32 - 1},
        dict(base, clock_back=5_000_000_000),                                   # wall clock stepped back 5 s (a7b49ff)                                 # CAPTURE source from the collector
        dict(base, attrs=[['status', {'sub': 'HTTPStatus.NOT_FOUND'}], ['color', {'sub': 'Color.RED'}],
                          ['ratio', {'sub': 'Ratio(0.25)'}]], resource=[['level', {'sub': 'Level.HIGH'}],
                                                                        ['prio', {'sub': 'Prio.TOP'}]]),
        {'kind': 'value', 'stream': 'main', 'v': {'sub': 'HTTPStatus.OK'}},
        {'kind': 'value', 'stream': 'main', 'bounded': False, 'v': {'a': [1, {'b': [None, -1, 2.5, {'bytes': [0, 255]}]}], 'é': {}}},
        wb('unknown-field', 1), wb('reorder', 2), wb('dup-scalar', 3), wb('padded-varint', 4), wb('truncate', 5),
        wb('bad-utf8', 6),
        emptyerr,                                                               # an error watch whose text is ''
        {'kind': 'auth', 'stream': 'main', 'cfg': {'provider': 'props.c08.ScriptedProvider', 'fail_first': 1,
                                                   'custom_md': [['authorization', 'Bearer s3cr3t'], ['x-tenant', 'acme']]},
         'ops': ['poll', 'poll', 'push', 'poll'], 'resource': [['service.name', 'svc']],
         'snaps': [{'tp_id': 'tp0', 'ts': 1_700_000_000_000_000_000, 'attrs': [], 'resource': []}]},
        {'kind': 'auth', 'stream': 'main', 'cfg': {'provider': 'deep.api.auth.Missing'}, 'ops': ['poll', 'push', 'poll'],
         'resource': [['service.name', 'svc']],
         'snaps': [{'tp_id': 'tp0', 'ts': 1_700_000_000_000_000_000, 'attrs': [], 'resource': []}]},
        {'kind': 'auth', 'stream': 'main', 'cfg': {'provider': 'builtins.None'}, 'ops': ['poll', 'push'], 'resource': [],
         'snaps': [{'tp_id': 'tp0', 'ts': 1_700_000_000_000_000_000, 'attrs': [], 'resource': []}]},
        {'kind': 'auth', 'stream': 'main', 'cfg': {'provider': 'logging.debug'}, 'ops': ['poll', 'push', 'poll'], 'resource': [],
         'snaps': [{'tp_id': 'tp0', 'ts': 1_700_000_000_000_000_000, 'attrs': [], 'resource': []}]},
        {'kind': 'auth', 'stream': 'main', 'cfg': {'provider': 'props.c08.TokenProvider', 'custom_md': [], 'md_form': 'none'},
         'ops': ['poll', 'push', 'poll'], 'resource': [],
         'snaps': [{'tp_id': 'tp0', 'ts': 1_700_000_000_000_000_000, 'attrs': [], 'resource': []}]},
        {'kind': 'auth', 'stream': 'bad-credentials',
         'cfg': {'provider': 'deep.api.auth.BasicAuthProvider', 'username': 'bob', 'password': 'pw\ud800'},
         'ops': ['poll', 'push'], 'resource': [],
         'snaps': [{'tp_id': 'tp0', 'ts': 1_700_000_000_000_000_000, 'attrs': [], 'resource': []}]},
        {'kind': 'auth', 'stream': 'bad-credentials',
         'cfg': {'provider': 'deep.api.auth.BasicAuthProvider', 'username': 5, 'password': 'x'},
         'ops': ['push', 'poll'], 'resource': [],
         'snaps': [{'tp_id': 'tp0', 'ts': 1_700_000_000_000_000_000, 'attrs': [], 'resource': []}]},
        {'kind': 'scale', 'stream': 'main', 'entries': 6000, 'strlen': 1024, 'ascii': True,
         'nums': {'line': 2 ** 31 + 1, 'col': 2 ** 32 - 1, 'tline': 2 ** 31 - 1, 'tcol': 2 ** 31, 'tp_line': 2 ** 32 - 1,
                  'ts': 2 ** 63 - 1, 'duration': 2 ** 64 - 1, 'attr_int': 2 ** 63 - 1}},
        {'kind': 'scale', 'stream': 'main', 'entries': 66000, 'strlen': 70, 'ascii': False,
         'nums': {'line': 2 ** 32 - 1, 'col': 0, 'tline': 0, 'tcol': 0, 'tp_line': 2 ** 31 + 1, 'ts': 2 ** 64 - 1,
                  'duration': 2 ** 63 - 1, 'attr_int': -2 ** 63}},
        {'kind': 'scale', 'stream': 'main', 'entries': 40, 'strlen': 100, 'ascii': False,
         'nums': {'line': 2 ** 31, 'col': 2 ** 31 + 1, 'tline': 2 ** 32 - 1, 'tcol': 2 ** 31 - 1, 'tp_line': 2 ** 31 - 1,
                  'ts': 2 ** 63, 'duration': 2 ** 32, 'attr_int': -2 ** 31 - 1}},
        wb('dup-map-key', 7), wb('oneof-both', 8), wb('oneof-both', 9), wb('big-enum', 10),
        {'kind': 'auth', 'stream': 'main', 'concurrent': True,
         'cfg': {'provider': 'props.c08.ScriptedProvider', 'custom_md': [['authorization', 'Bearer s3cr3t']]},
         'ops': ['poll', 'push'], 'resource': [],
         'snaps': [{'tp_id': 'tp0', 'ts': 1_700_000_000_000_000_000, 'attrs': [], 'resource': []}]},
        {'kind': 'value', 'stream': 'main', 'v': {'tuple': ['a', 'b']}},        # D11
        {'kind': 'value', 'stream': 'main', 'v': True},
        {'kind': 'value', 'stream': 'seq-none', 'v': ['x', None, 'y']},          # fixed: 3b003de
        dict(base, stream='seq-none', attrs=[['k', ['x', None, 'y']]], resource=[['r', {'tuple': [None, 1]}]]),
        {'kind': 'auth', 'stream': 'main', 'cfg': {'provider': 'deep.api.auth.BasicAuthProvider', 'username': 'bob',
                                                   'password': 'obo'},
         'ops': ['poll', 'push', 'poll', 'push'], 'resource': [['test', 'test_poll']],
         'snaps': [{'tp_id': 'tp0', 'ts': 1_700_000_000_000_000_000, 'attrs': [['a', ['x', 'y']]], 'resource': []}]},
        {'kind': 'auth', 'stream': 'main', 'cfg': {'provider': 'props.c08.TokenProvider',
                                                   'custom_md': [['authorization', 'Bearer t']]},
         'ops': ['push', 'poll'], 'resource': [],
         'snaps': [{'tp_id': 'tp0', 'ts': 1_700_000_000_000_000_000, 'attrs': [], 'resource': []}]},
        {'kind': 'auth', 'stream': 'main', 'cfg': {'provider': 'props.c08.TokenProvider', 'md_form': 'tuple',
                                                   'custom_md': [['x-scope-orgid', 'a'], ['authorization', 'Bearer t'],
                                                                 ['x-scope-orgid', 'b']]},
         'ops': ['poll', 'push'], 'resource': [],
         'snaps': [{'tp_id': 'tp0', 'ts': 1_700_000_000_000_000_000, 'attrs': [], 'resource': []}]},
        {'kind': 'auth', 'stream': 'main', 'transport': 'grpc',
         'cfg': {'provider': 'deep.api.auth.BasicAuthProvider', 'username': 'bob', 'password': 'obo'},
         'ops': ['poll', 'push'], 'resource': [['service.name', 'svc']],
         'snaps': [{'tp_id': 'tp0', 'ts': 1_700_000_000_000_000_000, 'attrs': [['t', {'tuple': ['a', None]}]],
                    'resource': []}]},
    ]


def known_replays():
    sur = {'kind': 'snapshot', 'stream': 'surrogate', 'names': ['v0'], 'nested': False, 'tp_id': 'tp-1',
           'locals': [{'k': 'str', 'v': 'v\ud800'}], 'args': {}, 'watches': [], 'attrs': [], 'resource': []}
    bigc = dict(sur, stream='big-int', locals=[{'k': 'int', 'v': 1}], attrs=[['k', 2 ** 70]])
    rot = {'kind': 'auth', 'stream': 'rotating', 'cfg': {'provider': 'props.c08.ScriptedProvider', 'rotate': True,
                                                         'custom_md': []},
           'ops': ['poll', 'push', 'poll', 'push'], 'epochs': [0, 0, 1, 2], 'resource': [],
           'snaps': [{'tp_id': 'tp0', 'ts': 1_700_000_000_000_000_000, 'attrs': [], 'resource': []}]}
    return [
        ('C08/auth-metadata-cached-forever',
         'a provider whose token rotates is asked once: later polls and snapshot uploads carry the first token '
         '(GRPCService caches the metadata for the life of the agent)', rot),
        ('C08/lone-surrogate-dropped',
         "a local str 'v\\ud800' (lone surrogate): protobuf refuses the text, convert_snapshot returns None, the "
         "snapshot is silently not sent", sur),
        ('C08/attr-int-out-of-range-dropped',
         'snapshot attribute 2**70: ValueError in AnyValue(int_value=..), the snapshot is silently not sent', bigc),
    ]


# ------------------------------------------------------------------------------------------ bookkeeping
def label(case, obs):
    k = case['kind']
    s = case.get('stream', 'main')
    pre = f'{k}/' + ('' if s in ('main', 'bad-credentials') else 'seq-none/' if s == 'seq-none' else f'KNOWN:{s}/')
    if k == 'scale':
        return pre + ('not-sent' if not obs.get('arrived') else
                      '>2^16-entries' if obs['entries'] > 2 ** 16 else '>4MiB' if obs['bytes'] > 4 * 1024 * 1024 else 'boundaries')
    if k == 'tpline':
        return pre + case['how'] + ('/not-built' if not obs.get('built') else '')
    if k == 'wirebytes':
        return pre + case['mut']['kind'] + ('/not-converted' if not obs.get('converted') else
                                            '/read' if obs['parsed'] is not None else '/refused')
    if k == 'uploads':
        return pre + '%d-at-once' % len(case['snaps']) + ''.join('/' + n for n in obs.get('notes', []))
    if k == 'snapshot':
        if not obs.get('collected'):
            return pre + 'not-collected'
        if obs.get('msg') is None:
            return pre + 'dropped'
        n = len(obs['snapshot']['var_lookup'])
        return pre + ('method-tp/' if case.get('method') else '') + ('small' if n < 5 else 'medium' if n < 40 else 'large')
    if k == 'value':
        return pre + ('refused-by-attributes' if not obs.get('held') else 'raised' if 'raised' in obs
                      else obs['any']['f'])
    p = case['cfg'].get('provider')
    return pre + ('grpc-loopback/' if case.get('transport') == 'grpc' else '') + (
        'two-threads/' if case.get('concurrent') else '') + (
        'no-provider' if not p else 'unloadable' if p in UNLOADABLE else 'not-a-provider' if p in NOT_A_PROVIDER else
        'answers-none' if case['cfg'].get('md_form') == 'none' else 'bad-credentials' if bad_credentials(case['cfg']) else 'basic' if p.endswith('BasicAuthProvider') else
        'scripted-fail%d' % int(case['cfg'].get('fail_first') or 0) if p.endswith('ScriptedProvider') else 'custom')


def nontrivial(case, obs):
    k = case['kind']
    if case.get('stream', 'main') not in ('main', 'seq-none', 'bad-credentials'):
        return False
    if k == 'scale':
        return bool(obs.get('arrived'))
    if k == 'tpline':
        return bool(obs.get('built')) and case['how'] == 'method'
    if k == 'wirebytes':
        return bool(obs.get('converted')) and bool(obs.get('changed'))
    if k == 'uploads':
        return not obs.get('notes')
    if k == 'snapshot':
        if not obs.get('collected') or not obs.get('msg'):
            return False
        sd = obs['snapshot']
        blob = json.dumps(sd)
        return len(sd['var_lookup']) >= 5 and (
            any(w['error'] is not None for w in sd['watches']) or any(v['truncated'] for _, v in sd['var_lookup'])
            or any(v['t'] == 'tuple' for _, v in sd['attributes']) or '\\ud83' in blob)
    if k == 'value':
        return bool(obs.get('held')) and obs.get('any', {}).get('f') in ('array_value', 'kvlist_value')
    return len(case['ops']) >= 2 and bool(case['cfg'].get('provider'))


def shrink(case):
    k = case['kind']
    if k == 'snapshot':
        for key in ('attrs', 'resource', 'watches'):
            for i in range(len(case[key])):
                c = dict(case)
                c[key] = case[key][:i] + case[key][i + 1:]
                yield c
        if len(case['names']) > 1:
            for i in range(len(case['names'])):
                c = dict(case)
                c['names'] = case['names'][:i] + case['names'][i + 1:]
                c['locals'] = case['locals'][:i] + case['locals'][i + 1:]
                c['watches'] = [w for w in case['watches'] if case['names'][i] not in w]
                if 'log_msg' in c['args'] and case['names'][i] in c['args']['log_msg']:
                    c['args'] = {a: b for a, b in c['args'].items() if a != 'log_msg'}
                yield c
        for key in list(case['args']):
            c = dict(case)
            c['args'] = {a: b for a, b in case['args'].items() if a != key}
            yield c
        if case['nested']:
            yield dict(case, nested=False)
        for i, sp in enumerate(case['locals']):
            if sp['k'] not in ('int', 'none'):
                c = dict(case)
                c['locals'] = case['locals'][:i] + [{'k': 'int', 'v': 1}] + case['locals'][i + 1:]
                yield c
    elif k == 'auth' and not case.get('concurrent'):
        for i in range(len(case['ops'])):
            if len(case['ops']) > 1:
                yield dict(case, ops=case['ops'][:i] + case['ops'][i + 1:])
        if case['resource']:
            yield dict(case, resource=[])
        for j, s in enumerate(case['snaps']):
            if s['attrs']:
                sn = list(case['snaps'])
                sn[j] = dict(s, attrs=[])
                yield dict(case, snaps=sn)


def evidence_extra():
    return {'known_finding_predicates': {
        'C08/lone-surrogate-dropped': 'some text in the case contains a surrogate code point',
        'C08/attr-int-out-of-range-dropped': 'some attribute int (or sequence element) is outside [-2^63, 2^63)',
        'C08/auth-metadata-cached-forever': 'the configured provider rotates and the epochs of the operations differ '
                                            '(it really returns different metadata on successive calls)'}}
