"""c02_gen — deterministic generator of host programs for C02 (snapshot fidelity).

A program is two Python source texts (module A under `$HOST/app/`, module B under `$HOST/lib/`) with a call chain of
1-6 levels of different kinds (plain function, method, classmethod, staticmethod, closure, method of a nested class,
recursive function, function of module B calling back through a lambda), locals of many kinds in every level, and a
list of candidate tracepoint positions.  Every random choice comes from the `rng` handed in.

`@@A@@` / `@@B@@` in the sources stand for the module names (chosen by the runner so that imports never collide).
"""

COMMON = '''

class Plain:
    def __init__(self, v=1):
        self.v = v
        self.name = 'plain%s' % v


class Priv:
    def __init__(self):
        self.__secret = 41
        self._prot = 'p'
        self.pub = [1, 2]


class Child(Priv):
    def __init__(self):
        super().__init__()
        self.__own = {'k': 1}
        self.extra = (1, 'x')


class Slotted:
    __slots__ = ('a', 'b')

    def __init__(self):
        self.a = 1
        self.b = 'two'


class WithStr:
    def __init__(self, t):
        self.t = t

    def __str__(self):
        return 'WithStr<%s>' % self.t


class Outer:
    class Inner:
        def __init__(self):
            self.depth = 2


class MyList(list):
    pass


class MyDict(dict):
    pass


class MyExc(Exception):
    def __init__(self, *a):
        super().__init__(*a)
        self.code = 17


class Node:
    def __init__(self, label):
        self.label = label
        self.next = None


class EmptyBox:
    def __init__(self):
        self.items = []

    def __len__(self):
        return len(self.items)


class Never:
    def __bool__(self):
        return False


class EqRaises:
    def __eq__(self, other):
        raise TypeError('cannot compare')


class Ambiguous:
    def __bool__(self):
        raise ValueError('the truth value is ambiguous')


class EqArray:
    """element-wise comparison, as an array type does: the result of == is not a bool"""
    def __init__(self):
        self.data = [1, 2]

    def __eq__(self, other):
        return Ambiguous()


class EqAlways:
    def __eq__(self, other):
        return True


class NaNLike:
    def __eq__(self, other):
        return False


class Proxy:
    """reports the class of what it stands for, as a mock with a spec does"""
    @property
    def __class__(self):
        return Plain


class NoClass:
    """an object whose class cannot be read"""
    @property
    def __class__(self):
        raise RuntimeError('no class for you')


class Trap:
    def __init__(self):
        self._Trapdoor = 'not private'
        self.__real = 'private'
        self._Plainish = 'begins with the name of another class'
        self._dict_like = {'_dict_inner': 1}


def make_local_class():
    class Local:
        def __init__(self):
            self.where = 'local'
    return Local()


def gen3():
    yield 1
    yield 2
'''

PRELUDE_A = '''import math
import @@B@@ as B
G_INT = 7
G_STR = 'glob'
G_LIST = [1, 2, 3]
shadow = 'global-shadow'
''' + COMMON

PRELUDE_B = '''import math
import sys
B = sys.modules[__name__]
G_INT = 70
G_STR = 'lib-glob'
G_LIST = [7, 8]
LIB_G = 'lib-global'
shadow = 'lib-shadow'


class LibObj:
    def __init__(self):
        self.__libpriv = 3
        self.items = [1, 2, 3]
''' + COMMON

SCALARS = ['0', '5', '-3', '10 ** 20', '255', '256', '257', '1.5', '-0.0', "float('inf')", 'True', 'False', 'None',
           "''", "'abc'", "'h\\u00e9\\U0001F600'", "'quote\\'s \"x\"'", "'line1\\nline2'", "'ab' * 600",
           "'x' * 1024", "'x' * 1025", "b'ab\\x00'", "'\\u4e2d\\u6587'", '3 + 4j', "float('nan')"]


def scalar(rng):
    return rng.choice(SCALARS)


def leaf(rng):
    return rng.choice(['1', '2', '3', '42', "'a'", "'b'", "'zz'", '1000', '2.5', 'None', 'True'])


def nested_list(rng, depth):
    if depth <= 0:
        return '[%s]' % ', '.join(leaf(rng) for _ in range(rng.randint(0, 3)))
    n = rng.randint(1, 3)
    return '[%s]' % ', '.join(nested_list(rng, depth - 1) if rng.random() < 0.6 else leaf(rng) for _ in range(n))


def container(rng):
    r = rng.randint(0, 16)
    if r == 0:
        return '[]'
    if r == 1:
        return 'list(range(%d))' % rng.choice([9, 10, 11, 15, 30])
    if r == 2:
        return nested_list(rng, rng.randint(1, 3))
    if r == 3:
        return '[[[[[[[1, 2]]]]]], 5]'
    if r == 4:
        return '(%s,)' % leaf(rng)
    if r == 5:
        return '(1, (2, (3, (4,))), %s)' % leaf(rng)
    if r == 6:
        return '{%s}' % ', '.join(sorted(set(rng.choice(['1', '2', '3', '5', '8', '13', '21']) for _ in range(4))))
    if r == 7:
        return "frozenset(['a', 'b', 'cc'])"
    if r == 8:
        return "{'a': 1, 'b': [1, 2], 'c': {'d': None}}"
    if r == 9:
        return "{1: 'one', 2: 'two', (3, 4): 'tuple-key', None: 0}"
    if r == 10:
        return '{str(i): i for i in range(%d)}' % rng.choice([10, 11, 14])
    if r == 11:
        return "{'__dunder': 1, '_under': 2, 'plain': 3}"
    if r == 12:
        return 'set()'
    if r == 13:
        return 'tuple(range(%d))' % rng.choice([10, 11, 12])
    if r == 14:
        return "{'k%d' % i: [i] for i in range(3)}"
    if r == 15:
        return "{'_dict_size': 1, '_dictionary': [2], '_dict': 3, '_size': 4, 'ionary': 5, '_list_x': 6}"
    return '{}'


def obj(rng):
    return rng.choice(['Plain()', 'Plain(%d)' % rng.randint(2, 9), 'Priv()', 'Child()', 'Slotted()',
                       "WithStr('w')", 'Outer.Inner()', 'Outer()', 'MyList([1, 2])', "MyDict(a=1)",
                       'make_local_class()', 'B.LibObj()', 'Node(1)', 'object()', 'Trap()', 'EmptyBox()', 'Never()',
                       'EqRaises()', 'EqArray()', 'EqAlways()', 'NaNLike()', 'EqRaises()', 'EqArray()', 'Proxy()',
                       'NoClass()'])


def exc(rng):
    return rng.choice(["ValueError('bad', 3)", "KeyError('k')", "MyExc('m', [1, 2])", 'RuntimeError()',
                       "OSError(2, 'nope')", "Exception(Plain())"])


def itr(rng):
    return rng.choice(['iter([1, 2, 3])', 'reversed([1, 2])', 'iter((1, 2))', "iter({'a': 1})", 'gen3()',
                       '(i for i in range(3))', 'range(4)', 'enumerate([1])', 'iter(set())', "iter('ab')"])


def misc(rng):
    return rng.choice(['len', 'lambda: 1', 'Plain', 'math', 'make_local_class', 'Plain().__init__', 'type',
                       'Ellipsis', 'NotImplemented', 'slice(1, 2)', 'G_LIST', 'B'])


class Body:
    """lines of one function body, with the names assigned so far."""

    def __init__(self, rng, prefix, indent):
        self.rng = rng
        self.prefix = prefix
        self.ind = ' ' * indent
        self.lines = []           # (text, is_candidate)
        self.names = []
        self.k = 0

    def fresh(self):
        self.k += 1
        r = self.rng.random()
        # now and then a protected / private looking local (inside a class body the compiler mangles `__x`)
        # … and names that begin with `_` + the type name of the container they live in (frame locals are a `dict`):
        # a collector that strips `_<type name>` from every child name would show locals that do not exist
        lead = ('_' if r < 0.06 else '__' if r < 0.1 else '_dict_' if r < 0.16 else '_dictionary' if r < 0.19
                else '_dict' if r < 0.21 else '')
        return '%s%s%d' % (lead, self.prefix, self.k)

    def emit(self, text, cand=True):
        self.lines.append((self.ind + text, cand))

    def add_local(self, params=()):
        rng = self.rng
        v = self.fresh()
        known = list(self.names) + list(params)
        r = rng.random()
        if r < 0.22:
            self.emit('%s = %s' % (v, scalar(rng)))
        elif r < 0.42:
            self.emit('%s = %s' % (v, container(rng)))
        elif r < 0.55:
            self.emit('%s = %s' % (v, obj(rng)))
        elif r < 0.61:
            self.emit('%s = %s' % (v, exc(rng)))
        elif r < 0.67:
            self.emit('%s = %s' % (v, itr(rng)))
        elif r < 0.72:
            self.emit('%s = %s' % (v, misc(rng)))
        elif r < 0.82 and known:
            o = rng.choice(known)
            self.emit(rng.choice(['%s = %s', '%s = [%s, %s]', "%s = {'k': %s, 'again': %s}", '%s = (%s, 1, %s)'])
                      .replace('%s', v, 1).replace('%s', o))
        elif r < 0.87:
            c = rng.randint(0, 4)
            if c == 0:
                self.emit('%s = []' % v)
                self.emit('%s.append(%s)' % (v, v))
            elif c == 1:
                self.emit('%s = {}' % v)
                self.emit("%s['me'] = %s" % (v, v))
            elif c == 2:
                self.emit('%s = Node(0)' % v)
                self.emit('%s.next = %s' % (v, v))
            elif c == 3:
                w = self.fresh()
                self.emit('%s = []' % v)
                self.emit('%s = [%s]' % (w, v))
                self.emit('%s.append(%s)' % (v, w))
                self.names.append(w)
            else:
                self.emit('%s = Node(1)' % v)
                self.emit('%s.next = Node(2)' % v)
                self.emit('%s.next.next = %s' % (v, v))
        elif r < 0.90:
            self.emit('try:', cand=False)
            self.emit('    1 / 0', cand=False)
            self.emit('except ZeroDivisionError as err_%s:' % v, cand=False)
            self.emit('    %s = err_%s' % (v, v), cand=False)
        elif r < 0.93:
            self.emit("shadow = 'local-shadow-%s'" % v)
            v = 'shadow'
        elif r < 0.96 and self.names:
            d = rng.choice(self.names)
            if d != 'shadow' and not d.startswith('r') and not d.startswith('me') and not d.startswith('__'):
                self.emit('del %s' % d)
                self.names.remove(d)
            return
        else:
            self.emit('%s = %s' % (v, scalar(rng)))
        if v not in self.names:
            self.names.append(v)


KINDS = ['func', 'func', 'method', 'method', 'classmethod', 'staticmethod', 'closure', 'inner_method', 'recursive',
         'libfunc', 'varargs', 'composite', 'composite']


def gen_program(rng, depth=None, nlocals=None):
    """returns {'a': src, 'b': src, 'cands': [{'file','line','level','func','names','callers'}], 'funcs': [...]}"""
    depth = depth or rng.choice([1, 2, 2, 3, 3, 4, 5, 6])
    kinds = [rng.choice(KINDS) for _ in range(depth)]
    nl = nlocals if nlocals is not None else rng.choice([0, 1, 2, 3, 3, 4, 6])
    a_defs = []       # list of list-of-(text, cand, meta)
    b_defs = []
    funcs = []

    def call_expr(i, arg):
        """expression (in module A, or through a lambda) that calls level i with one argument."""
        if i >= depth:
            return None
        k = kinds[i]
        if k in ('func', 'closure', 'recursive', 'varargs'):
            return 'f%d(%s)' % (i, arg)
        if k == 'method':
            return 'C%d().m%d(%s)' % (i, i, arg)
        if k == 'classmethod':
            return 'C%d.cm%d(%s)' % (i, i, arg)
        if k == 'staticmethod':
            return 'C%d.sm%d(%s)' % (i, i, arg)
        if k == 'inner_method':
            return 'O%d.In%d().im%d(%s)' % (i, i, i, arg)
        if k == 'composite':
            # a tree walk: one inherited method (one code object) running on objects of different subclasses
            return 'Group%d([Layer%d([Sprite%d()]), Sprite%d()]).area%d(%s)' % (i, i, i, i, i, arg)
        if k == 'libfunc':
            nxt = call_expr(i + 1, 'v%d' % i)
            return 'B.g%d(%s, %s)' % (i, arg, ('lambda v%d: %s' % (i, nxt)) if nxt else 'None')
        raise AssertionError(k)

    for i in range(depth):
        k = kinds[i]
        p = 'p%d' % i
        lines = []
        fname = {'func': 'f%d', 'closure': 'inner%d', 'recursive': 'f%d', 'varargs': 'f%d', 'method': 'm%d',
                 'classmethod': 'cm%d', 'staticmethod': 'sm%d', 'inner_method': 'im%d', 'libfunc': 'g%d',
                 'composite': 'area%d'}[k] % i
        funcs.append(fname)
        base = 4
        head = []
        params = [p]
        if k == 'func':
            head = ['def f%d(%s, q%d=3):' % (i, p, i)]
            params = [p, 'q%d' % i]
        elif k == 'varargs':
            head = ['def f%d(%s, *rest%d, **kw%d):' % (i, p, i, i)]
            params = [p, 'rest%d' % i, 'kw%d' % i]
        elif k == 'recursive':
            head = ['def f%d(%s, n%d=2):' % (i, p, i)]
            params = [p, 'n%d' % i]
        elif k == 'closure':
            head = ['def f%d(%s):' % (i, p), '    cap%d = [%s, %d]' % (i, p, i), '    def inner%d(a%d):' % (i, i)]
            base = 8
            params = ['a%d' % i, 'cap%d' % i]
        elif k == 'method':
            parent = rng.choice(['', '', '(Priv)', '(Child)', '(Plain)', '(EmptyBox)', '(Never)', '(MyList)', '(Proxy)',
                                 '(NoClass)'])
            head = ['class C%d%s:' % (i, parent), '    def m%d(self, %s):' % (i, p)]
            base = 8
            params = ['self', p]
        elif k == 'classmethod':
            head = ['class C%d:' % i, '    tag = %d' % i, '    @classmethod', '    def cm%d(cls, %s):' % (i, p)]
            base = 8
            params = ['cls', p]
        elif k == 'staticmethod':
            head = ['class C%d:' % i, '    @staticmethod', '    def sm%d(%s):' % (i, p)]
            base = 8
        elif k == 'inner_method':
            head = ['class O%d:' % i, '    class In%d:' % i, '        def im%d(self, %s):' % (i, p)]
            base = 12
            params = ['self', p]
        elif k == 'libfunc':
            head = ['def g%d(%s, nxt):' % (i, p)]
            params = [p, 'nxt']
        elif k == 'composite':
            head = ['class Shape%d:' % i, '    def __init__(self, kids=()):', '        self.kids = list(kids)',
                    '', '    def area%d(self, %s):' % (i, p)]
            base = 8
            params = ['self', p]
        body = Body(rng, 'x%d_' % i, base)
        argname = 'a%d' % i if k == 'closure' else p
        if k == 'closure':
            body.emit('use%d = cap%d' % (i, i))
            body.names.append('use%d' % i)
        for _ in range(rng.randint(0, nl)):
            body.add_local(params)
        mid_names = list(body.names)
        if k == 'recursive':
            body.emit('if n%d > 0:' % i)
            body.emit('    return f%d(%s, n%d - 1)' % (i, p, i), cand=False)
        if k == 'composite':
            # everything after this line runs in the leaf only, below two frames of the same code object
            body.emit('if self.kids:')
            body.emit('    return self.kids[0].area%d(%s)' % (i, p), cand=False)
        if k == 'libfunc':
            body.emit('r%d = nxt(%s) if nxt else %s' % (i, argname, argname))
        else:
            nxt = call_expr(i + 1, rng.choice([argname, "'s%d'" % i, '[%s]' % argname, '(%s, 1)' % argname])
                            if rng.random() < 0.3 else argname)
            if nxt and k in ('method', 'inner_method', 'composite') and rng.random() < 0.5:
                body.emit('me%d = self' % i)
                body.names.append('me%d' % i)
            body.emit('r%d = %s' % (i, nxt or argname))
        body.names.append('r%d' % i)
        for _ in range(rng.randint(0, max(1, nl // 2))):
            body.add_local(params)
        body.emit('return r%d' % i)
        target = b_defs if k == 'libfunc' else a_defs
        blk = [(h, False, None) for h in head]
        for text, cand in body.lines:
            blk.append((text, cand, {'level': i, 'func': fname, 'params': params}))
        if k == 'closure':
            blk.append(('    return inner%d(%s)' % (i, p), False, None))
        if k == 'composite':
            for sub in ('Group', 'Layer', 'Sprite'):
                blk += [('', False, None), ('', False, None), ('class %s%d(Shape%d):' % (sub, i, i), False, None),
                        ('    pass', False, None)]
        target.append(blk)

    main = ['def main():', '    m_local = 1', '    keep = Plain(99)']
    if rng.random() < 0.3:
        main.append('    first = %s' % call_expr(0, 'm_local'))
    main.append('    return %s' % call_expr(0, 'm_local'))
    a_lines = PRELUDE_A.split('\n')
    b_lines = PRELUDE_B.split('\n')
    cands = []

    def place(lines, defs, which):
        for blk in defs:
            lines.append('')
            lines.append('')
            for text, cand, meta in blk:
                lines.append(text)
                if cand:
                    cands.append({'file': which, 'line': len(lines), 'level': meta['level'], 'func': meta['func'],
                                  'text': text.strip()})
    place(a_lines, a_defs, 'a')
    place(b_lines, b_defs, 'b')
    a_lines += ['', ''] + main
    return {'a': '\n'.join(a_lines) + '\n', 'b': '\n'.join(b_lines) + '\n', 'cands': cands, 'funcs': funcs,
            'kinds': kinds}


def local_names_before(src, line):
    """names assigned in the enclosing function strictly before `line` (syntactic, for watch generation only)."""
    import ast
    tree = ast.parse(src.replace('@@B@@', 'bmod').replace('@@A@@', 'amod'))
    best = None
    for n in ast.walk(tree):
        if isinstance(n, (ast.FunctionDef, ast.Lambda)) and hasattr(n, 'body') and isinstance(n, ast.FunctionDef):
            if n.lineno <= line <= n.end_lineno and (best is None or n.lineno > best.lineno):
                best = n
    if best is None:
        return []
    out = [a.arg for a in best.args.args]
    for n in ast.walk(best):
        if isinstance(n, ast.Name) and isinstance(n.ctx, ast.Store) and n.lineno < line and n.id not in out:
            out.append(n.id)
    return out
