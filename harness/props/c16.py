"""C16 — log tracepoints: '[deep] ' + template with doubled braces preserved and every {expression} field replaced by
the text of its value (or of its error); logger receives (msg, tracepoint id, context id); snapshot + log records the
message and one LOG watch per field."""
import itertools
import logging
import re
import threading

import core
from props import _exprlib as X
from rig import Rig, MockFrame, RecLogger, run_traced

ID = 'C16'
EXTRACT = ['limiter', 'expr']
LEAN_TARGETS = ['DeepModel.Props.C16']
AUDIT = 'DeepModel/Audit/C16.lean'
DRIVER = 'DeepModel/Driver/C16.lean'
BUDGET = {'quick': 1500, 'thorough': 15000}
RULE = ('templates built from segment lists: literal runs (ASCII, unicode incl. non-BMP, quotes, backslashes, newlines, '
        'single braces — written doubled), 0-5 fields naming locals, host-module globals, attribute / index / call '
        'expressions, names bound BOTH as a frame local and as a module global or builtin with different values (the '
        'local must win), a host global shadowing a builtin, failing expressions (NameError, ZeroDivisionError, KeyError, '
        'BaseException subclasses), with '
        'conversions !r !s !a and str format specs (fill, align, width, precision); a second stream of raw templates '
        '(character soup over braces, !, :, brackets, digits, plus hand-picked malformed ones: single braces, unclosed '
        'fields, bad conversions, numeric-only specs, numbering clashes); each through the log-only action '
        '(snapshot=no_collect + log_msg) or the snapshot+log action, on frame-like mocks or REAL frames (sys.settrace), '
        'with a recording TracepointLogger, the default PythonPlugin logger, no logger at all, two registered loggers, or '
        'a falsy logger object (__len__ = lines so far: it must still receive the line), 1-3 hits with fire_count / fire_period; '
        'a limits stream: the snapshot+log action constructed directly with small MAX_VARIABLES / MAX_STRING_LENGTH / '
        'MAX_COLLECTION_SIZE / MAX_VAR_DEPTH (budget spent by the frame before the template is processed) and extra '
        'watches — the message must not depend on collection limits; a schedule stream: two threads with different '
        'frames at one tracepoint, each parked inside a `gate()` field of the template, all 6 interleavings forced — '
        'each message must be rendered from its own frame and each snapshot carry exactly its own LOG watches; a '
        'multi-tracepoint stream: 2-3 tracepoints on one line (snapshot / log / snapshot+log in any order, merged into '
        'one trigger or separate) with the snapshot push of chosen tracepoints refused and / or the logger raising for '
        'chosen tracepoints — every other log tracepoint must still emit exactly its one message. '
        'Non-trivial: at least one field and one literal run, or a malformed template. Distinct = distinct canonical '
        'JSON of the case.')
TRUSTED = ['Python str / repr / ascii / format on live values is the reference for a field\'s text',
           'Model/Template.lean re-models CPython 3.12\'s MarkupIterator / parse_field / str.__format__ / unicode_repr; '
           'isPrintable is approximated above ASCII (generators use letters / symbols for which it is exact)']
ASSUMPTIONS = ['nested replacement fields inside a format spec ({x:{w}}) are modelled (Template.renderNested) and generated '
               'in the raw stream (every 10th case: hand-written + random specs built from fields); they are not the '
               'statement\'s `{expression}` fields, so they are compared with the model and not judged by the oracle', 'empty fields ({}) are not "{expression} fields": compared with the model, not judged',
               '__str__ of host values has no side effects and does not raise',
               'field widths above 10**5 are not run on the real formatter (stream wide: model only, outcome tooWide); the '
               'model bound Template.maxWidth = 10**6 is declared, not extracted — the real formatter has none',
               'templates with a conversion or a format spec on some field are compared with the model only (the statement '
               'speaks of `{expression}` fields); for every template the oracle demands one evaluation per field per hit '
               '(counting pure host function tick)']

LITS = ['a', 'value ', ' = ', 'x=', '{', '}', '{}', '{{', '}}', 'é', 'ünï', '世界', '😀', ' ', '%s', '%', '\\', '"', "'",
        '\n', '\t', 'end.', '[', ']', '!', ':', 'a!b:c', '[deep] ', 'λ→', '0', '{0}', 'tail}', '{head']
LOCALS = [['n', 5], ['neg', -12], ['f', 2.5], ['s', 'text'], ['u', 'ünï😀'], ['q', "it's \"q\""], ['e', ''],
          ['lst', [3, 1, 2]], ['d', {'k': 'v', 'a:b': 'colon', 'n': 7, '}': 'brace'}], ['o', {'obj': {'name': 'bob', 'age': 3}}],
          ['t', True], ['nothing', None], ['nl', 'line1\nline2'], ['bs', 'back\\slash'], ['tup', {'tuple': [1, 'a']}],
          # locals that shadow a module global / a builtin of the same name (the local must win, as at that line)
          ['w', 'a  b\tc'], ['wd', 8], ['p', 2], ['fmt', '*>6'], ['big', 10 ** 5], ['huge', 10 ** 12], ['astro', 10 ** 20], ['GSH', 'local-shadow'], ['GN2', 7], ['id', 'L:id'], ['type', 'L:type'], ['abs', 'L:abs'], ['sum', 15]]
GLOBALS = {**X.SHADOW_GLOBALS, 'GNUM': 42, 'GSTR': 'glob', 'uuid': 'host-uuid', 'GSH': 'global-shadowed', 'GN2': 70000,
           'ONLYG': 'only-global', 'min': 'G:min'}
LOCALS = LOCALS + X.SHADOW_LOCALS
FIELDS_OK = [e for e in X.SHADOW_TEXT_EXPRS + X.SHADOW_VALUE_EXPRS if not any(ch in e for ch in '{}!:')] + ["tick('a')", "tick('b')", 'tick(n)', "tick('a')", 'n', 'neg', 'f', 's', 'u', 'q', 'e', 'lst', 'd', 'o', 't', 'nothing', 'nl', 'bs', 'tup', 'n + 1', 'len(lst)',
             'lst[0]', 'lst[-1]', "d['k']", 'd["a:b"]', "d['n'] + n", "d['}']", 'o.name', 'o.age * 2', 'twice(n)', 'ident(s)',
             'GNUM', 'GSTR', 'uuid', 'GSTR.upper()', 's * 2', ' n ', 'n > 3', 'str(f)', "'%d' % n", '[x for x in lst]',
             's[1]', 'u[0]', 'max(lst)', '0', '7', '(n)', 'lst[0]  ', 'o', 'tup[1]',
             'GSH', 'GN2', 'id', 'type', 'abs', 'sum', 'GSH.upper()', 'GN2 + 1', 'ONLYG', 'min', 'GSH', 'id', 'GN2', 'sum + n',
             '[GN2 for _ in lst]', "'%s/%s' % (GSH, ONLYG)",
             # white space inside string literals / a layout over several lines belongs to the expression
             "'x  y'", "len('a \t b')", "s + '  ' + s", "nl.split('\n')", "'p\n\nq'", '(n +\n  1)',
             "'%s  %s' % (n, s)", "d.get('k  k', 'none  found')", "w.split('  ')", "w == 'a  b\tc'", 'w',
             "w.count('  ') + w.count('\t')"]
FIELDS_FAIL = ['nope', 'n / 0', "d['missing']", 'd[1]', 'lst[99]', 'o.nothing', 'boom()', "boom('KeyboardInterrupt', 'stop')",
               "boom('HostInterrupt', 'halt')", "boom('SystemExit', 3)", 'int(s)', 'len(n)', 'n +', 'FrameType', 'time_ns()',
               "boom('GeneratorExit')", 'import os']
CONVS = [None, None, None, 'r', 's', 'a']
SPECS = ['', '', '', '>8', '<6', '^7', '*^9', '.2', '10.3', '05', 's', '>4s', '-<5', '^', '1', 'é>6', '_^8.1']
BAD_CONVS = ['x', ' ', 'R', '1', '}']
BAD_SPECS = ['d', '=5', '+5', ' 5', '#', ',', '_', '5,', '.', '.s', '5ss', 'z', 'f', '5d', 'x', '>5x', '.2f', '08.3f']
RAW_HAND = ['{', '}', '{n', 'n}', '{n!}', '{n!r', '{n!r:', '{n!rx}', '{n:}', '{}', '{}{}', '{0}{}', '{}{0}', '{0}{1}', '{n}}',
            '{{n}', '{n}{', '}{', '{n!}}', '{n:>5', '{[}', '{d[}', '{d[k]}', '{lst[0]}', '{d[a:b]}', '{n!r:>6}', '{n:{}}x',
            '{!r}', '{:>4}', '{ }', '{n!s:}', '{{}}', '{{{n}}}', '{{{{', '}}}}', '{n:}}', '{n!a}', '{u!a}', '{nl!r}', '{q!r}',
            '{bs!r:>14}', '{s:.2}{s:5}|', '{n:05}', '{n:<05}', '{n:x<05}', '{5}', '{2}{1}', '{}{}{}', '{n:00}', '{s:0}']
# replacement fields INSIDE a format spec: the spec is formatted one level down (its fields are further LOG watches,
# evaluated after the field they belong to; automatic numbering runs on through the spec; a field three levels deep
# raises "Max string recursion exceeded")
RAW_NESTED = ['{s:{wd}}', '{s:>{wd}}|', '{n:{fmt}}', '{s:{fmt}.{p}}', '{s!r:{wd}}', '{:{}}', '{0:{1}}', '{s:{wd:{p}}}',
              '{s:{nope}}', '{s:{wd!r}}', '{s:{{}}}', '{s:{wd}{p}}', '{s:x{e}<{wd}}', '{nope:{wd}}', 'a{s:{wd}}b{u:^{wd}}c',
              '{s:{wd}}{}', '{}{s:{}}', '{s:{wd!x}}', '{s:{wd:>3}}', '{s:{d[k]}}', '{q!a:{wd}.{p}}', '{s:{:{}}}', '{s:{wd:{}}}',
              '{s:{ wd }}', '{s!x:{wd}}', '{s:{wd}d}', '{n:{p}{wd}}', '{s:{wd:}}', '{s:{wd}:}', '{lst:{wd + 10}}']
# widths as frame data: up to 10**5 the real formatter is run and compared; a width / precision past the ssize_t range is
# a cheap ValueError on both sides
RAW_WIDE_COMPARED = ['{s:{big}}|', '{s:>100000}', '{s:{astro}}', '{s:99999999999999999999}', '{s:.99999999999999999999}',
                     '{s:.{huge}}', '{s:.{big}}', '{s:9223372036854775808}', '{s:.9223372036854775807}', '{s:x^{big}}']
# stream `wide`: widths the real formatter would have to allocate (10**12 characters) — the real side is NOT run; what is
# checked is that the model answers `tooWide` at once instead of materialising the padding (the driver cannot hang)
RAW_WIDE_MODEL_ONLY = ['{s:{huge}}', '{s:>1000001}', '{s:9223372036854775807}', '{s:*^{huge}}', '{s!r:{huge}.{p}}',
                       'a{s:{wd}}b{s:{huge}}', '{s:1000000000000}']
SPEC_BITS = ['{wd}', '>', '<', '^', '{p}', '.', '{fmt}', '5', '{e}', '{nope}', '{}', '{0}', '*', '{wd!s}', '{p:1}', 's', '{n + 1}']


def gen_nested(rng):
    out = []
    for _ in range(rng.randint(1, 3)):
        if rng.random() < 0.4:
            out.append(rng.choice(['x=', ' ', '|', '{{', '}}', 'é']))
        expr = rng.choice(['s', 'n', 'u', 'q', 'nope', 'lst', "d['k']", 'o.name', 'n + 1', '', '0'])
        conv = rng.choice(['', '', '', '!r', '!s', '!a'])
        spec = ''.join(rng.choice(SPEC_BITS) for _ in range(rng.randint(1, 3)))
        out.append('{' + expr + conv + ':' + spec + '}')
    return ''.join(out)


SOUP = ['{', '}', '{{', '}}', 'n', 's', ' ', '!', ':', '[', ']', 'r', 'a', 'x', '.', '0', '1', '<', '>', '^', '5', 'é', "'",
        '=', 'd', '-', 'k']
COUNTS = ['1', '2', '-1']
PERIODS = ['0', '1000']


def write_template(segs):
    out = []
    for s in segs:
        if s[0] == 'lit':
            out.append(s[1].replace('{', '{{').replace('}', '}}'))
        else:
            _, expr, conv, spec = s
            out.append('{' + expr + ('!' + conv if conv else '') + (':' + spec if spec else '') + '}')
    return ''.join(out)


# --------------------------------------------------------------------------------------- generation
def gen_segs(rng, bad=False):
    segs = []
    nf = rng.randint(0, 5)
    nl = rng.randint(0, 4)
    kinds = ['f'] * nf + ['l'] * nl
    rng.shuffle(kinds)
    for k in kinds:
        if k == 'l':
            segs.append(['lit', ''.join(rng.choice(LITS) for _ in range(rng.randint(1, 3)))])
        else:
            expr = rng.choice(FIELDS_FAIL) if rng.random() < 0.25 else rng.choice(FIELDS_OK)
            conv = rng.choice(CONVS)
            spec = rng.choice(SPECS)
            segs.append(['field', expr, conv, spec])
    if bad and [s for s in segs if s[0] == 'field']:
        i = rng.choice([i for i, s in enumerate(segs) if s[0] == 'field'])
        if rng.random() < 0.5:
            segs[i][2] = rng.choice(BAD_CONVS[:4])
        else:
            segs[i][3] = rng.choice(BAD_SPECS)
    return segs


def base_case(rng):
    hits, ts = [], rng.randint(1, 10 ** 6)
    for _ in range(rng.choice([1, 1, 1, 2, 3])):
        hits.append(ts)
        ts += rng.choice([1, 999_999, 1_000_000_000, 1_000_000_001])
    return {'mode': rng.choice(['log', 'snap']), 'via': rng.choice(['mock', 'mock', 'real']),
            'logger': rng.choice(['default'] * 3 + ['none', 'none', 'two', 'two', 'falsy'] + ['rec'] * 17),
            'cfg': {'fire_count': rng.choice(COUNTS), 'fire_period': rng.choice(PERIODS)}, 'hits': hits}


LIMITS = {'MAX_VARIABLES': [0, 1, 2, 3, 5, 10], 'MAX_STRING_LENGTH': [1, 4, 8], 'MAX_COLLECTION_SIZE': [0, 1, 2],
          'MAX_VAR_DEPTH': [0, 1, 2]}
SCHEDULES = sorted(set(itertools.permutations([0, 0, 1, 1])))


def gen_limits(rng):
    c = base_case(rng)
    c.update(kind='tpl', mode='snap', logger='rec', segs=gen_segs(rng))
    lim = {}
    for k in rng.sample(sorted(LIMITS), rng.randint(1, 4)):
        lim[k] = rng.choice(LIMITS[k])
    if rng.random() < 0.7:
        lim['MAX_VARIABLES'] = rng.choice(LIMITS['MAX_VARIABLES'][:5])
    c['limits'] = lim
    c['watches'] = [rng.choice(FIELDS_OK + FIELDS_FAIL[:5]) for _ in range(rng.choice([0, 0, 1, 2, 3]))]
    return c


def gen_conc(rng, k):
    segs = [s for s in gen_segs(rng) if s[0] != 'field' or s[1] != 'gate()']
    if not [s for s in segs if s[0] == 'field']:
        segs.append(['field', rng.choice(['n', 's', 'lst[0]', "d['k']", 'n + 1', 'o.name']), None, ''])
    segs.insert(rng.randint(0, len(segs)), ['field', 'gate()', None, ''])
    return {'kind': 'conc', 'mode': rng.choice(['log', 'snap']), 'via': 'mock', 'logger': 'rec',
            'cfg': {'fire_count': '-1', 'fire_period': '0'}, 'hits': [100], 'segs': segs,
            'sched': list(SCHEDULES[k % len(SCHEDULES)])}


def gen_multi(rng):
    """2-3 tracepoints on ONE line (snapshot / log / snapshot+log in any order); the push of chosen tracepoints is
    refused and / or the logger raises for chosen tracepoints' messages"""
    n = rng.choice([2, 2, 3])
    tps = []
    for i in range(n):
        kind = rng.choice(['snap', 'log', 'snaplog', 'log'])
        segs = [['lit', 'tp%d:' % i]] + gen_segs(rng)[:4]
        tps.append({'kind': kind, 'segs': segs if kind != 'snap' else []})
    if not any(t['kind'] != 'snap' for t in tps):
        tps[-1] = {'kind': 'log', 'segs': [['lit', 'tp%d:' % (n - 1)], ['field', 'n', None, '']]}
    pushers = [i for i, t in enumerate(tps) if t['kind'] != 'log']
    loggers = [i for i, t in enumerate(tps) if t['kind'] != 'snap']
    push_fail = [i for i in pushers if rng.random() < 0.6]
    log_fail = [i for i in loggers if rng.random() < 0.3]
    return {'kind': 'multi', 'install': rng.choice(['merged', 'separate']), 'tps': tps, 'push_fail': push_fail,
            'log_fail': log_fail, 'mode': 'multi', 'via': 'mock', 'logger': 'rec',
            'cfg': {'fire_count': '1', 'fire_period': '1000'}, 'hits': [rng.randint(1, 10 ** 6)]}


def gen(rng, tier):
    k = 0
    while True:
        k += 1
        if k % 7 == 0:
            yield gen_limits(rng)
            continue
        if k % 9 == 0:
            yield gen_multi(rng)
            continue
        if k % 11 == 0:
            yield gen_conc(rng, k // 11)
            continue
        c = base_case(rng)
        if k % 5 == 0:
            c['kind'] = 'raw'
            r = rng.random()
            if k % 50 == 0:
                c.update(stream='wide', tpl=rng.choice(RAW_WIDE_MODEL_ONLY), via='mock', logger='rec')
            elif k % 10 == 0:
                c['tpl'] = rng.choice(RAW_NESTED + RAW_WIDE_COMPARED) if r < 0.5 else gen_nested(rng)
            elif r < 0.35:
                c['tpl'] = rng.choice(RAW_HAND)
            elif r < 0.7:
                c['tpl'] = ''.join(rng.choice(SOUP) for _ in range(rng.randint(1, 12)))
            else:
                c['tpl'] = write_template(gen_segs(rng, bad=True))
        else:
            c['kind'] = 'tpl'
            c['segs'] = gen_segs(rng)
        yield c


def corpus():
    b = {'mode': 'snap', 'via': 'mock', 'logger': 'rec', 'cfg': {'fire_count': '1', 'fire_period': '1000'}, 'hits': [100]}
    return [
        dict(b, kind='tpl', segs=[['lit', 'a{b} '], ['field', 'n', None, ''], ['lit', '-'], ['field', "d['a:b']", 'r', '>9'],
                                  ['field', 'nope', None, '']]),
        dict(b, kind='tpl', mode='log', segs=[['field', 'n', None, ''], ['lit', ' starts with a field']]),
        dict(b, kind='tpl', via='real', segs=[['lit', 'g='], ['field', 'GSTR', None, ''], ['lit', ' u='], ['field', 'uuid', None, ''],
                                              ['lit', ' ft='], ['field', 'FrameType', None, '']]),
        dict(b, kind='tpl', logger='default', mode='log', segs=[['lit', 'n is '], ['field', 'n', None, '']]),
        dict(b, kind='tpl', cfg={'fire_count': '2', 'fire_period': '0'}, hits=[5, 6, 7], segs=[['lit', 'x'], ['field', 's', None, '']]),
        dict(b, kind='tpl', segs=[['lit', 'shadow '], ['field', 'GSH', None, ''], ['lit', ' '], ['field', 'id', None, ''], ['lit', ' '],
                                  ['field', 'GN2 + 1', None, ''], ['lit', ' '], ['field', 'min', None, ''], ['lit', ' '],
                                  ['field', 'ONLYG', None, '']]),
        dict(b, kind='tpl', mode='log', logger='falsy', segs=[['lit', 'n='], ['field', 'n', None, '']]),
        dict(b, kind='tpl', logger='falsy', cfg={'fire_count': '-1', 'fire_period': '0'}, hits=[5, 6],
             segs=[['lit', 's='], ['field', 's', None, '']]),
        dict(b, kind='raw', stream='wide', tpl='{s:{huge}}'), dict(b, kind='raw', stream='wide', tpl='{s:>1000001}'),
        dict(b, kind='raw', tpl='{s:{big}}|'), dict(b, kind='raw', tpl='{s:{astro}}'), dict(b, kind='raw', tpl='{s:.{huge}}'),
        dict(b, kind='raw', tpl='{s:>{wd}}|{n:{fmt}}'), dict(b, kind='raw', tpl='{s:{wd:{p}}}'), dict(b, kind='raw', tpl='{:{}}'),
        dict(b, kind='raw', tpl='{n'), dict(b, kind='raw', tpl='}'), dict(b, kind='raw', tpl='{n:d}'),
        dict(b, kind='raw', mode='log', tpl='{}{0}'), dict(b, kind='tpl', segs=[]),
        # budget spent by the frame: fields with fresh values still render their values
        dict(b, kind='tpl', limits={'MAX_VARIABLES': 3}, watches=['n + 1'],
             segs=[['lit', 'order '], ['field', 'n', None, ''], ['lit', ' for '], ['field', "d['k']", None, ''],
                   ['lit', ' total='], ['field', 'n * 3', None, ''], ['lit', ' items='], ['field', 'len(lst)', None, ''],
                   ['lit', ' {raw} '], ['field', 'missing.x', None, ''], ['lit', ' end']]),
        dict(b, kind='tpl', via='real', limits={'MAX_VARIABLES': 1, 'MAX_STRING_LENGTH': 1, 'MAX_COLLECTION_SIZE': 0,
                                                'MAX_VAR_DEPTH': 0}, watches=[],
             segs=[['field', 'twice(s)', None, ''], ['lit', '|'], ['field', 'o.name', 'r', '>8'], ['field', 'lst', None, '']]),
        # a refused snapshot push of the first tracepoint must not lose the second tracepoint's message
        {'kind': 'multi', 'install': 'separate', 'mode': 'multi', 'via': 'mock', 'logger': 'rec',
         'cfg': {'fire_count': '1', 'fire_period': '1000'}, 'hits': [100], 'push_fail': [0], 'log_fail': [],
         'tps': [{'kind': 'snap', 'segs': []}, {'kind': 'log', 'segs': [['lit', 'tp1: n='], ['field', 'n', None, '']]}]},
        {'kind': 'multi', 'install': 'merged', 'mode': 'multi', 'via': 'mock', 'logger': 'rec',
         'cfg': {'fire_count': '1', 'fire_period': '1000'}, 'hits': [100], 'push_fail': [1], 'log_fail': [0],
         'tps': [{'kind': 'log', 'segs': [['lit', 'tp0']]}, {'kind': 'snaplog', 'segs': [['lit', 'tp1 '], ['field', 's', None, '']]},
                 {'kind': 'log', 'segs': [['lit', 'tp2 '], ['field', 'nope', None, '']]}]},
        # two threads inside process_log at once
        {'kind': 'conc', 'mode': 'snap', 'via': 'mock', 'logger': 'rec', 'cfg': {'fire_count': '-1', 'fire_period': '0'},
         'hits': [100], 'sched': [0, 1, 1, 0],
         'segs': [['lit', 'a='], ['field', 'gate()', None, ''], ['lit', ' n='], ['field', 'n', None, ''], ['lit', ' s='],
                  ['field', 's', None, '']]},
        {'kind': 'conc', 'mode': 'log', 'via': 'mock', 'logger': 'rec', 'cfg': {'fire_count': '-1', 'fire_period': '0'},
         'hits': [100], 'sched': [0, 1, 0, 1],
         'segs': [['field', 'n + 1', None, ''], ['field', 'gate()', None, ''], ['field', "d['k']", None, '']]},
    ]


# --------------------------------------------------------------------------------------- implementation
def template_of(case):
    return case['tpl'] if case['kind'] == 'raw' else write_template(case['segs'])


def build_log_trigger(case, path, line):
    """the tracepoint of a case; with `limits` / `watches` the snapshot action is constructed directly (collection
    limits are only settable that way)"""
    from deep.api.tracepoint.trigger import build_trigger, LocationAction, Trigger, LineLocation, Location
    args = {'log_msg': template_of(case), 'fire_count': case['cfg']['fire_count'],
            'fire_period': case['cfg']['fire_period']}
    if case['mode'] == 'log':
        args['snapshot'] = 'no_collect'
    trig = build_trigger('tp1', path, line, args, list(case.get('watches') or []), [])
    if case.get('limits'):
        acts = []
        for a in trig.actions:
            cfg = dict(a.config)
            cfg.update(case['limits'])
            acts.append(LocationAction(a.id, a.condition, cfg, a.action_type))
        trig = Trigger(LineLocation(path, line, Location.Position.START), acts)
    return trig


class FalsyLogger(RecLogger):
    """a collecting logger whose length is the number of lines so far: an empty one is a falsy object"""

    def __len__(self):
        return len(self.logged)



class FaultyLogger(RecLogger):
    """recording logger that raises for the messages of chosen tracepoints"""

    def __init__(self, fail_ids):
        super().__init__()
        self.fail_ids = set(fail_ids)
        self.attempts = []

    def log_tracepoint(self, log_msg, tp_id, ctx_id):
        self.attempts.append(tp_id)
        if tp_id in self.fail_ids:
            raise RuntimeError('logger failure for ' + str(tp_id))
        super().log_tracepoint(log_msg, tp_id, ctx_id)


def run_multi(case):
    from deep.api.tracepoint.trigger import build_trigger
    logger = FaultyLogger('tp%d' % i for i in case['log_fail'])
    rig = Rig(logger=False, plugins=[logger])
    try:
        name = X.unique('verif_host_c16')
        mod = X.make_module(name, GLOBALS, extra={'tick': PURE_TICK})
        trigs = []
        for i, tp in enumerate(case['tps']):
            args = {'fire_count': case['cfg']['fire_count'], 'fire_period': case['cfg']['fire_period']}
            if tp['kind'] != 'snap':
                args['log_msg'] = write_template(tp['segs'])
            if tp['kind'] == 'log':
                args['snapshot'] = 'no_collect'
            trigs.append(build_trigger('tp%d' % i, name + '.py', 7, args, [], []))
        if case['install'] == 'merged':
            for t in trigs[1:]:
                trigs[0].merge_actions(t.actions)
            trigs = trigs[:1]
        rig.install(trigs)
        refused = {'tp%d' % i for i in case['push_fail']}
        push_attempts, orig_push = [], rig.push.push_snapshot

        def push(snap):
            push_attempts.append(snap.tracepoint.id)
            if snap.tracepoint.id in refused:
                raise RuntimeError('push refused for ' + snap.tracepoint.id)
            orig_push(snap)
        rig.push.push_snapshot = push
        rig.clock = case['hits'][0]
        obs = {}
        loc = {k: X.build_value(v) for k, v in LOCALS}
        try:
            rig.handler.trace_call(MockFrame('/app/%s.py' % name, 'host', 7, loc, f_globals=mod.__dict__), 'line', None)
        except BaseException as e:  # noqa: B902
            obs['raised'] = f'{type(e).__name__}: {e}'
        obs['messages'] = [[c[1], c[0], canon_id(c[2])] for c in logger.logged]
        obs['log_attempts'] = list(logger.attempts)
        obs['pushed'] = [sn.tracepoint.id for sn in rig.push.pushed]
        obs['push_attempts'] = list(push_attempts)
        obs['hits'] = []
        return obs
    finally:
        rig.close()


def variant(v):
    """the second thread's value of a local: same shape, different content"""
    if isinstance(v, bool) or v is None:
        return v
    if isinstance(v, int):
        return v + 100
    if isinstance(v, float):
        return v + 0.25
    if isinstance(v, str):
        return v + '#2'
    if isinstance(v, list):
        return [variant(x) for x in reversed(v)]
    if isinstance(v, dict):
        if set(v) in ({'obj'}, {'tuple'}):
            k = next(iter(v))
            return {k: variant(v[k])}
        return {k: variant(x) for k, x in v.items()}
    return v


def thread_locals(i):
    return [[k, v if i == 0 else variant(v)] for k, v in LOCALS]


class ThreadLogger(RecLogger):
    def __init__(self):
        super().__init__()
        self.idents = []

    def log_tracepoint(self, log_msg, tp_id, ctx_id):
        self.idents.append(threading.current_thread())
        super().log_tracepoint(log_msg, tp_id, ctx_id)


class Parked:
    """one hit on its own thread; the `gate()` field of the template parks it until the driver releases it"""

    def __init__(self, rig, idx, frame_of):
        self.rig, self.idx, self.frame_of = rig, idx, frame_of
        self.arrived = threading.Semaphore(0)
        self.release = threading.Event()
        self.parked = False
        self.finished = False
        self.error = None
        self.thread = None
        self.ident = None

    def gate(self):
        self.parked = True
        self.arrived.release()
        if not self.release.wait(30):
            raise TimeoutError('gate not released')
        self.release.clear()          # every gate() of a hit parks, not only the first
        self.parked = False
        return 'g%d' % self.idx

    def body(self):
        self.ident = threading.get_ident()
        try:
            self.rig.handler.trace_call(self.frame_of(self), 'line', None)
        except BaseException as e:  # noqa: B902
            self.error = f'{type(e).__name__}: {e}'
        finally:
            self.finished = True
            self.arrived.release()

    def advance(self):
        if self.finished:
            return
        if self.thread is None:
            self.thread = threading.Thread(target=self.body, daemon=True)
            self.thread.start()
        elif self.parked:
            self.release.set()
        else:
            return
        if not self.arrived.acquire(timeout=30):
            raise core.Infra('schedule driver: thread did not reach its gate / finish in 30 s')


def run_conc(case):
    logger = ThreadLogger()
    rig = Rig(logger=False, plugins=[logger])
    try:
        name = X.unique('verif_host_c16')
        mod = X.make_module(name, GLOBALS, extra={'tick': PURE_TICK})
        rig.install([build_log_trigger(case, name + '.py', 7)])
        rig.clock = case['hits'][0]
        owners, orig_push = [], rig.push.push_snapshot

        def push(snap):
            owners.append(threading.current_thread())     # (thread idents are reused; Thread objects are not)
            orig_push(snap)
        rig.push.push_snapshot = push

        def frame_of(t):
            loc = {k: X.build_value(v) for k, v in thread_locals(t.idx)}
            loc['gate'] = t.gate
            return MockFrame('/app/%s.py' % name, 'host', 7, loc, f_globals=mod.__dict__)
        thrs = [Parked(rig, i, frame_of) for i in range(2)]
        for i in case['sched']:
            thrs[i].advance()
        for t in thrs:
            while t.thread is not None and not t.finished:
                t.advance()
            if t.thread is None:
                t.advance()
                while not t.finished:
                    t.advance()
        for t in thrs:
            t.thread.join(30)
        out = []
        for t in thrs:
            ent = {}
            if t.error:
                ent['raised'] = t.error
            calls = [c for c, who in zip(logger.logged, logger.idents) if who is t.thread]
            snaps = [s for s, who in zip(rig.push.pushed, owners) if who is t.thread]
            ent['logger'] = [[c[0], canon_id(c[1]), canon_id(c[2])] for c in calls]
            ent['lines'] = []
            ent['snapshots'] = len(snaps)
            if snaps:
                sn = snaps[0]
                ent['snap_log'] = sn.log_msg
                ent['snap_watches'] = X.watch_dump(sn)
                ctx = sn.attributes.get('context') if hasattr(sn.attributes, 'get') else None
                ent['snap_ctx_is_logger_ctx'] = bool(calls) and calls[0][2] == ctx
            out.append(ent)
        return {'hits': out}
    finally:
        rig.close()


class _Capture(logging.Handler):
    def __init__(self):
        super().__init__(level=logging.INFO)
        self.lines = []

    def emit(self, record):
        try:
            m = record.getMessage()
        except Exception:   # noqa: B902
            return
        if record.levelno == logging.INFO and m.startswith('[deep] '):
            self.lines.append(m)


def canon_id(s):
    if s == 'tp1':
        return '<tp>'
    if isinstance(s, str) and X.is_uuid4(s):
        return '<ctx>'
    return s


def run_impl(case):
    if case['kind'] == 'conc':
        return run_conc(case)
    if case['kind'] == 'multi':
        return run_multi(case)
    if case.get('stream') == 'wide':
        return {'hits': [], 'model_only': True}      # the real formatter would allocate the width: not run
    default = case['logger'] == 'default'
    plugins = []
    cap = None
    dl = logging.getLogger('deep')
    old_level = dl.level
    if default:
        from deep.api.plugin.python import PythonPlugin
        plugins = [PythonPlugin()]
        cap = _Capture()
        dl.addHandler(cap)
        dl.setLevel(logging.INFO)
    second = None
    if case['logger'] == 'two':
        second = RecLogger()                      # a second tracepoint logger: only the first one is "the" logger
        plugins = [second]
    if case['logger'] == 'falsy':
        plugins = [FalsyLogger()]
    rig = Rig(logger=case['logger'] in ('rec', 'two'), plugins=plugins)
    if case['logger'] == 'falsy':
        rig.logger = plugins[0]
    try:
        name = X.unique('verif_host_c16')
        ticks = {}

        def tick(key):
            """a pure host function that counts how often it is evaluated"""
            ticks[str(key)] = ticks.get(str(key), 0) + 1
            return 'tick-%s' % (key,)
        mod = X.make_module(name, GLOBALS, extra={'tick': tick})
        fn, line = X.host_function(mod, 'host', [], LOCALS, '/app/%s.py' % name)
        rig.install([build_log_trigger(case, name + '.py', line)])
        hits = []
        for ts in case['hits']:
            ticks.clear()
            rig.clock = ts
            n_log, n_snap = len(rig.logger.logged), len(rig.push.pushed)
            n_line = len(cap.lines) if cap else 0
            h = {}
            if case['via'] == 'real':
                res = run_traced(rig.handler, fn)
                if 'exc' in res or res.get('ret') != 0 or res.get('trace_after') is None:
                    h['raised'] = 'host disturbed: %r' % ({k: str(v) for k, v in res.items()},)
            else:
                loc = {k: X.build_value(v) for k, v in LOCALS}
                try:
                    rig.handler.trace_call(MockFrame('/app/%s.py' % name, 'host', line, loc, f_globals=mod.__dict__),
                                           'line', None)
                except BaseException as e:  # noqa: B902
                    h['raised'] = f'{type(e).__name__}: {e}'
            calls = rig.logger.logged[n_log:]
            snaps = rig.push.pushed[n_snap:]
            h['logger'] = [[c[0], canon_id(c[1]), canon_id(c[2])] for c in calls]
            if second is not None:
                h['second'] = len(second.logged)
            h['lines'] = list(cap.lines[n_line:]) if cap else []
            h['snapshots'] = len(snaps)
            h['ticks'] = dict(ticks)
            if snaps:
                s = snaps[0]
                h['snap_log'] = s.log_msg
                h['snap_watches'] = [w for w in X.watch_dump(s)]
                ctx = s.attributes.get('context') if hasattr(s.attributes, 'get') else None
                h['snap_ctx_is_logger_ctx'] = bool(calls) and calls[0][2] == ctx
                h['snap_tp'] = s.attributes.get('tracepoint') if hasattr(s.attributes, 'get') else None
            hits.append(h)
        return {'hits': hits}
    finally:
        rig.close()
        if cap:
            dl.removeHandler(cap)
            dl.setLevel(old_level)


# --------------------------------------------------------------------------------------- reference (from the statement)
def ref_parse(t):
    """template grammar written from the statement (and Python's documented format-string syntax): literal text,
    `{{` `}}`, `{name[!c][:spec]}` where the name ends at the first `!` `:` `}` outside square brackets.
    Returns a segment list or None (malformed)."""
    segs, lit, i, n = [], '', 0, len(t)
    while i < n:
        c = t[i]
        if c == '{':
            if i + 1 < n and t[i + 1] == '{':
                lit += '{'
                i += 2
                continue
            j, name = i + 1, ''
            while True:
                if j >= n:
                    return None
                ch = t[j]
                if ch == '[':
                    k = t.find(']', j + 1)
                    if k < 0:
                        return None
                    name += t[j:k + 1]
                    j = k + 1
                    continue
                if ch == '{':
                    return None
                if ch in '}!:':
                    break
                name += ch
                j += 1
            conv, spec = None, ''
            if t[j] == '!':
                if j + 2 >= n:
                    return None
                conv = t[j + 1]
                j += 2
                if t[j] not in '}:':
                    return None
            if t[j] == ':':
                j += 1
                depth, start = 1, j
                while j < n:
                    if t[j] == '{':
                        depth += 1
                    elif t[j] == '}':
                        depth -= 1
                        if depth == 0:
                            break
                    j += 1
                if j >= n:
                    return None
                spec = t[start:j]
            if lit:
                segs.append(['lit', lit])
                lit = ''
            segs.append(['field', name, conv, spec])
            i = j + 1
        elif c == '}':
            if i + 1 < n and t[i + 1] == '}':
                lit += '}'
                i += 2
            else:
                return None
        else:
            lit += c
            i += 1
    if lit:
        segs.append(['lit', lit])
    return segs


def PURE_TICK(key):
    return 'tick-%s' % (key,)


def ref_env(thread=None, tick=None):
    mod = X.make_module('verif_ref_c16', GLOBALS, extra={'tick': tick or (lambda key: 'tick-%s' % (key,))})
    if thread is None:
        return mod.__dict__, {k: X.build_value(v) for k, v in LOCALS}
    loc = {k: X.build_value(v) for k, v in thread_locals(thread)}
    loc['gate'] = lambda: 'g%d' % thread
    return mod.__dict__, loc


def ref_render(segs, thread=None):
    """expected message and field outcomes for a segment list, or None when Python's own conversion / formatting
    of the field text refuses (then no message can be expected)."""
    g, loc = ref_env(thread)
    out, fields = ['[deep] '], []
    for s in segs:
        if s[0] == 'lit':
            out.append(s[1])
            continue
        _, expr, conv, spec = s
        o = X.outcome(expr, g, loc)
        text = o['text']
        if conv == 'r':
            text = repr(text)
        elif conv == 'a':
            text = ascii(text)
        elif conv not in (None, 's'):
            return None
        try:
            text = format(text, spec)
        except ValueError:
            return None
        out.append(text)
        fields.append((expr, o))
    return ''.join(out), fields


def permitted(case):
    cnt, per = int(case['cfg']['fire_count']), int(case['cfg']['fire_period'])
    made, last, out = 0, None, []
    for ts in case['hits']:
        ok = (cnt == -1 or made < cnt) and (last is None or ts - last >= per * 1_000_000)
        out.append(ok)
        if ok:
            made += 1
            last = ts
    return out


def outside_statement(segs):
    """empty fields / nested fields in a spec are not `{expression}` fields"""
    return any(s[0] == 'field' and (s[1] == '' or '{' in s[3] or '}' in s[3]) for s in segs)


def oracle_multi(case, obs):
    """each log tracepoint of the line emits exactly one message at the permitted hit — whatever happens to the
    results of the OTHER tracepoints (refused pushes, a logger that raises for another tracepoint's message)"""
    if 'raised' in obs:
        return ['the agent raised into the host: ' + obs['raised']]
    v = []
    for i, tp in enumerate(case['tps']):
        if tp['kind'] == 'snap' or i in case['log_fail']:
            continue
        if has_format_part(tp['segs']) or outside_statement(tp['segs']):
            continue        # conversions / format specs: compared with the model, not demanded by the oracle
        exp = ref_render(tp['segs'])
        got = [m for m in obs['messages'] if m[0] == 'tp%d' % i]
        if exp is None:
            if got:
                v.append(f'tp{i}: malformed template produced {got!r}')
            continue
        if [m[1] for m in got] != [exp[0]]:
            others = f'(push refused for {case["push_fail"]}, logger raising for {case["log_fail"]})'
            v.append(f'tracepoint tp{i} ({tp["kind"]}): messages {[m[1] for m in got]!r}, expected exactly '
                     f'{[exp[0]]!r} {others}')
        elif got[0][2] != '<ctx>':
            v.append(f'tp{i}: ctx_id {got[0][2]!r} is not the context id')
    foreign = [m for m in obs['messages'] if m[0] not in {'tp%d' % i for i in range(len(case['tps']))}]
    if foreign:
        v.append(f'messages labelled with an unknown tracepoint id: {foreign!r}')
    return v


def expected_ticks(segs):
    """how often the counting host function is evaluated when every field of the template is evaluated ONCE"""
    counts = {}

    def tick(key):
        counts[str(key)] = counts.get(str(key), 0) + 1
        return 'tick-%s' % (key,)
    g, loc = ref_env(tick=tick)
    for sg in segs:
        if sg[0] == 'field':
            X.at_line(sg[1], g, loc)
    return counts


def oracle_once(case, obs, segs):
    """the statement: each field is replaced by the string form of that expression evaluated in the paused frame, and
    recorded with one watch result — ONE evaluation per field per hit serves both"""
    v = []
    # the tracepoint's own watches (limits stream) are expressions of the same hit, evaluated once each as well
    want = expected_ticks(list(segs) + [['field', w, None, ''] for w in case.get('watches') or []])
    for i, h in enumerate(obs['hits']):
        if 'ticks' not in h or not ([c[0] for c in h['logger']] + h['lines']):
            continue            # no message for this hit (limits, malformed, no logger): nothing to compare
        if h['ticks'] != want:
            k = next(k for k in sorted(set(want) | set(h['ticks'])) if want.get(k, 0) != h['ticks'].get(k, 0))
            v.append(f'hit {i}: the field expression tick({k!r}) was evaluated {h["ticks"].get(k, 0)} time(s) for one '
                     f'message; the template has it {want.get(k, 0)} time(s) (a field is evaluated once: message text '
                     f'and its watch result are the same evaluation)')
    return v[:2]


def has_format_part(segs):
    """a conversion or a format spec on some field: the statement speaks of `{expression}` fields only — what the
    formatter does with `!r` / `:>8` is compared with the model, not demanded by the oracle"""
    return any(sg[0] == 'field' and (sg[2] is not None or sg[3] != '') for sg in segs)


def oracle(case, obs):
    if case.get('stream') == 'wide':
        return []           # the real formatter is not run for these widths (see run_impl)
    if case['kind'] == 'multi':
        return oracle_multi(case, obs)
    v = []
    for h in obs['hits']:
        if 'raised' in h:
            return ['the agent disturbed the host: ' + h['raised']]
    segs = case['segs'] if case['kind'] in ('tpl', 'conc') else ref_parse(case['tpl'])
    if segs is not None and case['kind'] != 'conc':
        v = oracle_once(case, obs, segs)
        if v:
            return v
    if segs is not None and has_format_part(segs) and not outside_statement(segs) and case['kind'] != 'conc':
        # conversions / format specs: the rendered TEXT is left to the model — but "recorded on the snapshot with one
        # watch result per field" still speaks: whenever a snapshot carries the log message, its LOG watches are the
        # fields of the template, one each, in order
        fexprs = [sg[1] for sg in segs if sg[0] == 'field']
        for i, h in enumerate(obs['hits']):
            if h.get('snapshots') and h.get('snap_log') is not None:
                got = [w['expr'] for w in h.get('snap_watches', []) if w['source'] == 'LOG']
                if got != fexprs:
                    v.append(f'hit {i}: the snapshot carries the log message {h["snap_log"]!r} with LOG watches {got!r}; '
                             f'the template has the fields {fexprs!r} (one watch result per field, in order)')
        return v[:3]
    if segs is not None and (outside_statement(segs) or has_format_part(segs)):
        return []
    if case['kind'] == 'conc':
        # two threads, each at the tracepoint with its own frame: `hit i` below is thread i
        exps = [ref_render(segs, thread=i) for i in range(len(obs['hits']))]
        perm = [True] * len(obs['hits'])
    else:
        exps = [ref_render(segs) if segs is not None else None] * len(obs['hits'])
        perm = permitted(case)
    relaxed = bool(case.get('limits'))     # under small collection limits a value may be cut / not recorded
    for i, (h, ok) in enumerate(zip(obs['hits'], perm)):
        exp = exps[i]
        msgs = [c[0] for c in h['logger']] + h['lines']
        if exp is None:
            if msgs:
                v.append(f'hit {i}: malformed template {template_of(case)!r} produced the message {msgs[0]!r}')
            continue
        msg, fields = exp
        if not ok:
            if msgs or h['snapshots']:
                v.append(f'hit {i} is over the fire limits but produced {msgs!r} / {h["snapshots"]} snapshot(s)')
            continue
        if case['logger'] == 'none':
            if h['logger'] or h['lines']:
                v.append(f'hit {i}: no tracepoint logger is configured but {h["logger"]!r} was logged')
        elif case['logger'] in ('rec', 'two', 'falsy'):
            if h.get('second'):
                v.append(f'hit {i}: the second registered logger received {h["second"]} messages (only the configured '
                         f'— first — tracepoint logger is used)')
            if len(h['logger']) != 1:
                msg_ = f'hit {i}: {len(h["logger"])} logger calls, expected 1: {h["logger"]!r}'
                if case['logger'] == 'falsy' and not h['logger']:
                    msg_ += ' (the registered logger object is falsy: __len__ == 0 — it is still the configured logger)'
                v.append(msg_)
                continue
            else:
                got, tp, ctx = h['logger'][0]
            if got != msg:
                v.append(f'hit {i}: message {got!r}, expected {msg!r}')
            if tp != '<tp>' or ctx != '<ctx>':
                v.append(f'hit {i}: logger labelled tp_id={tp!r} ctx_id={ctx!r}; expected the tracepoint id in tp_id '
                         f'and the context id in ctx_id')
        else:
            if len(h['lines']) != 1:
                v.append(f'hit {i}: default logger wrote {len(h["lines"])} lines: {h["lines"]!r}')
                continue
            line = h['lines'][0]
            if not line.startswith(msg + ' ctx='):
                v.append(f'hit {i}: default logger line {line!r} does not start with {msg!r}')
            else:
                rest = line[len(msg):]
                parts = rest.split(' ')
                ok_ids = (len(parts) == 3 and parts[1].startswith('ctx=') and X.is_uuid4(parts[1][4:])
                          and parts[2] == 'tracepoint=tp1')
                if not ok_ids:
                    v.append(f'hit {i}: default logger labels {rest!r}; expected " ctx=<context id> tracepoint=tp1"')
        if case['mode'] == 'snap':
            if h['snapshots'] != 1:
                v.append(f'hit {i}: {h["snapshots"]} snapshots, expected 1')
                continue
            if h['snap_log'] != msg:
                v.append(f'hit {i}: snapshot.log_msg {h["snap_log"]!r}, expected {msg!r}')
            want = [(e, 'WATCH') for e in (case.get('watches') or [])] + [(f[0], 'LOG') for f in fields]
            ws = h['snap_watches']
            if [(w['expr'], w['source']) for w in ws] != want:
                v.append(f'hit {i}: snapshot watches {[(w["expr"], w["source"]) for w in ws]!r}, expected one LOG watch '
                         f'per field {[f[0] for f in fields]!r}' + (f' after the watches {case["watches"]!r}'
                                                                    if case.get('watches') else ''))
            elif not relaxed:
                for w, (e, o) in zip(ws[len(ws) - len(fields):], fields):
                    if w['error'] is not None or w['type'] != o['ty'] or \
                            ((o['failed'] or o['ty'] in X.SIMPLE_TYPES) and w['value'] != o['text']):
                        v.append(f'hit {i}: field {e!r} recorded as {w["type"]} {w["value"]!r} error={w["error"]!r}; '
                                 f'in the frame it is {o["ty"]} {o["text"]!r}')
            if case['logger'] in ('rec', 'two', 'falsy') and not h.get('snap_ctx_is_logger_ctx'):
                v.append(f'hit {i}: the context id given to the logger is not the snapshot\'s context attribute')
        elif h['snapshots']:
            v.append(f'hit {i}: log-only tracepoint pushed {h["snapshots"]} snapshot(s)')
    return v


def oracle_table(case, thread=None):
    g, loc = ref_env(thread)
    segs = case['segs'] if case['kind'] in ('tpl', 'conc') else (ref_parse(case['tpl']) or [])
    names = {s[1] for s in segs if s[0] == 'field'} | {str(d) for d in range(10)}
    if case['kind'] == 'raw':
        # a template the reference calls malformed may still evaluate some fields before failing: offer every
        # brace-delimited chunk as a candidate expression
        t = case['tpl']
        for i, ch in enumerate(t):
            if ch == '{':
                for j in range(i + 1, len(t) + 1):
                    names.add(t[i + 1:j])
    return [{'e': n, 'o': X.eval_outcome(n, g, loc)} for n in sorted(names)]


def model_request(case, obs):
    if case['kind'] == 'multi':
        if 'raised' in obs:
            return None
        # tracepoints whose template the formatter rejects attach nothing: leave them out of the request
        if any(tp['kind'] != 'snap' and ref_render(tp['segs']) is None for tp in case['tps']):
            return None
        return {'op': 'results', 'tps': [tp['kind'] for tp in case['tps']],
                'fails': [[i, 'push'] for i in case['push_fail']] + [[i, 'log'] for i in case['log_fail']]}
    if any('raised' in h for h in obs['hits']):
        return None
    if case['kind'] == 'conc':
        return {'op': 'renderN', 'tpl': template_of(case), 'collect': case['mode'] == 'snap',
                'threads': [{'oracle': oracle_table(case, i)} for i in range(len(obs['hits']))]}
    return {'op': 'render', 'tpl': template_of(case), 'collect': case['mode'] == 'snap', 'oracle': oracle_table(case),
            'logger': {'none': 'absent', 'falsy': 'falsy'}.get(case['logger'], 'plain')}


def compare(case, obs, resp):
    if 'error' in resp:
        return ['model error: ' + resp['error']]
    if case['kind'] == 'multi':
        want_log = ['tp%d' % i for i, k in resp['delivered'] if k == 'log']
        want_push = ['tp%d' % i for i, k in resp['delivered'] if k == 'push']
        d = []
        if [m[0] for m in obs['messages']] != want_log:
            d.append(f'messages delivered: model {want_log} vs implementation {[m[0] for m in obs["messages"]]}')
        if obs['pushed'] != want_push:
            d.append(f'snapshots delivered: model {want_push} vs implementation {obs["pushed"]}')
        return d
    if case['kind'] == 'conc':
        # the model has no shared state between hits: each thread's hit is its own rendering
        d = []
        for i, (h, r) in enumerate(zip(obs['hits'], resp['threads'])):
            d += ['thread %d: %s' % (i, x) for x in compare_one(case, h, r)]
        return d
    if case.get('stream') == 'wide':
        err = resp['rendered'].get('err')
        return [] if err == 'tooWide' else [f'wide template {case["tpl"]!r}: the model answers {resp["rendered"]!r}, '
                                           f'expected the outcome tooWide (width beyond Template.maxWidth)']
    perm = permitted(case)
    first = next((h for h, ok in zip(obs['hits'], perm) if ok), None)
    if first is None:
        return []
    return compare_one(case, first, resp)


def compare_one(case, first, resp):
    r = resp['rendered']
    if r.get('err') == 'tooWide':
        # a width beyond the model's declared bound (Template.maxWidth): the real formatter would allocate it — such
        # templates are generated only in the labelled `wide` stream, whose real side is not run (see run_impl)
        return [] if case.get('stream') == 'wide' else ['model answers tooWide for a template outside the wide stream']
    d = []
    if case['logger'] != 'default':
        exp_calls = [[v for _, v in call] for call in resp['logger']]
        names = [[k for k, _ in call] for call in resp['logger']]
        if any(n != ['log_msg', 'tp_id', 'ctx_id'] for n in names):
            d.append(f'model: logger parameters {names}')
        if first['logger'] != exp_calls:
            d.append(f'logger calls: model {exp_calls!r} vs implementation {first["logger"]!r}')
    else:
        line = resp['defaultLine']
        got = first['lines']
        canon = []
        for l in got:
            parts = l.rsplit(' ', 2)
            if len(parts) == 3 and parts[1].startswith('ctx=') and parts[2].startswith('tracepoint='):
                l = parts[0] + ' ctx=' + canon_id(parts[1][4:]) + ' tracepoint=' + canon_id(parts[2][11:])
            canon.append(l)
        if canon != ([line] if line is not None else []):
            d.append(f'default logger: model {line!r} vs implementation {canon!r}')
    if resp['snapshots'] != first['snapshots']:
        d.append(f'snapshots: model {resp["snapshots"]} vs implementation {first["snapshots"]}')
    elif first['snapshots']:
        if resp['snapLog'] != first.get('snap_log'):
            d.append(f'snapshot.log_msg: model {resp["snapLog"]!r} vs implementation {first.get("snap_log")!r}')
        got = [w['expr'] for w in first.get('snap_watches', []) if w['source'] == 'LOG']
        if resp['snapWatches'] != got:
            d.append(f'LOG watches: model {resp["snapWatches"]!r} vs implementation {got!r}')
    return d


def label(case, obs):
    if case.get('stream') == 'wide':
        return 'wide/model-only'
    if case['kind'] == 'multi':
        return 'multi/%s/%s/faults%d' % (case['install'], '-'.join(t['kind'] for t in case['tps']),
                                         min(2, len(case['push_fail']) + len(case['log_fail'])))
    if case['kind'] == 'conc':
        return 'conc/%s/%s' % (case['mode'], ''.join(map(str, case['sched'])))
    segs = case['segs'] if case['kind'] == 'tpl' else ref_parse(case['tpl'])
    if segs is None:
        shape = 'malformed'
    elif outside_statement(segs):
        shape = 'outside'
    elif ref_render(segs) is None:
        shape = 'badspec'
    else:
        nf = len([s for s in segs if s[0] == 'field'])
        shape = 'fields%d' % min(nf, 3)
    kind = 'limits' if case.get('limits') else case['kind']
    return f"{kind}/{case['mode']}/{case['via']}/{case['logger']}/{shape}"


def nontrivial(case, obs):
    if case.get('stream') == 'wide':
        return True
    if case['kind'] == 'multi':
        # a failing result is followed by a message that must still be delivered
        first_fault = min(case['push_fail'] + case['log_fail'], default=None)
        return first_fault is not None and any(i >= first_fault and i not in case['log_fail'] and t['kind'] != 'snap'
                                               for i, t in enumerate(case['tps']))
    if case['kind'] == 'conc':
        return case['sched'] not in ([0, 0, 1, 1], [1, 1, 0, 0])      # the two hits overlap
    segs = case['segs'] if case['kind'] == 'tpl' else ref_parse(case['tpl'])
    if segs is None:
        return True
    return any(s[0] == 'field' for s in segs) and any(s[0] == 'lit' for s in segs)


def shrink(case):
    if case.get('stream') == 'wide':
        return
    if case['kind'] == 'multi':
        for key in ('push_fail', 'log_fail'):
            for x in case[key]:
                c = dict(case)
                c[key] = [y for y in case[key] if y != x]
                yield c
        for i, tp in enumerate(case['tps']):
            for j in range(1, len(tp['segs'])):
                c = dict(case)
                c['tps'] = list(case['tps'])
                c['tps'][i] = dict(tp, segs=tp['segs'][:j] + tp['segs'][j + 1:])
                yield c
        return
    if len(case['hits']) > 1:
        c = dict(case)
        c['hits'] = case['hits'][:1]
        yield c
    if case['kind'] in ('tpl', 'conc'):
        for i in range(len(case['segs'])):
            if case['kind'] == 'conc' and case['segs'][i][:2] == ['field', 'gate()']:
                continue
            c = dict(case)
            c['segs'] = case['segs'][:i] + case['segs'][i + 1:]
            yield c
        for key in ('limits', 'watches'):
            for k in list(case.get(key) or []):
                c = dict(case)
                c[key] = ({a: b for a, b in case[key].items() if a != k} if key == 'limits'
                          else [w for w in case[key] if w is not k])
                if key == 'limits' and not c[key]:
                    continue
                yield c
        for i, s in enumerate(case['segs']):
            if s[0] == 'field' and (s[2] or s[3]):
                c = dict(case)
                c['segs'] = case['segs'][:i] + [['field', s[1], None, '']] + case['segs'][i + 1:]
                yield c
    elif case['kind'] == 'raw':
        t = case['tpl']
        for i in range(len(t)):
            c = dict(case)
            c['tpl'] = t[:i] + t[i + 1:]
            if c['tpl']:
                yield c
    if case['via'] == 'real':
        c = dict(case)
        c['via'] = 'mock'
        yield c
