"""_exprlib — shared by the C10 / C16 / C17 checks: generated host modules (own globals), frames, the
independent eval oracle (reference evaluation in a copy of the frame's environment), canonicalisation.

Nothing here imports the agent's evaluation / formatting code; the reference is Python's own `eval`, `str`,
`repr`, `format` on live values.
"""
import sys
import threading
import types
import uuid as _uuid

import core
from rig import MockFrame, run_traced

# names that exist ONLY in the agent's modules (deep.processor.context.trigger_context and friends); an
# expression naming one of them must be a NameError in a host frame
AGENT_ONLY_NAMES = ['uuid', 'FrameType', 'time_ns', 'TriggerContext', 'ConfigService', 'LocationAction',
                    'FrameCollector', 'deep', 'PushService', 'VariableCacheProvider', 'Optional', 'Dict', 'List']


class HostInterrupt(BaseException):
    """a KeyboardInterrupt-like class of the host program (derives from BaseException, not Exception)"""


class HostQuit(SystemExit):
    pass


EXC_CLASSES = {
    'ValueError': ValueError, 'KeyError': KeyError, 'ZeroDivisionError': ZeroDivisionError,
    'RuntimeError': RuntimeError, 'KeyboardInterrupt': KeyboardInterrupt, 'SystemExit': SystemExit,
    'GeneratorExit': GeneratorExit, 'HostInterrupt': HostInterrupt, 'HostQuit': HostQuit,
    'StopIteration': StopIteration, 'BaseException': BaseException, 'Exception': Exception,
    'AssertionError': AssertionError, 'RecursionError': RecursionError, 'MemoryError': MemoryError,
}


class Obj:
    """a host object with attributes"""

    def __init__(self, **kw):
        self.__dict__.update(kw)

    def __str__(self):
        return 'Obj(%s)' % ','.join('%s=%s' % kv for kv in sorted(self.__dict__.items()))

    __repr__ = __str__


class Floaty:
    """a host object with its own __float__: returns a number, returns a non-float (TypeError in float()), or raises"""

    def __init__(self, how):
        self.how = how

    def __float__(self):
        if self.how == 'raise':
            raise RuntimeError('cannot convert')
        if self.how == 'overflow':
            raise OverflowError('too large')
        if self.how == 'text':
            return 'not a float'
        return float(self.how)

    def __str__(self):
        return 'Floaty(%s)' % (self.how,)

    __repr__ = __str__


def build_value(spec):
    """JSON value description -> live Python value.  {'obj': {...}} = Obj, {'tuple': [...]}, {'set': [...]},
    {'exc': [cls, msg]} = exception instance; everything else as is (lists / dicts recursively)."""
    if isinstance(spec, dict):
        if set(spec) == {'obj'}:
            return Obj(**{k: build_value(v) for k, v in spec['obj'].items()})
        if set(spec) == {'tuple'}:
            return tuple(build_value(v) for v in spec['tuple'])
        if set(spec) == {'exc'}:
            return EXC_CLASSES[spec['exc'][0]](spec['exc'][1])
        if set(spec) == {'floaty'}:
            return Floaty(spec['floaty'])
        if set(spec) == {'badstr'}:
            return BadStr()
        return {k: build_value(v) for k, v in spec.items()}
    if isinstance(spec, list):
        return [build_value(v) for v in spec]
    return spec


HOST_PRELUDE = '''
def boom(cls='ValueError', msg='boom'):
    raise EXC[cls](msg)

def twice(v):
    return v * 2

def ident(v):
    return v
'''


# locals / parameters whose names ALSO exist at module level of the host file (a parameter `path` next to
# `from os import path`, a local `count` next to a module-level `count`): at the paused line the local wins.  Drawn by
# the expression generators of C10, C16 and C17.
SHADOW_GLOBALS = {'count': 1000, 'path': 'module-path', 'limit': 99.5}
SHADOW_LOCALS = [['count', 3], ['path', '/local/p'], ['limit', 2.5]]
SHADOW_VALUE_EXPRS = ['count', 'count + 1', 'limit', 'count * limit', 'len(path)']
SHADOW_TEXT_EXPRS = ['path', 'count', "'%s:%s' % (path, count)", 'path.upper()', 'limit']


def make_module(name, globals_spec, extra=None):
    """a fresh module with its own globals: helpers + the case's globals.  name must be unique-ish."""
    mod = types.ModuleType(name)
    mod.__dict__['EXC'] = EXC_CLASSES
    code = compile(HOST_PRELUDE, '/app/%s.py' % name, 'exec')
    exec(code, mod.__dict__)
    for k, v in (globals_spec or {}).items():
        mod.__dict__[k] = build_value(v)
    for k, v in (extra or {}).items():
        mod.__dict__[k] = v
    return mod


def host_function(mod, fname, params, local_specs, filename):
    """define in `mod` a function  def <fname>(<params>):  <local> = <repr(value)> ...;  _mark = 0;  return _mark
    Returns (function, line number of the `_mark = 0` line — the tracepoint line)."""
    lines = ['def %s(%s):' % (fname, ', '.join(params))]
    for k, v in local_specs:
        lines.append('    %s = __build(%r)' % (k, v))
    lines.append('    _mark = 0')
    lines.append('    return _mark')
    src = '\n'.join(lines) + '\n'
    mod.__dict__['__build'] = build_value
    exec(compile(src, filename, 'exec'), mod.__dict__)
    return mod.__dict__[fname], len(lines) - 1


def at_line(expr, env_globals, env_locals):
    """what the host program would get writing `expr` at the paused line: every name visible at that line — the
    frame's locals, shadowing its module's globals, shadowing the builtins — is visible everywhere in the expression,
    nested lambdas / generator expressions included (they would be closures of the function).  Returns
    (value or exception, failed)."""
    ns = dict(env_globals)
    ns.update(env_locals)
    try:
        return eval(expr, ns), False
    except BaseException as e:  # noqa: B902
        return e, True


def outcome(expr, env_globals, env_locals):
    """the reference evaluation from the STATEMENT (see at_line) — independent of the agent."""
    v, failed = at_line(expr, env_globals, env_locals)
    return describe(v, failed)


def eval_outcome(expr, env_globals, env_locals):
    """Python's `eval(expr, globals, locals)` — the oracle the MODEL is parametrised by (the model says which
    environments reach `eval`; what `eval` then does is Python's business)."""
    try:
        v = eval(expr, dict(env_globals), dict(env_locals))
        failed = False
    except BaseException as e:  # noqa: B902
        v = e
        failed = True
    return describe(v, failed)


def nested_local_uses(expr, local_names):
    """names of frame locals that `expr` uses inside a nested scope of its own (lambda body, generator expression):
    there CPython resolves free names in globals / builtins only, the `locals` mapping given to eval is not seen.
    (List / set / dict comprehensions are inlined since 3.12 and do see them.)"""
    import ast as _ast
    try:
        tree = _ast.parse(expr.strip(), mode='eval')
    except SyntaxError:
        return []
    found = []

    def bound_in(node):
        b = set()
        if isinstance(node, _ast.Lambda):
            a = node.args
            for x in a.posonlyargs + a.args + a.kwonlyargs + ([a.vararg] if a.vararg else []) + ([a.kwarg] if a.kwarg else []):
                b.add(x.arg)
        else:
            for g in node.generators:
                for n in _ast.walk(g.target):
                    if isinstance(n, _ast.Name):
                        b.add(n.id)
        return b

    def scan(node, bound):
        for n in _ast.walk(node):
            if isinstance(n, _ast.Name) and isinstance(n.ctx, _ast.Load) and n.id in local_names and n.id not in bound:
                found.append(n.id)

    for node in _ast.walk(tree):
        if isinstance(node, _ast.Lambda):
            scan(node.body, bound_in(node))
        elif isinstance(node, _ast.GeneratorExp):
            b = bound_in(node)
            scan(node.elt, b)
            for i, g in enumerate(node.generators):
                if i > 0:
                    scan(g.iter, b)          # the first iterable is evaluated in the enclosing scope
                for c in g.ifs:
                    scan(c, b)
    return sorted(set(found))


class BadStr:
    """a host object whose __str__ raises"""

    def __str__(self):
        raise RuntimeError('no text for this object')

    def __repr__(self):
        return 'BadStr()'


def describe(v, failed=False):
    str_raises = False
    try:
        text = str(v)
    except BaseException as e:  # noqa: B902
        text = '<str raises %s>' % type(e).__name__
        str_raises = isinstance(e, Exception)
    val = {'k': 'other'}
    if not failed:
        if isinstance(v, bool):
            val = {'k': 'bool', 'v': v}
        elif type(v) is int:
            val = {'k': 'int', 'v': v}
        elif type(v) is float:
            val = {'k': 'float', 'v': repr(v)}
        elif type(v) is str:
            val = {'k': 'str', 'v': v}
        elif isinstance(v, Floaty):
            try:
                val = {'k': 'float', 'v': repr(float(v))}     # an object that converts: described by its number
            except Exception:   # noqa: B902
                val = {'k': 'other'}
    return {'failed': failed, 'isExc': isinstance(v, BaseException), 'ty': type(v).__name__, 'text': text, 'val': val,
            'strRaises': str_raises}


SIMPLE_TYPES = {'int', 'str', 'bool', 'float', 'NoneType'}


def watch_dump(snapshot):
    """canonical watch results of a snapshot: expression, source, error, and the type / value text of the
    variable the result points to."""
    out = []
    for w in snapshot.watches:
        ent = {'expr': w.expression, 'source': w.source, 'error': w.error, 'type': None, 'value': None}
        if w.result is not None:
            var = snapshot.var_lookup.get(w.result.vid)
            ent['name'] = w.result.name
            if var is not None:
                ent['type'] = var.type
                ent['value'] = var.value
            else:
                ent['dangling'] = w.result.vid
        out.append(ent)
    return out


def is_uuid4(s):
    try:
        u = _uuid.UUID(s)
    except (ValueError, AttributeError, TypeError):
        return False
    return str(u) == s and u.version == 4


_counter = [0]
_counter_lock = threading.Lock()


def unique(prefix):
    with _counter_lock:
        _counter[0] += 1
        return '%s_%d' % (prefix, _counter[0])
